"""Self-test corpus: one-edit variants of /repo's package (exact text replacement on the *current* tree).
kind = breaking: the named property's check must exit 1 (rule = the rule expected to report it)
kind = benign:   every check must stay at exit 0
A variant whose pattern no longer matches is reported STALE by tools/selftest.py (never silently skipped)."""

RULE = "utype/parser/rule.py"
BASE = "utype/parser/base.py"
FIELD = "utype/parser/field.py"
FUNC = "utype/parser/func.py"
CLS = "utype/parser/cls.py"
OPT = "utype/parser/options.py"
SCHEMA = "utype/schema.py"
TRANS = "utype/utils/transform.py"
UBASE = "utype/utils/base.py"
GEN = "utype/specs/json_schema/generator.py"
JPARSER = "utype/specs/json_schema/parser.py"
JCONST = "utype/specs/json_schema/constant.py"
ENC = "utype/utils/encode.py"
EXC = "utype/utils/exceptions.py"
COMPAT = "utype/utils/compat.py"
FUNCTIONAL = "utype/utils/functional.py"


def B(name, prop, rule, *edits, **kw):
    d = dict(name=name, kind="breaking", prop=prop, rule=rule, edits=list(edits))
    d.update(kw)
    return d


def G(name, *edits):
    return dict(name=name, kind="benign", edits=list(edits))


VARIANTS = [
    B("C17 revert F54: resolved flag overwritten per argument", "C17", "R17j",
      (RULE, """            arg, arg_resolved = resolve_forward_type(arg)
            if arg_resolved:
                arg = cls._parse_arg(arg)
                resolved = True""", """            arg, resolved = resolve_forward_type(arg)
            if resolved:
                arg = cls._parse_arg(arg)""")),
    B("C17 revert F55: combined origin not re-resolved", "C17", "R17k",
      (RULE, """        if isinstance(cls.__origin__, LogicalType):
            # Rule[AnyOf(ForwardRef('X'), None)]: the references sit in the combined origin
            if cls.__origin__.resolve_forward_refs():
                resolved = True
""", "")),
    B("C17 revert F53: base parsers not resolved for a subclass", "C17", "R17i",
      (CLS, """        for base in self.obj.__mro__[1:]:""", """        for base in self.obj.__bases__:""")),
    G("benign C17: resolved flag accumulated with or",
      (RULE, """            if arg_resolved:
                arg = cls._parse_arg(arg)
                resolved = True""", """            resolved = resolved or arg_resolved
            if arg_resolved:
                arg = cls._parse_arg(arg)""")),
    B("C13 revert F49: output required ignores options.no_default", "C13", "R13c",
      (GEN, """                if not options.no_default and not field.no_default \\
                        and not (field.defer_default or options.defer_default):""",
       """                if not field.no_default and not (field.defer_default or options.defer_default):""")),
    B("C13 revert F50: properties keyed by the parser's table key", "C13", "R13c",
      (GEN, """        for key, field in parser.fields.items():""", """        for name, field in parser.fields.items():"""),
      (GEN, """            name = field.name
""", "")),
    G("benign C13: the declared name used directly as the property key",
      (GEN, "            properties[name] = value", "            properties[field.name] = value"),
      (GEN, "                required.append(name)\n            elif self.output:", "                required.append(field.name)\n            elif self.output:")),
    # ------------------------------------------------------------------ round 4 (second batch)
    B("C04 revert F48: exponent text expanded without a digit bound", "C04", "R04j",
      (TRANS, """        if self.MAX_INT_DIGITS and data.is_finite() and data.adjusted() >= self.MAX_INT_DIGITS:
            raise TypeError(f'number exceeds the limit of {self.MAX_INT_DIGITS} integer digits')

""", "")),
    B("C09 enter() reuses the layer under an equal route", "C09", "R10g",
      (OPT, """        return self.__class__(
            context=self,""", """        if options is None and route is not None and route == self.route:
            return self
        return self.__class__(
            context=self,""")),
    B("C10 options equal to the default are not recorded", "C10", "R10h",
      (OPT, """                # if getattr(self, key) == val:
                #     continue
""", """                if getattr(Options, key) == val:
                    continue
""")),
    B("C02 validators only rebuilt when the class declares a constraint", "C02", "R02f",
      (RULE, "        cls.__validators__ = cls.constraints_cls(cls).generate_validators()\n        cls._validate_contains()",
       "        if not cls.__validators__ or any(key in cls.__dict__ for key in cls.__constraints__):\n"
       "            cls.__validators__ = cls.constraints_cls(cls).generate_validators()\n        cls._validate_contains()")),
    B("C16 combinator types compare structurally", "C16", "R16g",
      (RULE, """    @property
    def args(cls):
        return cls.__dict__.get("__args__", [])""", """    def __eq__(cls, other):
        return isinstance(other, LogicalType) and cls.combinator and cls.combinator == other.combinator \
            and list(cls.args) == list(other.args) or cls is other

    def __hash__(cls):
        return hash((cls.combinator, tuple(cls.args))) if cls.combinator else id(cls)

    @property
    def args(cls):
        return cls.__dict__.get("__args__", [])""")),
    B("C18 nested contexts merge the caller's options", "C18", "R18i",
      (OPT, """            if not self.override and context.options.override:
                options = context.options
                # override""", """            if not self.override and context.options.override:
                options = context.options
                # override
            elif not self.override:
                options = self & context.options""")),
    B("C11 input error policy taken from the getter's Field", "C11", "R11g",
      (FIELD, "        self.on_error = self.field.on_error",
       "        self.on_error = self.output_field.on_error if self.output_field else self.field.on_error")),
    B("C10 oversized input returns an empty result after the recorded error", "C10", "R10i",
      (BASE, """                        max_params=options.max_params, params_num=len(data)
                    )
                )
""", """                        max_params=options.max_params, params_num=len(data)
                    )
                )
                return {}
""")),
    G("benign C18: override test folded into one condition",
      (OPT, """        if context:
            if not self.override and context.options.override:
                options = context.options
                # override""", """        if context and not self.override and context.options.override:
            options = context.options
            # override""")),
    G("benign C10: record loop with the skip conditions merged",
      (OPT, """            if unprovided(val):
                continue
            if key.startswith('_'):
                continue
            if hasattr(self, key):""", """            if unprovided(val) or key.startswith('_'):
                continue
            if hasattr(self, key):""")),
    # ------------------------------------------------------------------ round 4: R01e, R04i
    B("C01 revert F45: literal returned for an int subclass", "C01", "R01e",
      (TRANS, "                    return t(1)", "                    return 1")),
    B("C01 revert F45: datetime.time() for a time subclass", "C01", "R01e",
      (TRANS, "                return t(data.hour, data.minute, data.second, data.microsecond, fold=data.fold)",
       "                return data.time()")),
    B("C01 revert F45: sign times a timedelta subclass", "C01", "R01e",
      (TRANS, """                kw_ = {k: sign * float(v) for k, v in kw.items() if v is not None}
                return t(**kw_)""", """                kw_ = {k: float(v) for k, v in kw.items() if v is not None}
                return sign * t(**kw_)""")),
    B("C01 date converter opened to subclasses keeps data.date()", "C01", "R01e",
      (TRANS, """    @registry.register(
        date, allow_subclasses=False
    )""", """    @registry.register(date)""")),
    B("C04 revert F46: EmailStr separator written as a range", "C04", "R04i",
      ("utype/types.py", "([A-Za-z0-9]+[._-])*", "([A-Za-z0-9]+[.-_])*")),
    B("C04 nested quantifier in the ISO duration pattern", "C04", "R04i",
      (TRANS, 'r"(?:(?P<days>\\d+(.\\d+)?)D)?"', 'r"(?:(?P<days>(\\d+)+(.\\d+)?)D)?"')),
    G("benign C04: duration digits written as a class",
      (TRANS, 'r"(?:(?P<days>\\d+(.\\d+)?)D)?"', 'r"(?:(?P<days>[0-9]+(.[0-9]+)?)D)?"')),
    G("benign C01: int converter builds the literal through a local",
      (TRANS, "                    return t(1)", "                    one = t(1)\n                    return one")),
    # ------------------------------------------------------------------ C04
    B("C04 revert F01: seq handler indexes the input", "C04", "R04c",
      (RULE, "item=i, value=item, type=arg_type, origin_exc=e", "item=i, value=value[i], type=arg_type, origin_exc=e")),
    B("C04 revert F02: tuple absence falls through", "C04", "R04b",
      (RULE, """                    )
                )
                continue

            with context.enter(route=i) as arg_context:""", """                    )
                )

            with context.enter(route=i) as arg_context:""")),
    B("C04 revert F03a: no finiteness guard (number branch)", "C04", "R04d",
      (TRANS, """            if not math.isfinite(data):
                raise TypeError(f'invalid timestamp: {repr(data)}')
            while abs(data)""", """            while abs(data)""")),
    B("C04 revert F03b: no finiteness guard (string branch)", "C04", "R04d",
      (TRANS, """            if not math.isfinite(num):
                raise TypeError(f'invalid timestamp: {repr(data)}')
""", "")),
    B("C04 revert F10: & branch passes raw exception", "C04", "R04a",
      (RULE, """                    context.handle_error(
                        e if isinstance(e, exc.ParseError) else exc.ParseError(origin_exc=e)
                    )""", """                    context.handle_error(e)""")),
    B("C04 revert F17: contains handler narrow", "C04", "R04a",
      (RULE, "except Exception:  # noqa: an item that cannot convert is just not contained", "except (TypeError, ValueError):")),
    B("C04 parse_pos_type handler narrowed", "C04", "R04a",
      (FUNC, """                value = new_context.transformer(value, pos_type)
            except Exception as e:""", """                value = new_context.transformer(value, pos_type)
            except (TypeError, ValueError) as e:""")),
    B("C04 parse_addition try removed", "C04", "R04a",
      (BASE, """            try:
                value = new_context.transformer(value, addition_type)
            except Exception as e:
                error = exc.ParseError(
                    item=key, value=value, type=addition_type, origin_exc=e
                )
                if options.invalid_values == options.EXCLUDE:
                    context.collect_waring(error.formatted_message)
                    return unprovided
                elif options.invalid_values == options.PRESERVE:
                    context.collect_waring(error.formatted_message)
                else:
                    context.handle_error(error)
""", """            value = new_context.transformer(value, addition_type)
""")),
    B("C04 parse_output_value passes raw e", "C04", "R04a",
      (FIELD, """            else:
                context.handle_error(error)
            return unprovided

    def parse_value""", """            else:
                context.handle_error(e)
            return unprovided

    def parse_value""")),
    B("C04 new unguarded shrink loop in to_float", "C04", "R04d",
      (TRANS, """        else:
            data = self._attempt_from_number(data)

        return t(data)

    @registry.register(int)""", """        else:
            data = self._attempt_from_number(data)
            if isinstance(data, float):
                while abs(data) > 1e300:
                    data /= 10

        return t(data)

    @registry.register(int)""")),
    B("C04 eager_call calls body with caller args", "C04", "R04e",
      (FUNC, """            if parse_result:
                return self.get_async_result(args, kwargs, context=context)
            return self.obj(*args, **kwargs)""", """            if parse_result:
                return self.get_async_result(args, kwargs, context=context)
            return self.obj(*_args, **kwargs)"""),
      (FUNC, """        @wraps(self.obj)
        def eager_call(*args, **kwargs):
            context = (options or self.options).make_context()
            self.resolve_forward_refs()
            args, kwargs = self.get_params(""", """        @wraps(self.obj)
        def eager_call(*args, **kwargs):
            context = (options or self.options).make_context()
            self.resolve_forward_refs()
            _args = args
            args, kwargs = self.get_params(""")),
    B("C04 parse_params returns before raise_error", "C04", "R04e",
      (FUNC, """        context.raise_error()  # raise the parse error before calling the function
        return tuple(parsed_args), parsed_kwargs""", """        if not parsed_keys:
            return tuple(parsed_args), parsed_kwargs
        context.raise_error()  # raise the parse error before calling the function
        return tuple(parsed_args), parsed_kwargs""")),
    B("C04 validator call moved out of try", "C04", "R04a",
      (RULE, """                try:
                    value = validator(value, constraint)
                except Exception as e:""", """                if key == 'unique_items':
                    value = validator(value, constraint)
                    continue
                try:
                    value = validator(value, constraint)
                except Exception as e:""")),
    # ------------------------------------------------------------------ C10
    B("C10 revert F15: & branch returns without flush", "C10", "R10b",
      (RULE, """                    )
                    break

        elif cls.combinator == "|":""", """                    )
                    break
            return value

        elif cls.combinator == "|":""")),
    B("C10 map args: continue after key error removed", "C10", "R10a",
      (RULE, """                    else:
                        context.handle_error(error)
                        continue

            if value_type:""", """                    else:
                        context.handle_error(error)

            if value_type:""")),
    B("C10 ^ branch: early return before raise_error", "C10", "R10b",
      (RULE, """            if xor is not None:
                # only one condition is satisfied in XOR
                context.clear_tmp_error()
                value = xor_value
""", """            if xor is not None:
                # only one condition is satisfied in XOR
                context.clear_tmp_error()
                return xor_value
            return value
""")),
    B("C10 cap test moved before the append", "C10", "R10c",
      (OPT, """        self.errors.append(e)
        if force_raise or self.force_error or not self.options.collect_errors:
            raise e

        if (
            self.options.max_errors is not None
            and len(self.errors) >= self.options.max_errors
        ):
            errors = list(self.errors)
            if self.tmp_errors:
                errors.extend(self.tmp_errors)
            raise exc.CollectedParseError(errors=errors)""", """        if (
            self.options.max_errors is not None
            and len(self.errors) >= self.options.max_errors
        ):
            errors = list(self.errors)
            if self.tmp_errors:
                errors.extend(self.tmp_errors)
            raise exc.CollectedParseError(errors=errors)
        self.errors.append(e)
        if force_raise or self.force_error or not self.options.collect_errors:
            raise e""")),
    B("C10 cap relation > instead of >=", "C10", "R10c",
      (OPT, "and len(self.errors) >= self.options.max_errors", "and len(self.errors) > self.options.max_errors")),
    B("C10 BaseParser.__call__ drops the flush", "C10", "R10b",
      (BASE, """        result = self.parse_data(data, context=context)
        context.raise_error()
        # raise error if collected
        return result""", """        result = self.parse_data(data, context=context)
        return result""")),
    B("C10 parse logic branches on collect_errors", "C10", "R10d",
      (BASE, """            parsed = field.parse_value(value, context=context)
            if unprovided(parsed):
                continue

            result[name] = parsed

            if field.dependencies:""", """            parsed = field.parse_value(value, context=context)
            if unprovided(parsed):
                if options.collect_errors:
                    result[name] = value
                continue

            result[name] = parsed

            if field.dependencies:""")),
    B("C10 raise_error ignores tmp errors", "C10", "R10-policy",
      (OPT, "        if not self.errors and not self.tmp_errors:\n            return", "        if not self.errors:\n            return")),
    # ------------------------------------------------------------------ C07
    B("C07 revert F09: extra key stores raw value", "C07", "R07b",
      (SCHEMA, "return super().__setitem__(alias, addition)", "return super().__setitem__(alias, value)")),
    B("C07 revert F11: copy shares __dict__", "C07", "R07d",
      (SCHEMA, "obj.__dict__ = dict(self.__dict__)", "obj.__dict__ = self.__dict__")),
    B("C07 revert F12: force_error ignored", "C07", "R07e",
      (OPT, "if force_raise or self.force_error or not self.options.collect_errors:", "if force_raise or not self.options.collect_errors:")),
    B("C07 setdefault override deleted", "C07", "R07a",
      (SCHEMA, """    def setdefault(self, key: str, default=None):
        if key in self:
            return self[key]
        # go through __setitem__ so that the default is parsed like any assigned value
        self[key] = default
        return self[key] if key in self else default

""", "")),
    B("C07 popitem delegates to dict again", "C07", "R07c",
      (SCHEMA, """        for key in reversed(list(self.keys())):
            # go through pop() so that immutable / required fields are checked
            return key, self.pop(key)
        raise KeyError(f"{self.__name__}: popitem(): schema is empty")""", """        return super().popitem()""")),
    B("C07 pop: required test deleted", "C07", "R07c",
      (SCHEMA, """        if field.is_required(self.__options__):
            raise exc.DeleteError(
                f"{self.__name__}: Attempt to delete required schema key: {repr(key)}"
            )
        args = () if unprovided(default) else (default,)""", """        args = () if unprovided(default) else (default,)""")),
    B("C07 clear: immutable test deleted", "C07", "R07c",
      (SCHEMA, """            if field.immutable:
                raise exc.DeleteError(
                    f"{self.__name__}: Attempt to clear schema with immutable field: {repr(field.name)}"
                )
""", "")),
    B("C07 update delegates to dict.update", "C07", "R07a",
      (SCHEMA, """        data = dict(__m) if __m else kwargs
        for key, val in data.items():
            self.__setitem__(key, val)""", """        data = dict(__m) if __m else kwargs
        return super().update(data)""")),
    B("C07 field setter stores the raw argument", "C07", "R07b",
      (SCHEMA, """        context = self.__parser__.make_context(force_error=True)
        value = field.parse_value(value, context=context)
        if unprovided(value):""", """        context = self.__parser__.make_context(force_error=True)
        parsed = field.parse_value(value, context=context)
        if unprovided(parsed):""")),
    B("C07 setter context without force_error", "C07", "R07e",
      (CLS, """            context = self.options.make_context(_obj_self.__class__, force_error=True)
            value = field.parse_value(value, context=context)""", """            context = self.options.make_context(_obj_self.__class__)
            value = field.parse_value(value, context=context)""")),
    B("C07 revert F23: sentinel stored by generated setter", "C07", "R07e",
      (CLS, """            if unprovided(value):
                # the invalid value is excluded by the field's on_error policy: keep the current data
                return
            _obj_self.__dict__[field.attname] = value""", """            _obj_self.__dict__[field.attname] = value""")),
    B("C07 dependants loop skipped for no_output fields", "C07", "R07f",
      (SCHEMA, """                if field.name in self:
                    super().__delitem__(field.name)
            else:
                super().__setitem__(field.name, value)

        if field.dependants:""", """                if field.name in self:
                    super().__delitem__(field.name)
                return
            else:
                super().__setitem__(field.name, value)

        if field.dependants:""")),
    B("C07 generated deleter: required test deleted", "C07", "R07c",
      (CLS, """            if field.is_required(context.options):
                raise exc.DeleteError(
                    f"{self.name}: Attempt to delete required schema key: {repr(field.attname)}"
                )

            if field.attname not in _obj_self.__dict__:""", """            if field.attname not in _obj_self.__dict__:""")),
    # ------------------------------------------------------------------ C16
    B("C16 revert F18: cache reset deleted", "C16", "R16a",
      (UBASE, """                # a new registration may change the resolution of types that are already memoised
                self._cache.clear()
""", "")),
    B("C16 revert F19: sort conditional again", "C16", "R16b",
      (UBASE, """                self._registry.sort(key=lambda v: -v[2])
                # a new""", """                if priority:
                    self._registry.sort(key=lambda v: -v[2])
                # a new""")),
    B("C16 metaclass criterion dropped from detector", "C16", "R16c",
      (UBASE, """                if metaclass:
                    if not isinstance(_cls, metaclass):
                        return False
""", "")),
    B("C16 allow_subclasses polarity swapped", "C16", "R16c",
      (UBASE, """                    if allow_subclasses:
                        if not issubclass(_cls, classes):""", """                    if not allow_subclasses:
                        if not issubclass(_cls, classes):""")),
    B("C16 memo keyed by the wrong object", "C16", "R16d",
      (UBASE, "self._cache[t] = trans", "self._cache[detector] = trans")),
    B("C16 sort ascending", "C16", "R16b",
      (UBASE, "self._registry.sort(key=lambda v: -v[2])", "self._registry.sort(key=lambda v: v[2])")),
    B("C16 resolve consults base before own list", "C16", "R16d",
      (UBASE, """        with self._lock:
            # a fill must not""", """        if self.base and self.base.resolve(t):
            return self.base.resolve(t)
        with self._lock:
            # a fill must not""")),
    # ------------------------------------------------------------------ C09
    B("C09 revert F14: ^ threads the converted value", "C09", "R09a",
      (RULE, """                        val = new_context.transformer(value, con)
                        if xor is None:
                            xor = con
                            xor_value = val""", """                        value = val = new_context.transformer(value, con)
                        if xor is None:
                            xor = con
                            xor_value = val""")),
    G("benign | stage: dead store of the subject before returning",
      (RULE, """            for con in cls.args:
                with context.enter(cls.combinator) as new_context:
                    try:
                        # error isolation
                        val = new_context.transformer(value, con)
                    except Exception as e:
                        context.collect_tmp_error(e)
                    else:
                        context.clear_tmp_error()
                        return val

        elif cls.combinator == "^":""", """            for con in cls.args:
                with context.enter(cls.combinator) as new_context:
                    try:
                        # error isolation
                        val = value = new_context.transformer(value, con)
                    except Exception as e:
                        context.collect_tmp_error(e)
                    else:
                        context.clear_tmp_error()
                        return val

        elif cls.combinator == "^":""")),
    B("C09 ~ returns the converted value", "C09", "R09a",
      (RULE, """                    try:
                        new_context.transformer(value, con)
                        context.handle_error(
                            exc.NegateViolatedError(""", """                    try:
                        value = new_context.transformer(value, con)
                        context.handle_error(
                            exc.NegateViolatedError(""")),
    B("C09 ^ returns on the first acceptance", "C09", "R09c",
      (RULE, """                        if xor is None:
                            xor = con
                            xor_value = val
                        else:""", """                        if xor is None:
                            xor = con
                            xor_value = val
                            return val
                        else:""")),
    B("C09 __xor__ builds a union", "C09", "R09d",
      (RULE, """    def __xor__(cls: T, other: OTHER) -> Union[T, OTHER]:
        return cls.combine_by("^", other)""", """    def __xor__(cls: T, other: OTHER) -> Union[T, OTHER]:
        return cls.combine_by("|", other)""")),
    B("C09 double negation no longer cancels", "C09", "R09d",
      (RULE, """        if cls.combinator == "~":
            return cls.args[0]
        return cls.combine("~", cls)""", """        return cls.combine("~", cls)""")),
    B("C09 __rand__ loses operand order", "C09", "R09d",
      (RULE, """return cls.combine_by("&", other, reverse=True)""", """return cls.combine_by("&", other)""")),
    B("C09 ~ handler records an error", "C09", "R09c",
      (RULE, """                    except Exception:  # noqa
                        break
                        # value = cls._get_error_result(e, value, **kwargs)""", """                    except Exception as e:  # noqa
                        context.collect_tmp_error(e)
                        break""")),
    # ------------------------------------------------------------------ C06
    B("C06 revert F05: defaults under not ignore_required", "C06", "R06a",
      (BASE, """            default = field.get_default(options, defer=False)
            if not unprovided(default):
                result[name] = default

        if dependencies:
            dependant = set(result)
            if excluded_keys:
                dependant.update(excluded_keys)

            diff = dependencies.difference(dependant)
            lack = dependencies.intersection(unprovided_fields)
            lack.update(diff)
            if lack:
                # some dependencies not provided
                context.handle_error(
                    exc.DependenciesAbsenceError(absence_dependencies=lack)
                )

        # check dependencies before addition

        if addition:""", """            if options.ignore_required:
                continue
            default = field.get_default(options, defer=False)
            if not unprovided(default):
                result[name] = default

        if dependencies:
            dependant = set(result)
            if excluded_keys:
                dependant.update(excluded_keys)

            diff = dependencies.difference(dependant)
            lack = dependencies.intersection(unprovided_fields)
            lack.update(diff)
            if lack:
                # some dependencies not provided
                context.handle_error(
                    exc.DependenciesAbsenceError(absence_dependencies=lack)
                )

        # check dependencies before addition

        if addition:""")),
    B("C06 revert F06: parsed vs raw comparison", "C06", "R06b",
      (BASE, "if provided[name] != value:", "if result.get(name, value) != value:")),
    B("C06 field-first: absence error only without addition", "C06", "R06a",
      (BASE, """                unprovided_fields.add(name)
                if field.is_required(options=options):
                    context.handle_error(exc.AbsenceError(item=name))
                    continue
                default = field.get_default(options, defer=False)
                # we don't catch""", """                unprovided_fields.add(name)
                if field.is_required(options=options) and not options.addition:
                    context.handle_error(exc.AbsenceError(item=name))
                    continue
                default = field.get_default(options, defer=False)
                # we don't catch""")),
    B("C06 data-first: alias conflict guard dropped", "C06", "R06b",
      (BASE, """            if not options.ignore_alias_conflicts:
                if name in provided:""", """            if True:
                if name in provided:""")),
    B("C06 selector passes excluded_keys to one strategy only", "C06", "R06c",
      (BASE, """            result = self.field_first_parse(
                data, context, excluded_keys=excluded_keys, as_attname=as_attname
            )""", """            result = self.field_first_parse(
                data, context, as_attname=as_attname
            )""")),
    B("C06 field-first: dependencies collected before no-input gate", "C06", "R06a",
      (BASE, """            used_alias.update(field.all_aliases)
            # even if field is no-input""", """            used_alias.update(field.all_aliases)
            if field.dependencies:
                dependencies.update(field.dependencies)
            # even if field is no-input""")),
    # ------------------------------------------------------------------ C18
    B("C18 revert F20: truthiness test on route", "C18", "R18a",
      (OPT, "        if route is not None:\n            self.routes.append(route)", "        if route:\n            self.routes.append(route)")),
    B("C18 init_dataclass context without parent", "C18", "R18c",
      (CLS, "new_context: RuntimeContext = parser.make_context(context=context)", "new_context: RuntimeContext = parser.make_context()")),
    B("C18 strict stage guard removed", "C18", "R18d",
      (RULE, "            if not context.options.no_data_loss or not context.options.no_explicit_cast:\n", "            if True:\n")),
    B("C18 depth relation >=", "C18", "R18a",
      (OPT, "if self.options.max_depth and self.depth > self.options.max_depth:", "if self.options.max_depth and self.depth >= self.options.max_depth:")),
    B("C18 seq parser enters without route", "C18", "R18b",
      (RULE, """        for i, item in enumerate(value):
            with context.enter(route=i) as arg_context:
                try:
                    result.append(
                        arg_context.transformer.apply(
                            item, arg_type, func=arg_transformer""", """        for i, item in enumerate(value):
            with context.enter(route=None) as arg_context:
                try:
                    result.append(
                        arg_context.transformer.apply(
                            item, arg_type, func=arg_transformer""")),
    B("C18 no-loss stage guard weakened", "C18", "R18d",
      (RULE, "            if not context.options.no_data_loss and not context.options.no_explicit_cast:\n", "            if not context.options.no_explicit_cast:\n")),
    # ------------------------------------------------------------------ C02
    B("C02 max_digits >= for >", "C02", "R02a",
      (RULE, "        if digits > max_digits:\n            raise ValueError", "        if digits >= max_digits:\n            raise ValueError")),
    B("C02 min_length <= for <", "C02", "R02a",
      (RULE, "        if len(v) < m:\n            raise ValueError", "        if len(v) <= m:\n            raise ValueError")),
    B("C02 regex uses re.match", "C02", "R02a",
      (RULE, "if not re.fullmatch(r, str(value)):", "if not re.match(r, str(value)):")),
    B("C02 const drops the type test", "C02", "R02a",
      (RULE, """        if type(value) != type(v):
            if {type(value), type(v)} in TYPE_EXACT_TOLERANCE:
                pass
            else:
                raise ValueError
        return v""", """        return v""")),
    B("C02 gt accepts the bound", "C02", "R02a",
      (RULE, "        if value <= gt:\n            raise ValueError", "        if value < gt:\n            raise ValueError")),
    B("C02 le alters accepted value", "C02", "R02b",
      (RULE, "        if value > le:\n            raise ValueError\n        return value", "        if value > le:\n            raise ValueError\n        return min(value, le)")),
    B("C02 instancecheck skips the parse", "C02", "R02c",
      (RULE, """            try:
                cls(obj)
                return True
            except exc.ParseError:
                return False""", """            if not getattr(cls, '__validators__', None):
                return True
            try:
                cls(obj)
                return True
            except exc.ParseError:
                return False""")),
    B("C02 Field forwards gt as ge", "C02", "R02d",
      (FIELD, "                gt=gt,\n                ge=ge,", "                gt=ge,\n                ge=gt,")),
    B("C02 min_contains relation <=", "C02", "R02a",
      (RULE, "elif cls.min_contains and contains < cls.min_contains:", "elif cls.min_contains and contains <= cls.min_contains:")),
    B("C02 unique_items forgets items", "C02", "R02a",
      (RULE, """            if val in lst:
                raise ValueError(f"value is not unique")
            lst.append(val)
        return value""", """            if val in lst:
                raise ValueError(f"value is not unique")
            lst = [val]
        return value""")),
    # ------------------------------------------------------------------ C01
    B("C01 to_str returns falsy input unchanged", "C01", "R01a",
      (TRANS, """    def to_str(self, data, t: Type[str] = str) -> str:
        if isinstance(data, str):""", """    def to_str(self, data, t: Type[str] = str) -> str:
        if not data:
            return data
        if isinstance(data, str):""")),
    B("C01 to_array_types guard loosened to any iterable", "C01", "R01a",
      (TRANS, """    def to_array_types(self, data, t=list):
        if isinstance(data, t):
            return data""", """    def to_array_types(self, data, t=list):
        if isinstance(data, (list, tuple)):
            return data""")),
    B("C01 to_float returns int input as is", "C01", "R01a",
      (TRANS, """        if self.no_explicit_cast:
            if not isinstance(data, (int, float, Decimal)):
                raise TypeError
        else:
            data = self._attempt_from_number(data)

        return t(data)

    @registry.register(int)""", """        if self.no_explicit_cast:
            if not isinstance(data, (int, float, Decimal)):
                raise TypeError
            return data
        else:
            data = self._attempt_from_number(data)

        return t(data)

    @registry.register(int)""")),
    B("C01 dispatcher shortcut uses isinstance of any class", "C01", "R01a",
      (TRANS, """        if type(data) == t:
            # strict equal. not isinstance, like datetime is instance of date
            return data
        transformer = self.resolver_transformer(t)""", """        if type(data) == t or type(data).__name__ == getattr(t, '__name__', None):
            # strict equal. not isinstance, like datetime is instance of date
            return data
        transformer = self.resolver_transformer(t)""")),
    B("C01 tuple surplus appends the raw item", "C01", "R01b",
      (RULE, """                            result.append(
                                arg_context.transformer.apply(value[i], options.addition)
                            )""", """                            arg_context.transformer.apply(value[i], options.addition)
                            result.append(value[i])""")),
    B("C01 map parser stores the raw key", "C01", "R01b",
      (RULE, "            result[key] = val\n        return result", "            result[_key] = val\n        return result")),
    B("C01 validator result not assigned back", "C01", "R01c",
      (RULE, "                    value = validator(value, constraint)", "                    validator(value, constraint)")),
    B("C01 validators skipped for falsy values", "C01", "R01c",
      (RULE, "        if not options.ignore_constraints:\n            # if options ignore constraints", "        if not options.ignore_constraints and value:\n            # if options ignore constraints")),
    B("C01 early return for same-origin instances", "C01", "R01c",
      (RULE, """            try:
                value = context.transformer.apply(
                    value, cls.__origin__, func=cls.__origin_transformer__
                )""", """            if type(value) == cls.__origin__ and not cls.__args__:
                return value
            try:
                value = context.transformer.apply(
                    value, cls.__origin__, func=cls.__origin_transformer__
                )""")),
    B("C01 *args elements appended unparsed", "C01", "R01d",
      (FUNC, """                arg = self.parse_pos_type(index=i, value=arg, context=context)
                if unprovided(arg):
                    continue""", """                parsed = self.parse_pos_type(index=i, value=arg, context=context)
                if unprovided(parsed):
                    continue""")),
    B("C01 data-first stores the raw value on exclusion", "C01", "R01d",
      (BASE, """            parsed = field.parse_value(value, context=context)
            if unprovided(parsed):
                continue

            result[name] = parsed

            if field.dependencies:""", """            parsed = field.parse_value(value, context=context)
            if unprovided(parsed):
                if not field.required:
                    result[name] = value
                continue

            result[name] = parsed

            if field.dependencies:""")),
    B("C01 element parser skipped for empty containers", "C01", "R01c",
      (RULE, "        if cls.__args_parser__:\n            try:", "        if cls.__args_parser__ and not cls.__abstract__:\n            try:")),
    # ------------------------------------------------------------------ C11
    B("C11 parse_pos_type: EXCLUDE and PRESERVE swapped", "C11", "R11a",
      (FUNC, """                if options.invalid_items == options.PRESERVE:
                    context.collect_waring(error.formatted_message)
                elif options.invalid_items == options.EXCLUDE:
                    context.collect_waring(error.formatted_message)
                    return unprovided""", """                if options.invalid_items == options.EXCLUDE:
                    context.collect_waring(error.formatted_message)
                elif options.invalid_items == options.PRESERVE:
                    context.collect_waring(error.formatted_message)
                    return unprovided""")),
    B("C11 parse_value: required test dropped under EXCLUDE", "C11", "R11b",
      (FIELD, """                    if self.is_required(context.options):
                        # required field cannot be excluded
                        context.handle_error(error)
                    else:
                        context.collect_waring(error.formatted_message)""", """                    context.collect_waring(error.formatted_message)""")),
    B("C11 seq: PRESERVE appends nothing", "C11", "R11a",
      (RULE, """                    if options.invalid_items == options.PRESERVE:
                        context.collect_waring(error.formatted_message)
                        result.append(item)
                        continue
                    context.handle_error(error)
        return result""", """                    if options.invalid_items == options.PRESERVE:
                        context.collect_waring(error.formatted_message)
                        continue
                    context.handle_error(error)
        return result""")),
    B("C11 map value handler consults invalid_keys", "C11", "R11a",
      (RULE, """                        if options.invalid_values == options.EXCLUDE:
                            context.collect_waring(error.formatted_message)
                            continue
                        elif options.invalid_values == options.PRESERVE:
                            context.collect_waring(error.formatted_message)
                            val = _val""", """                        if options.invalid_keys == options.EXCLUDE:
                            context.collect_waring(error.formatted_message)
                            continue
                        elif options.invalid_keys == options.PRESERVE:
                            context.collect_waring(error.formatted_message)
                            val = _val""")),
    B("C11 parse_addition: EXCLUDE keeps the raw value", "C11", "R11a",
      (BASE, """                if options.invalid_values == options.EXCLUDE:
                    context.collect_waring(error.formatted_message)
                    return unprovided
                elif options.invalid_values == options.PRESERVE:""", """                if options.invalid_values == options.EXCLUDE:
                    context.collect_waring(error.formatted_message)
                elif options.invalid_values == options.PRESERVE:""")),
    B("C11 seq: EXCLUDE keeps a placeholder", "C11", "R11a",
      (RULE, """                    if options.invalid_items == options.EXCLUDE:
                        context.collect_waring(error.formatted_message)
                        continue
                    if options.invalid_items == options.PRESERVE:
                        context.collect_waring(error.formatted_message)
                        result.append(item)""", """                    if options.invalid_items == options.EXCLUDE:
                        context.collect_waring(error.formatted_message)
                        result.append(None)
                        continue
                    if options.invalid_items == options.PRESERVE:
                        context.collect_waring(error.formatted_message)
                        result.append(item)""")),
    B("C11 map key: PRESERVE keeps the str() of the key", "C11", "R11a",
      (RULE, """                    elif options.invalid_keys == options.PRESERVE:
                        key = _key""", """                    elif options.invalid_keys == options.PRESERVE:
                        key = str(_key)""")),
    B("C11 output value: PRESERVE returns the sentinel", "C11", "R11a",
      (FIELD, """            elif error_option == context.options.PRESERVE:
                context.collect_waring(error.formatted_message)
                return value
            else:
                context.handle_error(error)
            return unprovided

    def parse_value""", """            elif error_option == context.options.PRESERVE:
                context.collect_waring(error.formatted_message)
            else:
                context.handle_error(error)
            return unprovided

    def parse_value""")),
    # ------------------------------------------------------------------ C05
    B("C05 get_default returns the shared default", "C05", "R05a",
      (FIELD, "        return copy_value(default)\n\n    def get_on_error", "        return default\n\n    def get_on_error")),
    B("C05 copy_value shallow for dict values", "C05", "R05a",
      ("utype/utils/functional.py", "        return {k: copy_value(v) for k, v in data.items()}", "        return dict(data)")),
    B("C05 field-first skips the no-input gate for aliased fields", "C05", "R05b",
      (BASE, """            if field.is_no_input(value, options=options):
                # no input field does not take input from __init__
                # but can still apply default
                default = field.get_default(options, defer=False)
                if not unprovided(default):
                    result[name] = default
                elif field.is_required(options=options):
                    # the value is not taken as input and there is no default: a required field is absent
                    # (as the data-first strategy reports it)
                    unprovided_fields.add(name)
                    context.handle_error(exc.AbsenceError(item=name))
                continue

            if not options.ignore_alias_conflicts and not unprovided(conflict):""", """            if not field.aliases and field.is_no_input(value, options=options):
                # no input field does not take input from __init__
                # but can still apply default
                default = field.get_default(options, defer=False)
                if not unprovided(default):
                    result[name] = default
                elif field.is_required(options=options):
                    unprovided_fields.add(name)
                    context.handle_error(exc.AbsenceError(item=name))
                continue

            if not options.ignore_alias_conflicts and not unprovided(conflict):""")),
    B("C05 parse_addition tests falsy before False", "C05", "R05d",
      (BASE, """        if context.options.addition is False:
            context.handle_error(exc.ExceedError(item=key, value=value))
            return unprovided
        if not context.options.addition:
            # None
            return unprovided""", """        if not context.options.addition:
            # None
            return unprovided
        if context.options.addition is False:
            context.handle_error(exc.ExceedError(item=key, value=value))
            return unprovided""")),
    B("C05 is_required ignores ignore_required for mode strings", "C05", "R05c",
      (FIELD, """        if options.ignore_required or not self.required:
            return False
        if self.always_no_input(options):""", """        if not self.required:
            return False
        if options.ignore_required and self.required is True:
            return False
        if self.always_no_input(options):""")),
    B("C05 no_default only honoured for declared defaults", "C05", "R05e",
      (FIELD, """        if options.no_default:
            return unprovided

        if isinstance(defer, bool):""", """        if options.no_default and unprovided(options.force_default) and not self.default_factory:
            return unprovided

        if isinstance(defer, bool):""")),
    B("C05 parse_params: absence error without is_required", "C05", "R05c",
      (FUNC, """            if field.is_required(options=context.options):
                context.handle_error(exc.AbsenceError(item=field.attname))
                continue
            default = field.get_default(context.options)""", """            if field.required:
                context.handle_error(exc.AbsenceError(item=field.attname))
                continue
            default = field.get_default(context.options)""")),
    B("C05 field setter keeps no_output values in the mapping", "C05", "R05e",
      (SCHEMA, """            if field.is_no_output(value, options=self.__options__):
                self.__dict__[field.attname] = value
                # no output
                if field.name in self:
                    super().__delitem__(field.name)
            else:
                super().__setitem__(field.name, value)""", """            if field.is_no_output(value, options=self.__options__):
                self.__dict__[field.attname] = value
                # no output
            super().__setitem__(field.name, value)""")),
    # ------------------------------------------------------------------ C08
    B("C08 revert F13: async wrapper drops asend result", "C08", "R08d",
      (FUNC, """                if sent is not None:
                    item = await generator.asend(sent)
                else:
                    item = await generator.__anext__()""", """                if sent is not None:
                    await generator.asend(sent)
                item = await generator.__anext__()""")),
    B("C08 eager_generator without resolve_forward_refs", "C08", "R08a",
      (FUNC, """        def eager_generator(*args, **kwargs) -> Generator:
            context = (options or self.options).make_context()
            self.resolve_forward_refs()""", """        def eager_generator(*args, **kwargs) -> Generator:
            context = (options or self.options).make_context()""")),
    B("C08 sync_from_generator sends the unconverted value", "C08", "R08c",
      (FUNC, """                        try:
                            sent = context.transformer(sent, self.generator_send_type)
                        except Exception as e:
                            error = exc.ParseError(
                                item=f"<generator.send[{i}]>",""", """                        try:
                            context.transformer(sent, self.generator_send_type)
                        except Exception as e:
                            error = exc.ParseError(
                                item=f"<generator.send[{i}]>",""")),
    B("C08 sync generator yields the raw item for falsy items", "C08", "R08c",
      (FUNC, """                if self.generator_yield_type:
                    try:
                        item = context.transformer(item, self.generator_yield_type)
                    except Exception as e:
                        error = exc.ParseError(
                            item=f"<generator.yield[{i}]>",""", """                if self.generator_yield_type and item:
                    try:
                        item = context.transformer(item, self.generator_yield_type)
                    except Exception as e:
                        error = exc.ParseError(
                            item=f"<generator.yield[{i}]>",""")),
    B("C08 async call wrapper ignores first_reserve", "C08", "R08a",
      (FUNC, """        def eager_call(*args, **kwargs):
            context = (options or self.options).make_context()
            self.resolve_forward_refs()
            args, kwargs = self.get_params(
                args,
                kwargs,
                context=context,
                first_reserve=first_reserve,
                parse_params=parse_params,
            )""", """        def eager_call(*args, **kwargs):
            context = (options or self.options).make_context()
            self.resolve_forward_refs()
            args, kwargs = self.get_params(
                args,
                kwargs,
                context=context,
                parse_params=parse_params,
            )""")),
    B("C08 context created once per wrapper, not per call", "C08", "R08a",
      (FUNC, """            @wraps(self.obj)
            def f(*args, **kwargs):  # noqa
                # MAKE CONTEXT AT RUNTIME !
                context = options.make_context() if options else self.make_context()
                return self.sync_call(""", """            context = options.make_context() if options else self.make_context()

            @wraps(self.obj)
            def f(*args, **kwargs):  # noqa
                return self.sync_call(""")),
    B("C08 generator return value not converted", "C08", "R08c",
      (FUNC, """                try:
                    result = context.transformer(result, self.generator_return_type)
                except Exception as e:""", """                try:
                    context.transformer(result, self.generator_return_type)
                except Exception as e:""")),
    # ------------------------------------------------------------------ C17
    B("C17 BaseParser.__call__ without resolve_forward_refs", "C17", "R17a",
      (BASE, "        self.resolve_forward_refs(ignore_errors=False)\n        if not context:", "        if not context:")),
    B("C17 resolution only on first call flag", "C17", "R17a",
      (FUNC, """        self.resolve_forward_refs()
        args, kwargs = self.get_params(
            args,
            kwargs,
            context=context,
            first_reserve=first_reserve,
            parse_params=parse_params,
        )
        func = self.obj
        result = func(*args, **kwargs)""", """        if parse_params:
            self.resolve_forward_refs()
        args, kwargs = self.get_params(
            args,
            kwargs,
            context=context,
            first_reserve=first_reserve,
            parse_params=parse_params,
        )
        func = self.obj
        result = func(*args, **kwargs)""")),
    B("C17 late re-parse drops the constraints", "C17", "R17c",
      (BASE, """                            annotation=value,
                            constraints=constraints,
                            global_vars=self.globals,""", """                            annotation=value,
                            global_vars=self.globals,""")),
    B("C17 fields not re-resolved", "C17", "R17b",
      (BASE, """        if resolved:
            for field in self.fields.values():
                field.resolve_forward_refs()
            # resolve for types""", """        if resolved:
            # resolve for types""")),
    B("C17 output type not re-resolved", "C17", "R17b",
      (FIELD, """        if self.output_type:
            self.output_type, r = resolve_forward_type(self.output_type)

    @property
    def always_provided""", """    @property
    def always_provided""")),
    B("C17 local reset before the fields re-resolve", "C17", "R17e",
      (BASE, """        if resolved:
            for field in self.fields.values():
                field.resolve_forward_refs()
            # resolve for types
            self.resolve_forward_types()
        if self.is_local:
            # ForwardRef in local vars is not cachable
            # where typing is using a lru_cache
            # we should clear
            for ref in clear_refs:
                ref.__forward_evaluated__ = False
                ref.__forward_value__ = None""", """        if self.is_local:
            # ForwardRef in local vars is not cachable
            # where typing is using a lru_cache
            # we should clear
            for ref in clear_refs:
                ref.__forward_evaluated__ = False
                ref.__forward_value__ = None
        if resolved:
            for field in self.fields.values():
                field.resolve_forward_refs()
            # resolve for types
            self.resolve_forward_types()""")),
    B("C17 apply() dispatches on the reference object", "C17", "R17d",
      (TRANS, """        if isinstance(t, ForwardRef):
            if not t.__forward_evaluated__:
                raise TypeError(f"ForwardRef: {t} not evaluated")
            t = t.__forward_value__
        return func(self, data, t)""", """        return func(self, data, t)""")),
    B("C17 return type not re-resolved for functions", "C17", "R17b",
      (FUNC, """        if self.return_type:
            self.return_type, r = resolve_forward_type(self.return_type)""", """        pass""")),
    # ------------------------------------------------------------------ benign
    G("benign gt: not value > gt", (RULE, "        if value <= gt:\n            raise ValueError\n        return value",
                                    "        if not value > gt:\n            raise ValueError\n        return value")),
    G("benign ge: early return form", (RULE, "        if value < ge:\n            raise ValueError\n        return value",
                                       "        if value >= ge:\n            return value\n        raise ValueError")),
    G("benign lt: bound on the left", (RULE, "        if value >= lt:\n            raise ValueError", "        if lt <= value:\n            raise ValueError")),
    G("benign rename local in _parse_seq_args",
      (RULE, """        for i, item in enumerate(value):
            with context.enter(route=i) as arg_context:
                try:
                    result.append(
                        arg_context.transformer.apply(
                            item, arg_type, func=arg_transformer
                        )
                    )""", """        for i, item in enumerate(value):
            with context.enter(route=i) as sub_ctx:
                try:
                    result.append(
                        sub_ctx.transformer.apply(
                            item, arg_type, func=arg_transformer
                        )
                    )""")),
    G("benign hoist transformer alias in parse_addition",
      (BASE, """            try:
                value = new_context.transformer(value, addition_type)
            except Exception as e:""", """            trans = new_context.transformer
            try:
                value = trans(value, addition_type)
            except Exception as e:""")),
    G("benign logging call in handle_error",
      (OPT, "        self.errors.append(e)\n        if force_raise", "        self.errors.append(e)\n        _ = repr(e)\n        if force_raise")),
    G("benign registry: cache reassigned instead of cleared",
      (UBASE, "            self._cache.clear()\n", "            self._cache = {}\n")),
    G("benign registry: sort with reverse=True",
      (UBASE, "self._registry.sort(key=lambda v: -v[2])", "self._registry.sort(key=lambda v: v[2], reverse=True)")),
    G("benign schema copy via .copy()",
      (SCHEMA, "obj.__dict__ = dict(self.__dict__)", "obj.__dict__ = self.__dict__.copy()")),
    G("benign route test spelled the other way",
      (OPT, "        if route is not None:\n            self.routes.append(route)\n        else:\n            self.depth += 1",
       "        if route is None:\n            self.depth += 1\n        else:\n            self.routes.append(route)")),
    G("benign & branch uses explicit flush",
      (RULE, """                    )
                    break

        elif cls.combinator == "|":""", """                    )
                    break
            context.raise_error()
            return value

        elif cls.combinator == "|":""")),
    G("benign finiteness guard via isinf",
      (TRANS, """            if not math.isfinite(data):
                raise TypeError(f'invalid timestamp: {repr(data)}')
            while abs(data)""", """            if math.isinf(data) or math.isnan(data):
                raise TypeError(f'invalid timestamp: {repr(data)}')
            while abs(data)""")),
    G("benign data-first: elif chain to early continue",
      (BASE, """            parsed = field.parse_value(value, context=context)
            if unprovided(parsed):
                continue

            result[name] = parsed

            if field.dependencies:""", """            parsed = field.parse_value(value, context=context)
            if not unprovided(parsed):
                result[name] = parsed
            else:
                continue

            if field.dependencies:""")),
    # ------------------------------------------------------------------ benign variants for C12-C15, C19, C20
    G("benign C13: addition policy local renamed",
      (GEN, """        addition = options.addition
        if addition is not None:
            if isinstance(addition, type):
                data.update(additionalProperties=self.generate_for_type(addition))
            else:
                data.update(additionalProperties=addition)

        annotations = parser.schema_annotations""", """        policy = options.addition
        if policy is not None:
            if isinstance(policy, type):
                data.update(additionalProperties=self.generate_for_type(policy))
            else:
                data.update(additionalProperties=policy)

        annotations = parser.schema_annotations""")),
    G("benign C13: field view test spelled the other way",
      (GEN, """        if self.output:
            if f.always_no_output(options or self.options):
                return None
        else:
            if f.always_no_input(options or self.options):
                return None""", """        if not self.output:
            if f.always_no_input(options or self.options):
                return None
        else:
            if f.always_no_output(options or self.options):
                return None""")),
    G("benign C13: decimal published through an f-string",
      (ENC, """        if js_unsafe(data):
            return str(data)""", """        if js_unsafe(data):
            return f"{data}\"""")),
    G("benign C13: is_no_input early returns reordered",
      (FIELD, """        if no_input is True:
            return True

        if self.mode:
            return options.mode not in self.mode

        return bool(no_input)

    def always_no_input""", """        if no_input is True:
            return True

        if not self.mode:
            return bool(no_input)
        return options.mode not in self.mode

    def always_no_input""")),
    G("benign C14: set encoder as a comprehension",
      (ENC, """def from_set(data):
    return list(data)""", """def from_set(data):
    return [item for item in data]""")),
    G("benign C14: duration sign applied on the right",
      (TRANS, "kw_ = {k: sign * float(v) for k, v in kw.items() if v is not None}",
       "kw_ = {k: float(v) * sign for k, v in kw.items() if v is not None}")),
    G("benign C14: offset regex with the signs the other way round",
      (TRANS, r"""offset = re.search(r'( ?)[+-]\d{2}:?\d{2}(:\d{2})?$', str(data))""",
       r"""offset = re.search(r'( ?)[-+]\d{2}:?\d{2}(:\d{2})?$', str(data))""")),
    G("benign C15: const local renamed",
      (JPARSER, """        const = schema.get('const', unprovided)""", """        const_value = schema.get('const', unprovided)"""),
      (JPARSER, """        value = const if not unprovided(const) else enum[0] if enum else unprovided""",
       """        value = const_value if not unprovided(const_value) else enum[0] if enum else unprovided""")),
    G("benign C15: excludes built in a local first",
      (JPARSER, """                attname = self.get_attname(attname, excludes=list(attrs) + list(properties) + dir(self.object_base_cls))""",
       """                taken = list(attrs) + list(properties) + dir(self.object_base_cls)
                attname = self.get_attname(attname, excludes=taken)""")),
    G("benign C12: operands of the collapse guard swapped",
      (TRANS, "            if self.no_data_loss and len(value) > 1:", "            if len(value) > 1 and self.no_data_loss:")),
    G("benign C12: to_bool raises with a message",
      (TRANS, """            return False
        if self.no_explicit_cast:
            raise TypeError
        if isinstance(data, bytes):""", """            return False
        if self.no_explicit_cast:
            raise TypeError('explicit cast is not allowed')
        if isinstance(data, bytes):""")),
    G("benign C12: addition guard spelled with the sentinel first",
      (OPT, "            if addition is None or unprovided(addition):", "            if unprovided(addition) or addition is None:")),
    G("benign C19: converter builds its result in a local list",
      (TRANS, """                for sep in self.ARRAY_SEPARATORS:
                    if sep in data:
                        return t(v.strip() for v in data.split(sep))""", """                for sep in self.ARRAY_SEPARATORS:
                    if sep in data:
                        parts = []
                        for v in data.split(sep):
                            parts.append(v.strip())
                        return t(parts)""")),
    G("benign C20: done list renamed",
      (BASE, """            done = []
            try:
                return self._resolve_forward_refs(done, local_vars=local_vars, ignore_errors=ignore_errors)
            finally:
                # the pending entries go last: callers that see none pending skip the lock,
                # so every resolved type has to be in place by then
                for name in done:
                    self.forward_refs.pop(name, None)""", """            finished = []
            try:
                return self._resolve_forward_refs(finished, local_vars=local_vars, ignore_errors=ignore_errors)
            finally:
                for key in finished:
                    self.forward_refs.pop(key, None)""")),
    G("benign C20: memo hit variable renamed, truthiness test",
      (UBASE, """            cached = self._cache.get(t)
            if cached is not None:
                return cached""", """            hit = self._cache.get(t)
            if hit:
                return hit""")),
    G("benign C20: registration region also logs",
      (UBASE, """            with self._lock:
                self._registry.insert(0, (detector, f, priority))""", """            with self._lock:
                _ = len(self._registry)
                self._registry.insert(0, (detector, f, priority))""")),
    # ------------------------------------------------------------------ breaking variants of my own for the new rules
    B("C13 ge published as exclusiveMinimum", "C13", "R13a",
      (JCONST, "        'ge': 'minimum',", "        'ge': 'exclusiveMinimum',")),
    B("C13 input view decided by the output predicate", "C13", "R13b",
      (GEN, """        else:
            if f.always_no_input(options or self.options):
                return None""", """        else:
            if f.always_no_output(options or self.options):
                return None""")),
    B("C13 required decided by the declaration flag", "C13", "R13c",
      (GEN, "            if field.is_required(options or self.options):\n                # will count", "            if field.required:\n                # will count")),
    B("C13 additionalProperties published without a policy", "C13", "R13d",
      (GEN, """        if addition is not None:
            if isinstance(addition, type):
                data.update(additionalProperties=self.generate_for_type(addition))""", """        if True:
            if isinstance(addition, type):
                data.update(additionalProperties=self.generate_for_type(addition))""")),
    B("C13 fixed tuples published as items", "C13", "R13f",
      (GEN, "                name = 'prefixItems'\n                return {name: args_res}", "                name = 'items'\n                return {name: args_res}")),
    B("C14 time encoder returns the object", "C14", "R14b",
      (ENC, """    r = data.isoformat()
    if data.microsecond:
        r = r[:12]
    return r""", """    return data""")),
    B("C14 timedelta converter registration removed", "C14", "R14a",
      (TRANS, "    @registry.register(timedelta)\n    def to_timedelta", "    def to_timedelta")),
    B("C14 decimal rebuilt from the float", "C14", "R14f",
      (TRANS, "        return t(str(data).strip())  # noqa", "        return t(data)  # noqa")),
    B("C14 bytes published as latin-1", "C14", "R14f",
      (ENC, '    return data.decode("utf-8", errors="replace")\n\n\n@register_encoder(PurePath', '    return data.decode("latin-1", errors="replace")\n\n\n@register_encoder(PurePath')),
    B("C15 exclusiveMaximum mapped to le", "C15", "R15a",
      (JCONST, "    'exclusiveMaximum': 'lt',", "    'exclusiveMaximum': 'le',")),
    B("C15 minItems mapped to max_length", "C15", "R15a",
      (JCONST, "    'minItems': 'min_length',", "    'minItems': 'max_length',")),
    B("C15 integer built as float", "C15", "R15b",
      (JCONST, "    'integer': int,", "    'integer': float,")),
    B("C15 revert F16: shadowed builtin called", "C15", "R15c",
      (JPARSER, "            t = _type(value)", "            t = type(value)")),
    B("C15 $ref followed while translating", "C15", "R15d",
      (JPARSER, """        if ref:
            return ForwardRef(self.get_def_name(ref))""", """        if ref:
            target = self.get_ref_object(ref)
            if target:
                return self.parse_type(target)
            return ForwardRef(self.get_def_name(ref))""")),
    B("C15 revert F25: sanitiser not told about base attributes", "C15", "R15e",
      (JPARSER, "excludes=list(attrs) + list(properties) + dir(self.object_base_cls))", "excludes=list(attrs) + list(properties))")),
    B("C15 prefixItems iterated without a guard", "C15", "R15f",
      (JPARSER, """        if prefix_items:
            origin = tuple
            args = [self.parse_type(item) for item in prefix_items]
""", """        args = [self.parse_type(item) for item in prefix_items]
        if prefix_items:
            origin = tuple
""")),
    B("C12 to_bool: explicit-cast gate deleted", "C12", "R12c",
      (TRANS, """            return False
        if self.no_explicit_cast:
            raise TypeError
        if isinstance(data, bytes):""", """            return False
        if isinstance(data, bytes):""")),
    B("C12 revert F31: addition guard misses the default", "C12", "R12b",
      (OPT, "            if addition is None or unprovided(addition):", "            if addition is None:")),
    B("C12 lenient decoding under no_data_loss", "C12", "R12c",
      (TRANS, 'return data.decode(errors="strict" if self.no_data_loss else "ignore")', 'return data.decode(errors="ignore")')),
    B("C12 to_filelike never reads no_explicit_cast", "C12", "R12a",
      (TRANS, """            return t(data)
        if self.no_explicit_cast:
            raise TypeError
        return t(str(data).encode())

    @registry.register(type""", """            return t(data)
        return t(str(data).encode())

    @registry.register(type""")),
    B("C19 data-first pops the consumed keys from the input", "C19", "R19b",
      (BASE, """            provided[name] = value
            parsed = field.parse_value(value, context=context)""", """            provided[name] = data.pop(key, value)
            parsed = field.parse_value(value, context=context)""")),
    B("C19 parser remembers the last result", "C19", "R19c",
      (BASE, """        result = self.parse_data(data, context=context)
        context.raise_error()""", """        result = self.parse_data(data, context=context)
        self.last_result = result
        context.raise_error()""")),
    B("C19 context kept on the parser", "C19", "R19d",
      (BASE, """        if not context:
            context = self.options.make_context(self.cls)
        result = self.parse_data""", """        if not context:
            context = self.options.make_context(self.cls)
        self.context = context
        result = self.parse_data""")),
    B("C20 forward-ref lock removed", "C20", "R20a",
      (BASE, """        with forward_refs_lock:
            # a concurrent caller that waited here finds nothing pending any more
            done = []""", """        if True:
            # a concurrent caller that waited here finds nothing pending any more
            done = []""")),
    B("C20 pending entries dropped before the types are in place", "C20", "R20b",
      (BASE, "                    done.append(name)\n", "                    done.append(name)\n                    self.forward_refs.pop(name, None)\n")),
    B("C20 memo filled outside the lock", "C20", "R20c",
      (UBASE, """        with self._lock:
            # a fill must not straddle a registration: it would memoise the outdated answer after the reset
            for detector""", """        if True:
            # a fill must not straddle a registration: it would memoise the outdated answer after the reset
            for detector""")),
    B("C20 memo read by membership then subscript", "C20", "R20c",
      (UBASE, """            cached = self._cache.get(t)
            if cached is not None:
                return cached""", """            if t in self._cache:
                return self._cache[t]""")),
    # ------------------------------------------------------------------ benign: renamed locals / hoisted attributes (robustness of the newer rules)
    G("benign C14: utc flag renamed",
      (TRANS, """        is_utc = "GMT" in data""", """        utc = "GMT" in data"""),
      (TRANS, """                val = t.strptime(data, f)
                if is_utc:
                    val = val.replace(tzinfo=timezone.utc)""", """                val = t.strptime(data, f)
                if utc:
                    val = val.replace(tzinfo=timezone.utc)"""),
      (TRANS, """                    val = t.strptime(data, f + (' %z' if offset.group(1) else '%z'))
                    if is_utc:""", """                    val = t.strptime(data, f + (' %z' if offset.group(1) else '%z'))
                    if utc:""")),
    G("benign C13: required list renamed",
      (GEN, """        required = []
        properties = {}
        dependent_required = {}
        options = parser.options""", """        required_names = []
        properties = {}
        dependent_required = {}
        options = parser.options"""),
      (GEN, """                # will count options.ignore_required in
                required.append(name)
            elif self.output:
                if not options.no_default and not field.no_default \\
                        and not (field.defer_default or options.defer_default):
                    # if field has default, the value is required in the output data
                    # (a deferred default is not applied until the attribute is read)
                    required.append(name)

        data.update(properties=properties)
        if required:
            data.update(required=required)""", """                # will count options.ignore_required in
                required_names.append(name)
            elif self.output:
                if not options.no_default and not field.no_default \\
                        and not (field.defer_default or options.defer_default):
                    # if field has default, the value is required in the output data
                    # (a deferred default is not applied until the attribute is read)
                    required_names.append(name)

        data.update(properties=properties)
        if required_names:
            data.update(required=required_names)""")),
    G("benign C15: class namespace dict renamed",
      (JPARSER, """        attrs = {}
        annotations = {}
        options = self.object_options_cls(""", """        namespace = {}
        annotations = {}
        options = self.object_options_cls("""),
      (JPARSER, """            if not valid_attr(attname) or attname.startswith('_') or attname in attrs \\
                    or hasattr(self.object_base_cls, attname):
                attname = self.get_attname(attname, excludes=list(attrs) + list(properties) + dir(self.object_base_cls))""",
       """            if not valid_attr(attname) or attname.startswith('_') or attname in namespace \\
                    or hasattr(self.object_base_cls, attname):
                attname = self.get_attname(attname, excludes=list(namespace) + list(properties) + dir(self.object_base_cls))"""),
      (JPARSER, """            annotations[attname] = field_type
            attrs[attname] = field""", """            annotations[attname] = field_type
            namespace[attname] = field"""),
      (JPARSER, """        attrs.update(
            __annotations__=annotations,
            __options__=options
        )
        if description:
            attrs.update(__doc__=description)
        new_cls = self.object_meta_cls(name, (self.object_base_cls,), attrs)""", """        namespace.update(
            __annotations__=annotations,
            __options__=options
        )
        if description:
            namespace.update(__doc__=description)
        new_cls = self.object_meta_cls(name, (self.object_base_cls,), namespace)""")),
    G("benign C16/C20: registry list hoisted into a local in resolve",
      (UBASE, """            for detector, trans, priority in self._registry:
                try:
                    if detector(t):
                        if self.cache:""", """            entries = self._registry
            for detector, trans, priority in entries:
                try:
                    if detector(t):
                        if self.cache:""")),
    G("benign C12: transformer flag read through a local",
      (TRANS, """    def _from_byte_like(self, data):
        if isinstance(data, (bytes, bytearray, memoryview)):
            if isinstance(data, memoryview):
                data = bytes(data)
            return data.decode(errors="strict" if self.no_data_loss else "ignore")""", """    def _from_byte_like(self, data):
        if isinstance(data, (bytes, bytearray, memoryview)):
            if isinstance(data, memoryview):
                data = bytes(data)
            strict = self.no_data_loss
            return data.decode(errors="strict" if strict else "ignore")""")),
    G("benign C19/C20: forward-ref worker renamed",
      (BASE, "                return self._resolve_forward_refs(done, local_vars=local_vars, ignore_errors=ignore_errors)",
       "                return self._do_resolve(done, local_vars=local_vars, ignore_errors=ignore_errors)"),
      (BASE, "    def _resolve_forward_refs(self, done: list, local_vars=None, ignore_errors: bool = True):",
       "    def _do_resolve(self, done: list, local_vars=None, ignore_errors: bool = True):")),
    G("benign C18: stage options built through a helper variable",
      (RULE, """                strict_options = utype.Options(no_data_loss=True, no_explicit_cast=True)

                for con in cls.args:
                    with context.enter(cls.combinator, options=strict_options) as new_context:""", """                stage = utype.Options(no_data_loss=True, no_explicit_cast=True)

                for con in cls.args:
                    with context.enter(cls.combinator, options=stage) as new_context:""")),
    G("benign C06: used-alias set renamed",
      (BASE, "        used_alias = set()", "        consumed = set()"),
      (BASE, "            used_alias.update(field.all_aliases)", "            consumed.update(field.all_aliases)"),
      (BASE, "                if k in used_alias:\n                    continue", "                if k in consumed:\n                    continue")),
    G("benign C05: get_default called with a keyword for options",
      (BASE, """            unprovided_fields.add(name)
            if field.is_required(options=options):
                context.handle_error(exc.AbsenceError(item=name))
                continue
            default = field.get_default(options, defer=False)
            if not unprovided(default):
                result[name] = default

        if dependencies:""", """            unprovided_fields.add(name)
            if field.is_required(options=options):
                context.handle_error(exc.AbsenceError(item=name))
                continue
            default = field.get_default(options=options, defer=False)
            if not unprovided(default):
                result[name] = default

        if dependencies:""")),
    G("benign C11: child context variable renamed in parse_output_value",
      (FIELD, """            with context.enter(self.name) as new_context:
                # errors recorded by the output type's own parsing stay in the child context
                return new_context.transformer(value, type)  # noqa""", """            with context.enter(self.name) as child:
                # errors recorded by the output type's own parsing stay in the child context
                return child.transformer(value, type)  # noqa""")),
    G("benign C04: error message built in two steps",
      (EXC, """        msg = f"parse item: [{repr(self.item)}] exceeded"
        if self.msg:""", """        label = repr(self.item)
        msg = f"parse item: [{label}] exceeded"
        if self.msg:""")),
    # ------------------------------------------------------------------ benign: refactors of the core parse code (older rules)
    G("benign handle_error: nested ifs instead of one condition",
      (OPT, """        self.errors.append(e)
        if force_raise or self.force_error or not self.options.collect_errors:
            raise e
""", """        self.errors.append(e)
        if force_raise or self.force_error:
            raise e
        if not self.options.collect_errors:
            raise e
""")),
    G("benign max_length: negated comparison",
      (RULE, """            v = str(value)
        if len(v) > m:
            raise ValueError
        return value""", """            v = str(value)
        if not len(v) <= m:
            raise ValueError
        return value""")),
    G("benign _parse_map_args: result and loop variables renamed",
      (RULE, """        result = {}
        if not cls.__args__:
            return value

        key_type = cls.__args__[0]""", """        parsed_map = {}
        if not cls.__args__:
            return value

        key_type = cls.__args__[0]"""),
      (RULE, """            else:
                val = _val
            result[key] = val
        return result

    @classmethod
    def _parse_type_arg""", """            else:
                val = _val
            parsed_map[key] = val
        return parsed_map

    @classmethod
    def _parse_type_arg""")),
    G("benign depth accounting: branches swapped",
      (OPT, """        if route is not None:
            self.routes.append(route)
        else:
            self.depth += 1
""", """        if route is None:
            self.depth += 1
        else:
            self.routes.append(route)
""")),
    G("benign parse_output_value: error option computed before the try",
      (FIELD, """            # todo: apply and distinct input field / output field
            error_option = (
                self.output_field.on_error if self.output_field else None
            ) or context.options.invalid_values
            if error_option == context.options.EXCLUDE:""", """            # todo: apply and distinct input field / output field
            on_error = self.output_field.on_error if self.output_field else None
            error_option = on_error or context.options.invalid_values
            if error_option == context.options.EXCLUDE:""")),
    G("benign copy_value: dict case first",
      (FUNCTIONAL, """    if multi(data):
        return type(data)([copy_value(d) for d in data])
    elif isinstance(data, dict):
        return {k: copy_value(v) for k, v in data.items()}
    return data""", """    if isinstance(data, dict):
        return {k: copy_value(v) for k, v in data.items()}
    if multi(data):
        return type(data)([copy_value(d) for d in data])
    return data""")),
    G("benign parse_addition: options hoisted, early returns kept",
      (BASE, """        if key in self.exclude_vars:
            # excluded vars cannot be carry in addition even if allowed
            return unprovided
        if context.options.addition is False:
            context.handle_error(exc.ExceedError(item=key, value=value))
            return unprovided
        if not context.options.addition:
            # None
            return unprovided""", """        opts = context.options
        if key in self.exclude_vars:
            # excluded vars cannot be carry in addition even if allowed
            return unprovided
        if opts.addition is False:
            context.handle_error(exc.ExceedError(item=key, value=value))
            return unprovided
        if not opts.addition:
            # None
            return unprovided""")),
    G("benign data-first: provided map renamed",
      (BASE, "        provided = {}   # the raw input taken for each field, to compare aliases like with like", "        raw_taken = {}   # the raw input taken for each field, to compare aliases like with like"),
      (BASE, """                if name in provided:  # or (excluded_keys and name in excluded_keys):
                    if provided[name] != value:""", """                if name in raw_taken:  # or (excluded_keys and name in excluded_keys):
                    if raw_taken[name] != value:"""),
      (BASE, "            provided[name] = value\n", "            raw_taken[name] = value\n"),
      (BASE, "            if name in result or name in provided:", "            if name in result or name in raw_taken:")),
    G("benign to_integer: no_data_loss checks merged",
      (TRANS, """        if self.no_data_loss:
            if not data.is_finite():
                raise TypeError
            if data.as_tuple().exponent:
                raise TypeError

        if self.MAX_INT_DIGITS""", """        if self.no_data_loss and (not data.is_finite() or data.as_tuple().exponent):
            raise TypeError

        if self.MAX_INT_DIGITS""")),
    G("benign Schema.copy: explicit dict() of the storage",
      (SCHEMA, "        obj.__dict__ = dict(self.__dict__)", "        obj.__dict__ = {**self.__dict__}")),
    B("C04 revert F36: contains iterates the input outside a try", "C04", "R04h",
      (RULE, """        try:
            items = list(value)
        except TypeError as e:
            # a rule without origin can receive anything: a value that cannot be iterated contains nothing
            context.handle_error(
                exc.ConstraintError(
                    origin_exc=e, constraint="contains", constraint_value=cls.contains
                )
            )
            return value
        for i, item in enumerate(items):""", """        for i, item in enumerate(value):""")),
    B("C07 revert F37: deleter tests the key name, pops the attribute name", "C07", "R07i",
      (SCHEMA, """        if field.attname in self.__dict__:
            self.__dict__.pop(field.attname)

    def __delitem__""", """        if field.name in self.__dict__:
            self.__dict__.pop(field.attname)

    def __delitem__""")),
    B("C07 pop leaves the attribute behind", "C07", "R07i",
      (SCHEMA, """        # keep the attribute view in step with the key view
        self.__dict__.pop(field.attname, None)
        return value""", """        return value""")),
    B("C13 revert F39: dependentRequired holds the set", "C13", "R13c",
      (GEN, "dependent_required[name] = sorted(field.dependencies)", "dependent_required[name] = field.dependencies")),
    B("C11 revert F32: output value converted on the caller's context", "C11", "R11c",
      (FIELD, """            with context.enter(self.name) as new_context:
                # errors recorded by the output type's own parsing stay in the child context
                return new_context.transformer(value, type)  # noqa""", """            return context.transformer(value, type)  # noqa""")),
    B("C10 max_errors normalised unconditionally", "C10", "R10f",
      (OPT, """                )
                max_errors = None
""", """                )
            max_errors = None
""")),
    B("C09 negation memoised on the class", "C09", "R09f",
      (RULE, """        return cls.combine("~", cls)

    # def __getitem__""", """        negated = getattr(cls, "__negated__", None)
        if negated is None:
            negated = cls.__negated__ = cls.combine("~", cls)
        return negated

    # def __getitem__""")),
    B("C02 lax mode leaks to later constraints", "C02", "R02e",
      (RULE, """        for key, val in constraints.items():
            mode = constraint_mode.get(key)
            if mode:""", """        mode = None
        for key, val in constraints.items():
            if key in constraint_mode:
                mode = constraint_mode[key]
            if mode:""")),
    B("C17 evaluate_forward_ref aliases localns to globalns", "C17", "R17g",
      (COMPAT, """    def evaluate_forward_ref(ref: ForwardRef, globalns: Any, localns: Any):
        return typing._eval_type(ref, globalns, localns)  # noqa""", """    def evaluate_forward_ref(ref: ForwardRef, globalns: Any, localns: Any):
        if localns is None:
            localns = globalns
        return typing._eval_type(ref, globalns, localns)  # noqa""")),
    B("C18 rule options applied through a chained route-less context", "C18", "R18g",
      (RULE, """        context = context or cls.context_cls(options=cls.__options__)
        options = context.options""", """        if context is None:
            context = cls.context_cls(options=cls.__options__)
        elif cls.__options__:
            context = (context.options & cls.__options__).make_context(context.cls, context=context)
        options = context.options""")),
    B("C06 revert F56: data-first drops a key naming an excluded field", "C06", "R06k",
      (BASE, """            if field and excluded_keys and (field.attname if as_attname else field.name) in excluded_keys:
                # an excluded field (a parameter already given by position) takes no input by name:
                # its key is handled like any other additional key (as in the field-first strategy)
                field = None
""", ""),
      (BASE, """            provided[name] = value
            parsed = field.parse_value(value, context=context)""", """            if excluded_keys and name in excluded_keys:
                continue

            provided[name] = value
            parsed = field.parse_value(value, context=context)""")),
    B("C06 revert F57: field-first omits a required field whose value is refused as input", "C06", "R06f",
      (BASE, """                elif field.is_required(options=options):
                    # the value is not taken as input and there is no default: a required field is absent
                    # (as the data-first strategy reports it)
                    unprovided_fields.add(name)
                    context.handle_error(exc.AbsenceError(item=name))
""", "")),
    G("benign comment and blank lines",
      (RULE, "        context.raise_error()  # raise error if collected\n        return value", "        # flush\n\n        context.raise_error()\n        return value")),
    # ---- round 8: helper tables ---------------------------------------------------------------------------------
    B("C19 multi() by exact type: subclass defaults shared", "C19", "R19f",
      (FUNCTIONAL, """    return isinstance(
        f, (list, set, frozenset, tuple, type({}.values()), type({}.keys()))
    )""", """    return type(f) in (list, set, frozenset, tuple, type({}.values()), type({}.keys()))""")),
    B("C12 multi() widened to abstract sequences", "C12", "R12f",
      (FUNCTIONAL, "from typing import Optional\n", "from typing import Optional\nfrom collections.abc import MutableSequence\n"),
      (FUNCTIONAL, "        f, (list, set, frozenset, tuple,", "        f, (MutableSequence, set, frozenset, tuple,")),
    B("C19 copy_value shallow for dict values", "C19", "R19f",
      (FUNCTIONAL, "        return {k: copy_value(v) for k, v in data.items()}", "        return dict(data)")),
    B("C17 is_local_var looks at the last scope only", "C17", "R17l",
      (FUNCTIONAL, "    return not name or LOCALS_NAME in name", "    return not name or name.rpartition('.')[0].endswith(LOCALS_NAME)")),
    B("C15 valid_attr narrowed to ASCII", "C15", "R15k",
      (FUNCTIONAL, "    return name.isidentifier() and not iskeyword(name)", "    return name.isascii() and name.isidentifier() and not iskeyword(name)")),
    B("C01 apply() drops falsy constraints", "C01", "R01g",
      ("utype/decorator.py", "        if v is not None\n    }", "        if v\n    }")),
    B("C16 re-registration removes the function's earlier entry", "C16", "R16h",
      (UBASE, "                self._registry.insert(0, (detector, f, priority))", "                self._registry[:] = [e for e in self._registry if e[1] is not f]\n                self._registry.insert(0, (detector, f, priority))")),
    B("C16 new entry appended instead of put in front", "C16", "R16h",
      (UBASE, "                self._registry.insert(0, (detector, f, priority))", "                self._registry.append((detector, f, priority))")),
    B("C08 dependency supplied by position not counted", "C08", "R06a",
      (BASE, """ALL:            dependant = set(result)
            if excluded_keys:
                dependant.update(excluded_keys)
""", """            dependant = set(result)
""")),
    G("benign multi(): constant tuple hoisted",
      (FUNCTIONAL, """def multi(f):
    return isinstance(
        f, (list, set, frozenset, tuple, type({}.values()), type({}.keys()))
    )""", """_MULTI = (list, set, frozenset, tuple, type({}.values()), type({}.keys()))


def multi(f):
    return isinstance(f, _MULTI)""")),
    G("benign copy_value: guard clauses and a loop",
      (FUNCTIONAL, """    if multi(data):
        return type(data)([copy_value(d) for d in data])
    elif isinstance(data, dict):
        return {k: copy_value(v) for k, v in data.items()}
    return data""", """    if not multi(data):
        if not isinstance(data, dict):
            return data
        out = {}
        for k, v in data.items():
            out[k] = copy_value(v)
        return out
    items = []
    for d in data:
        items.append(copy_value(d))
    return type(data)(items)""")),
    G("benign is_local_var: find() instead of in",
      (FUNCTIONAL, "    return not name or LOCALS_NAME in name", "    if not name:\n        return True\n    return name.find(LOCALS_NAME) >= 0")),
    G("benign register(): bisect placement",
      (UBASE, "                self._registry.insert(0, (detector, f, priority))\n                self._registry.sort(key=lambda v: -v[2])",
       "                import bisect\n                keys = [-e[2] for e in self._registry]\n                self._registry.insert(bisect.bisect_left(keys, -priority), (detector, f, priority))")),
    G("benign apply(): constraints filtered in a loop",
      ("utype/decorator.py", "        if v is not None\n    }", "    }\n    for _k in [k for k, v in constraints.items() if v is None]:\n        del constraints[_k]")),
]
