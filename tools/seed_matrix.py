#!/venv/bin/python
"""Prints the seeded-regression matrix (markdown) from /verif/seeded/*/meta.json."""
import glob, json, os
ROOT = os.path.dirname(os.path.dirname(os.path.abspath(__file__)))
rows = []
for m in sorted(glob.glob(os.path.join(ROOT, "seeded", "*", "meta.json"))):
    d = json.load(open(m))
    det = d.get("detected_by", {})
    own = det.get(d["property"], "")
    others = {k: v for k, v in det.items() if k != d["property"]}
    rows.append((d["id"], d["property"], own.replace("exit1:", "") if own.startswith("exit1") else ("-" if not own else own[:20]),
                 ", ".join(f"{k}:{v.replace('exit1:', '')}" for k, v in sorted(others.items()) if v.startswith("exit1")) or ""))
print("| seed | property | caught by its own check (rules) | also caught by |")
print("|------|----------|----------------------------------|----------------|")
for r in rows:
    print("| " + " | ".join(r) + " |")
n = len(rows)
own = sum(1 for r in rows if r[2] not in ("-",) and not r[2].startswith("exit2"))
anyc = sum(1 for r in rows if (r[2] != "-" and not r[2].startswith("exit2")) or r[3])
print(f"\n{n} confirmed seeds; {own} caught by the check of their own property; {anyc} caught by some check.")
