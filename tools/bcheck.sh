#!/bin/bash
# developer helper: apply one kept benign refactoring (or seed) in a scratch worktree and show what every check says
# usage: tools/bcheck.sh <dir under /verif, e.g. seeded_benign/r5g-C01-1> [PROP ...]
d=/verif/$1; shift
wt=/tmp/wt/bc_$(basename $d)
if [ ! -d $wt ]; then git -C /repo worktree add -q --detach $wt HEAD && git -C $wt apply $d/patch.diff || exit 1; fi
props="$@"; [ -z "$props" ] && props="C01 C02 C04 C05 C06 C07 C08 C09 C10 C11 C12 C13 C14 C15 C16 C17 C18 C19 C20"
for p in $props; do /venv/bin/python -m utverif check $p --no-evidence --repo $wt 2>&1 | grep "^\[R\|^ANALYSIS\|Traceback\|Error" | cut -c1-420 | sed "s/^/$p: /"; done
