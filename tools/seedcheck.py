#!/venv/bin/python
"""Evaluate seeded regressions against the registered checks (developer tool, never part of a check).

usage: tools/seedcheck.py <seed-root> [<id-filter>] [--tier quick|thorough] [--import] [--jobs N]

<seed-root> contains <PROP>/<k>/{patch.diff,demo.py,notes.md} (sub-agent output) or, for /verif/seeded itself,
<id>/{patch.diff,demo.py,meta.json}.  Each seed is evaluated in its own scratch git worktree of /repo's HEAD
(under /tmp, removed afterwards), so /repo itself is never modified and seeds run in parallel:
  demo on the clean worktree (must PASS) -> apply the patch -> demo (must FAIL) -> baseline tests (must pass)
  -> every claimed check with --repo <worktree> (records which exit 1 and with which rules).
--import copies every confirmed seed to /verif/seeded/<PROP>-<k>/ (patch regenerated against the current HEAD,
demo.py, notes.md, meta.json).
"""
import concurrent.futures as cf
import json
import os
import shutil
import subprocess
import sys
import tempfile

REPO = "/repo"
ROOT = os.path.dirname(os.path.dirname(os.path.abspath(__file__)))
PY = "/venv/bin/python"
SEEDED = os.path.join(ROOT, "seeded")
BENIGN = False      # --benign: the patches are behaviour-preserving refactorings: demo must PASS with the patch and
                    # every check must stay at exit 0; kept under /verif/seeded_benign/


def sh(cmd, cwd=None, timeout=900, env=None):
    try:
        r = subprocess.run(cmd, cwd=cwd, capture_output=True, text=True, timeout=timeout, env=env)
        return r.returncode, (r.stdout + r.stderr)
    except subprocess.TimeoutExpired:
        return 124, "TIMEOUT"


def claimed():
    man = json.load(open(os.path.join(ROOT, "MANIFEST.json")))
    return [c["property_id"] for c in man["checks"]]


def find_seeds(root):
    out = []
    for dp, dn, fn in os.walk(root):
        if "patch.diff" in fn:
            out.append(dp)
    return sorted(out)


PREFIX = ""


def seed_id(d, root):
    rel = os.path.relpath(d, root)
    return PREFIX + rel.replace(os.sep, "-")


def prop_of(d, root):
    mp = os.path.join(d, "meta.json")
    if os.path.exists(mp):
        return json.load(open(mp)).get("property")
    return os.path.relpath(d, root).split(os.sep)[0].split("-")[-1] if os.sep not in os.path.relpath(d, root) else os.path.relpath(d, root).split(os.sep)[0]


def evaluate(d, root, tier, props, do_import):
    sid = seed_id(d, root)
    row = {"seed": sid, "property": prop_of(d, root)}
    demo = os.path.join(d, "demo.py")
    patch = os.path.join(d, "patch.diff")
    wt = tempfile.mkdtemp(prefix=f"sc_{sid}_", dir="/tmp")
    os.rmdir(wt)
    rc, o = sh(["git", "-C", REPO, "worktree", "add", "-q", "--detach", wt, "HEAD"])
    if rc != 0:
        row["error"] = "worktree: " + o.strip()[:200]
        return row
    env = dict(os.environ, PYTHONPATH=wt, PYTHONDONTWRITEBYTECODE="1")
    try:
        rc, o = sh([PY, "-W", "ignore", demo], cwd=wt, env=env, timeout=300)
        row["demo_clean"] = "PASS" if rc == 0 else f"rc={rc}: {o.strip()[-200:]}"
        rc, o = sh(["git", "-C", wt, "apply", patch])
        if rc != 0:
            rc, o = sh(["git", "-C", wt, "apply", "--3way", patch])
            if rc != 0:
                row["apply"] = "FAILED: " + o.strip()[:200]
                return row
            row["apply"] = "3way"
            sh(["git", "-C", wt, "reset", "-q"])
        rc, o = sh([PY, "-W", "ignore", demo], cwd=wt, env=env, timeout=300)
        row["demo_patched"] = "FAIL" if rc != 0 else "still-PASS"
        if BENIGN:
            row["demo_patched"] = "PASS" if rc == 0 else f"FAIL rc={rc}: {o.strip()[-200:]}"
        row["demo_output"] = o.strip()[-300:]
        rc, o = sh([PY, "-m", "pytest", "-q", "-p", "no:cacheprovider", "-x"], cwd=wt, env=env)
        row["tests"] = o.strip().splitlines()[-1][:60] if o.strip() else "?"
        hits = {}
        for p in props:
            rc, o = sh([PY, "-m", "utverif", "check", p, "--tier", tier, "--no-evidence", "--repo", wt], cwd=ROOT)
            if rc != 0:
                rules = sorted({l.split("]")[0][1:] for l in o.splitlines() if l.startswith("[R")})
                hits[p] = (f"exit{rc}:" + ",".join(rules)) if rc == 1 else "exit2:" + " ".join(
                    l for l in o.splitlines() if l.startswith("ANALYSIS"))[:160]
        row["detected_by"] = hits
        confirmed = row["demo_clean"] == "PASS" and row["demo_patched"] == ("PASS" if BENIGN else "FAIL") \
            and "115 passed" in row["tests"]
        row["confirmed"] = confirmed
        if do_import and confirmed:
            dest = os.path.join(SEEDED + ("_benign" if BENIGN else ""), sid)
            os.makedirs(dest, exist_ok=True)
            rc, diff = sh(["git", "-C", wt, "diff"])
            with open(os.path.join(dest, "patch.diff"), "w") as f:
                f.write(diff)
            if os.path.abspath(demo) != os.path.abspath(os.path.join(dest, "demo.py")):
                shutil.copy(demo, os.path.join(dest, "demo.py"))
            notes = ""
            if os.path.exists(os.path.join(d, "notes.md")):
                if os.path.abspath(d) != os.path.abspath(dest):
                    shutil.copy(os.path.join(d, "notes.md"), os.path.join(dest, "notes.md"))
                notes = open(os.path.join(d, "notes.md")).read()
            head = sh(["git", "-C", REPO, "rev-parse", "--short", "HEAD"])[1].strip()
            meta_p = os.path.join(dest, "meta.json")
            meta = json.load(open(meta_p)) if os.path.exists(meta_p) else {}
            meta.update({
                "id": sid,
                "property": row["property"],
                "kind": "behaviour-preserving refactoring (every check must stay silent)" if BENIGN else "regression",
                "origin": "independent sub-agent given only the property text and a scratch worktree",
                "needs_to_manifest": meta.get("needs_to_manifest") or _needs(notes),
                "confirmed_at_repo_head": head,
                "ran": [
                    f"demo.py on clean worktree of {head}: PASS (exit 0)",
                    ("git apply patch.diff; demo.py: PASS (exit 0)" if BENIGN else
                     "git apply patch.diff; demo.py: FAIL (exit != 0): " + row["demo_output"].splitlines()[-1][:160]
                     if row["demo_output"] else "git apply patch.diff; demo.py: FAIL"),
                    "pytest -q -p no:cacheprovider (patched): " + row["tests"],
                    f"every claimed check, tier {tier}, --repo <patched worktree>",
                ],
                "detected_by": hits,
            })
            with open(meta_p, "w") as f:
                json.dump(meta, f, indent=1)
    finally:
        sh(["git", "-C", REPO, "worktree", "remove", "--force", wt])
        shutil.rmtree(wt, ignore_errors=True)
    return row


def _needs(notes: str) -> str:
    keep = []
    for ln in notes.splitlines():
        l = ln.lower()
        if any(k in l for k in ("manifest", "needs", "only when", "requires", "trigger")):
            keep.append(ln.strip(" -*"))
    return " ".join(keep)[:600] or "see notes.md"


def main():
    argv = sys.argv[1:]
    tier = "quick"
    jobs = 8
    do_import = "--import" in argv
    global PREFIX, BENIGN
    BENIGN = "--benign" in argv
    if "--prefix" in argv:
        PREFIX = argv[argv.index("--prefix") + 1]
    if "--tier" in argv:
        tier = argv[argv.index("--tier") + 1]
    if "--jobs" in argv:
        jobs = int(argv[argv.index("--jobs") + 1])
    args = [a for i, a in enumerate(argv) if not a.startswith("--") and (i == 0 or argv[i - 1] not in ("--tier", "--jobs", "--prefix"))]
    root = os.path.abspath(args[0])
    flt = args[1] if len(args) > 1 else ""
    props = claimed()
    seeds = [d for d in find_seeds(root) if not flt or flt in d]
    rows = []
    with cf.ThreadPoolExecutor(max_workers=jobs) as ex:
        for row in ex.map(lambda d: evaluate(d, root, tier, props, do_import), seeds):
            rows.append(row)
            short = {k: v for k, v in row.items() if k != "demo_output"}
            print(json.dumps(short), flush=True)
    n = len(rows)
    conf = [r for r in rows if r.get("confirmed")]
    det = sum(1 for r in conf if any(v.startswith("exit1") for v in r.get("detected_by", {}).values()))
    own = sum(1 for r in conf if r.get("detected_by", {}).get(r["property"], "").startswith("exit1"))
    if BENIGN:
        alarms = [r for r in conf if r.get("detected_by")]
        print(f"\n{n} benign refactorings, {len(conf)} confirmed equivalent by their demo and the tests, "
              f"{len(alarms)} raised an alarm or an analysis error: {[r['seed'] for r in alarms]}")
        return 0
    print(f"\n{n} seeds, {len(conf)} confirmed, {det} detected (exit 1) by some check, {own} by the check of their own property")
    return 0


if __name__ == "__main__":
    sys.exit(main())
