#!/venv/bin/python
"""Evaluate seeded regressions against the registered checks (developer tool).

usage: tools/seedcheck.py <seed-root> [<id-filter>] [--tier quick|thorough]
<seed-root> contains <PROP>/<k>/{patch.diff,demo.py,notes.md} (sub-agent output) or <name>/{patch.diff,demo.py,meta.json}.
For each seed: demo on the clean /repo (must PASS), apply the patch to /repo, demo (must FAIL), baseline tests
(must pass), every claimed check (records which exit 1), then `git checkout -- .` (always).
"""
import json
import os
import subprocess
import sys

REPO = "/repo"
ROOT = os.path.dirname(os.path.dirname(os.path.abspath(__file__)))
PY = "/venv/bin/python"


def sh(cmd, cwd=None, timeout=600):
    r = subprocess.run(cmd, cwd=cwd, capture_output=True, text=True, timeout=timeout)
    return r.returncode, (r.stdout + r.stderr)


def claimed():
    man = json.load(open(os.path.join(ROOT, "MANIFEST.json")))
    return [c["property_id"] for c in man["checks"]]


def find_seeds(root):
    out = []
    for dp, dn, fn in os.walk(root):
        if "patch.diff" in fn:
            out.append(dp)
    return sorted(out)


def main():
    args = [a for a in sys.argv[1:] if not a.startswith("--")]
    tier = "quick"
    if "--tier" in sys.argv:
        tier = sys.argv[sys.argv.index("--tier") + 1]
        args = [a for a in args if a != tier]
    root = args[0]
    flt = args[1] if len(args) > 1 else ""
    rc, out = sh(["git", "-C", REPO, "status", "--porcelain"])
    if out.strip():
        print("refusing: /repo has uncommitted changes")
        return 2
    props = claimed()
    rows = []
    for d in find_seeds(root):
        if flt and flt not in d:
            continue
        demo = os.path.join(d, "demo.py")
        patch = os.path.join(d, "patch.diff")
        row = {"seed": os.path.relpath(d, root)}
        try:
            rc, o = sh([PY, "-W", "ignore", demo], cwd=REPO)
            row["demo_clean"] = "PASS" if rc == 0 else f"rc={rc}"
            rc, o = sh(["git", "-C", REPO, "apply", patch])
            if rc != 0:
                row["apply"] = "FAILED: " + o.strip()[:100]
                rows.append(row)
                print(json.dumps(row))
                continue
            rc, o = sh([PY, "-W", "ignore", demo], cwd=REPO)
            row["demo_patched"] = "FAIL" if rc != 0 else "still-PASS"
            rc, o = sh([PY, "-m", "pytest", "-q", "-p", "no:cacheprovider", "-x"], cwd=REPO)
            row["tests"] = o.strip().splitlines()[-1][:40] if o.strip() else "?"
            hits = {}
            for p in props:
                rc, o = sh([PY, "-m", "utverif", "check", p, "--tier", tier, "--no-evidence"], cwd=ROOT)
                if rc != 0:
                    rules = sorted({l.split("]")[0][1:] for l in o.splitlines() if l.startswith("[R")})
                    hits[p] = f"exit{rc}:" + ",".join(rules) if rc == 1 else "exit2:" + " ".join(
                        l for l in o.splitlines() if l.startswith("ANALYSIS"))[:120]
            row["detected_by"] = hits
        finally:
            sh(["git", "-C", REPO, "checkout", "--", "."])
            sh(["git", "-C", REPO, "clean", "-fdq", "utype"])
        rows.append(row)
        print(json.dumps(row))
    n = len(rows)
    det = sum(1 for r in rows if any(v.startswith("exit1") for v in r.get("detected_by", {}).values()))
    print(f"\n{n} seeds, {det} detected (exit 1) by some check")
    return 0


if __name__ == "__main__":
    sys.exit(main())
