#!/venv/bin/python
"""Systematic false-alarm test (developer tool, never part of a registered check).

For every function of the analysed modules a behaviour-preserving variant of the package is generated mechanically
(one function changed per variant) and every registered check must stay at exit 0 on it:

  rename   every local variable of the function (not parameters, not attributes) gets the suffix `_rn`
  flip     every `if a: X else: Y` of the function becomes `if not a: Y else: X`
  retvar   every `return <expr>` becomes `_rv = <expr>; return _rv`
  hoistcond  every plain `if <test>:` becomes `_cN = <test>; if _cN:`
  flipchain  the same, applied to if/elif/else chains too (`if a: X elif b: Y` becomes `if not a: (if not b: pass else: Y) else: X`)

The variants are written to scratch directories under /tmp and removed immediately.
usage: tools/autobenign.py [--kind rename|flip|both] [--jobs 16] [--module substr] [--limit N]
"""
import argparse
import ast
import concurrent.futures as cf
import json
import os
import shutil
import subprocess
import sys
import tempfile

ROOT = os.path.dirname(os.path.dirname(os.path.abspath(__file__)))
REPO = "/repo"
PY = "/venv/bin/python"
MODULES = ["utype/parser/rule.py", "utype/parser/field.py", "utype/parser/base.py", "utype/parser/func.py",
           "utype/parser/cls.py", "utype/parser/options.py", "utype/schema.py", "utype/utils/transform.py",
           "utype/utils/base.py", "utype/utils/encode.py", "utype/utils/functional.py", "utype/utils/exceptions.py",
           "utype/specs/json_schema/generator.py", "utype/specs/json_schema/parser.py"]
FUNC = (ast.FunctionDef, ast.AsyncFunctionDef)


def claimed():
    man = json.load(open(os.path.join(ROOT, "MANIFEST.json")))
    return [c["property_id"] for c in man["checks"]]


def functions(tree):
    out = []

    def walk(node, prefix):
        for ch in ast.iter_child_nodes(node):
            if isinstance(ch, FUNC):
                out.append((prefix + ch.name, ch))
                walk(ch, prefix + ch.name + ".")
            elif isinstance(ch, ast.ClassDef):
                walk(ch, prefix + ch.name + ".")
            else:
                walk(ch, prefix)
    walk(tree, "")
    return out


def shallow(node):
    """nodes of a function body without descending into nested function / class definitions"""
    stack = list(ast.iter_child_nodes(node))
    while stack:
        n = stack.pop()
        yield n
        if isinstance(n, FUNC + (ast.ClassDef, ast.Lambda)):
            continue
        stack.extend(ast.iter_child_nodes(n))


def rename_locals(fn) -> bool:
    if any(isinstance(n, FUNC + (ast.ClassDef, ast.Lambda)) for n in shallow(fn)):
        return False       # closures: keep it simple
    if any(isinstance(n, ast.Call) and isinstance(n.func, ast.Name) and n.func.id in ("locals", "vars", "eval", "exec", "globals")
           for n in ast.walk(fn)):
        return False
    if any(isinstance(n, (ast.Global, ast.Nonlocal)) for n in ast.walk(fn)):
        return False
    params = {a.arg for a in fn.args.posonlyargs + fn.args.args + fn.args.kwonlyargs}
    for a in (fn.args.vararg, fn.args.kwarg):
        if a is not None:
            params.add(a.arg)
    comp_targets = set()
    for n in ast.walk(fn):
        if isinstance(n, ast.comprehension):
            comp_targets |= {x.id for x in ast.walk(n.target) if isinstance(x, ast.Name)}
    stored = set()
    for n in ast.walk(fn):
        if isinstance(n, ast.Name) and isinstance(n.ctx, (ast.Store, ast.Del)):
            stored.add(n.id)
        elif isinstance(n, ast.ExceptHandler) and n.name:
            stored.add(n.name)
        elif isinstance(n, (ast.Import, ast.ImportFrom)):
            return False
    targets = {v for v in stored if v not in params and v not in comp_targets and not v.startswith("__")}
    if not targets:
        return False
    for n in ast.walk(fn):
        if isinstance(n, ast.Name) and n.id in targets:
            n.id = n.id + "_rn"
        elif isinstance(n, ast.ExceptHandler) and n.name in targets:
            n.name = n.name + "_rn"
    return True


def flip_ifs(fn, chains=False) -> bool:
    changed = False
    for n in ast.walk(fn):
        if isinstance(n, ast.If) and n.orelse and (chains or not (len(n.orelse) == 1 and isinstance(n.orelse[0], ast.If))):
            n.test = ast.UnaryOp(op=ast.Not(), operand=n.test)
            n.body, n.orelse = n.orelse, n.body
            changed = True
    return changed


class _RetVar(ast.NodeTransformer):
    """`return <expr>` -> `_rv = <expr>; return _rv` (not inside nested definitions)"""
    def __init__(self):
        self.changed = False

    def visit_FunctionDef(self, node):
        return node

    visit_AsyncFunctionDef = visit_Lambda = visit_ClassDef = visit_FunctionDef

    def visit_Return(self, node):
        if node.value is None or isinstance(node.value, (ast.Name, ast.Constant)):
            return node
        self.changed = True
        return [ast.Assign(targets=[ast.Name(id="_rv", ctx=ast.Store())], value=node.value),
                ast.Return(value=ast.Name(id="_rv", ctx=ast.Load()))]


def retvar(fn) -> bool:
    if any(isinstance(n, (ast.Yield, ast.YieldFrom)) for n in shallow(fn)):
        return False
    t = _RetVar()
    fn.body = [x for st in fn.body for x in (lambda r: r if isinstance(r, list) else [r])(t.visit(st))]
    return t.changed


class _HoistCond(ast.NodeTransformer):
    """`if <test>:` -> `_cN = <test>; if _cN:` for plain if statements (not elif arms), not inside nested definitions"""
    def __init__(self):
        self.n = 0

    def visit_FunctionDef(self, node):
        return node

    visit_AsyncFunctionDef = visit_Lambda = visit_ClassDef = visit_FunctionDef

    def visit_If(self, node):
        # children first; an `elif` arm is the sole If of an orelse list: leave its test in place
        node.body = self._block(node.body)
        if len(node.orelse) == 1 and isinstance(node.orelse[0], ast.If):
            inner = node.orelse[0]
            inner.body = self._block(inner.body)
            inner.orelse = self._block(inner.orelse) if not (len(inner.orelse) == 1 and isinstance(inner.orelse[0], ast.If)) \
                else [self._elif(inner.orelse[0])]
        else:
            node.orelse = self._block(node.orelse)
        if isinstance(node.test, (ast.Name, ast.Constant)) or any(isinstance(x, (ast.NamedExpr, ast.Await, ast.Yield))
                                                                  for x in ast.walk(node.test)):
            return node
        self.n += 1
        name = f"_c{self.n}"
        assign = ast.Assign(targets=[ast.Name(id=name, ctx=ast.Store())], value=node.test)
        node.test = ast.Name(id=name, ctx=ast.Load())
        return [assign, node]

    def _elif(self, node):
        node.body = self._block(node.body)
        if len(node.orelse) == 1 and isinstance(node.orelse[0], ast.If):
            node.orelse = [self._elif(node.orelse[0])]
        else:
            node.orelse = self._block(node.orelse)
        return node

    def _block(self, stmts):
        out = []
        for st in stmts:
            r = self.visit(st)
            out.extend(r if isinstance(r, list) else [r])
        return out

    def generic_visit(self, node):
        for field in ("body", "orelse", "finalbody"):
            b = getattr(node, field, None)
            if isinstance(b, list) and b and isinstance(b[0], ast.stmt):
                setattr(node, field, self._block(b))
        for h in getattr(node, "handlers", []) or []:
            h.body = self._block(h.body)
        return node


def hoistcond(fn) -> bool:
    t = _HoistCond()
    fn.body = t._block(fn.body)
    return t.n > 0


def make_variants(kinds, module_filter):
    out = []
    for rel in MODULES:
        if module_filter and module_filter not in rel:
            continue
        src = open(os.path.join(REPO, rel)).read()
        names = [q for q, _ in functions(ast.parse(src))]
        for kind in kinds:
            for q in names:
                tree = ast.parse(src)
                fn = dict(functions(tree)).get(q)
                # duplicate qualnames (two definitions of one name): take the first
                if fn is None:
                    continue
                ok = rename_locals(fn) if kind == "rename" else retvar(fn) if kind == "retvar" \
                    else hoistcond(fn) if kind == "hoistcond" \
                    else flip_ifs(fn, chains=(kind == "flipchain"))
                if not ok:
                    continue
                ast.fix_missing_locations(tree)
                out.append((kind, rel, q, ast.unparse(tree)))
    return out


def run_variant(v, props):
    kind, rel, q, text = v
    tmp = tempfile.mkdtemp(prefix="utv_ab_")
    try:
        shutil.copytree(os.path.join(REPO, "utype"), os.path.join(tmp, "utype"), ignore=shutil.ignore_patterns("__pycache__"))
        open(os.path.join(tmp, rel), "w").write(text)
        r = subprocess.run([PY, "-m", "py_compile", os.path.join(tmp, rel)], capture_output=True, text=True)
        if r.returncode != 0:
            return (kind, rel, q, {"compile": r.stderr[-200:]})
        bad = {}
        for p in props:
            r = subprocess.run([PY, "-m", "utverif", "check", p, "--no-evidence", "--repo", tmp], cwd=ROOT,
                               capture_output=True, text=True)
            if r.returncode != 0:
                lines = [l for l in r.stdout.splitlines() if l.startswith("[R") or l.startswith("ANALYSIS")]
                bad[p] = (r.returncode, [l[:400] for l in lines[:4]])
        return (kind, rel, q, bad)
    finally:
        shutil.rmtree(tmp, ignore_errors=True)


def main():
    ap = argparse.ArgumentParser()
    ap.add_argument("--kind", default="both")
    ap.add_argument("--jobs", type=int, default=16)
    ap.add_argument("--module", default="")
    ap.add_argument("--limit", type=int, default=0)
    ap.add_argument("--write", action="store_true")
    ap.add_argument("--func", default="", help="only variants of functions whose qualified name contains this")
    ap.add_argument("--props", default="", help="comma-separated property ids (default: all claimed)")
    a = ap.parse_args()
    kinds = ["rename", "flip"] if a.kind == "both" else [a.kind]
    vs = make_variants(kinds, a.module)
    if a.limit:
        vs = vs[: a.limit]
    props = a.props.split(",") if a.props else claimed()
    if a.func:
        vs = [v for v in vs if a.func in v[2]]
    print(f"{len(vs)} mechanical benign variants x {len(props)} checks")
    bad = []
    with cf.ThreadPoolExecutor(max_workers=a.jobs) as ex:
        for kind, rel, q, res in ex.map(lambda v: run_variant(v, props), vs):
            if res:
                bad.append((kind, rel, q, res))
                print("ALARM", kind, rel, q, json.dumps(res)[:600], flush=True)
    print(f"\n{len(vs)} variants, {len(bad)} raised an alarm or an analysis error")
    if a.write:
        with open(os.path.join(ROOT, "selftest", "autobenign.json"), "w") as f:
            json.dump({"variants": len(vs), "alarms": [[k, r, q, res] for k, r, q, res in bad]}, f, indent=1)
    return 1 if bad else 0


if __name__ == "__main__":
    sys.exit(main())
