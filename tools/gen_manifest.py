#!/venv/bin/python
"""Regenerates /verif/MANIFEST.json from the table below (single source of truth for the interface)."""
import json, os, sys
ROOT = os.path.dirname(os.path.dirname(os.path.abspath(__file__)))
PY = "/venv/bin/python"

TRUST = ("Trusted base: CPython's ast parser; the normal forms of DESIGN.md 2.10 (helpers analysed in place, alias propagation, jump threading); the checker's own interpreter over exhaustive finite abstract domains (utverif/absint.py); the checker's own CFG / dominator / reaching-definition engine "
         "(utverif/cfg.py, utverif/lib.py); the frozen knowledge tables named in DESIGN.md 2.5; receiver typing by "
         "method-name uniqueness. utype is never imported or executed. ")

CLAIMS = {
 "C01": dict(
    text="Static mechanism completeness: in every registered converter and in the dispatchers a return of the (alias "
         "of the) input is dominated by a positive type guard against the target type, all other returns are "
         "constructions / delegated conversions / literals (R01a); every element, key and value stored by the element "
         "parsers is a conversion result unless its definition carries a documented waiver (R01b); in Rule.parse every "
         "path to the final return passes origin transform, element parser and validators loop under their guards, in "
         "order, with results assigned back; early exits are the two accepted shortcuts (R01c); stores into the binding "
         "results of the lookup strategies and parse_params are parse results (R01d). R01a splits conditional returns into their arms and treats results of foreign parse functions (json.loads, ast.literal_eval) as unconverted input. Round 4: with subclasses admitted every converter return is built by the requested class (R01e); explicitly passed options are recorded whatever their value (R10h, shared). Round 5: defaults that do not waive the guarantee (R01f); R02f and R05i shared. Round 6: R01b for the sequence / mapping element parsers is decided on their decision tables (a raw element in the result only under preserve)."
         " Round 8: @apply forwards every constraint it was given, zero-valued ones included, decided as a table over the interpreted apply() (R01g).",
    note="Undecided: that each converter's constructor yields a conforming value for every input (value-level), "
         "_parse_decimal arithmetic, user-supplied converters.",
    technique="return-provenance with dominating type-guard facts, typestate (RAW/PARSED) of container stores, "
              "must-pass-through on the CFG of Rule.parse",
    ref="DESIGN.md 3/C01"),
 "C04": dict(
    text="Static, all-paths: every converter / validator / class-held constructor call in the parse core is contained "
         "by a catch-all handler (locally or through every caller) that hands a ParseError-family error on (R04a); no "
         "subscript after a fallen-through range check (R04b); element parsers use only operations every dispatched "
         "container type supports (R04c); every while loop carries a recognised termination argument, numeric shrink "
         "loops a finiteness guard (R04d); the wrapped function / generated __init__ only ever receives the parser's "
         "result (R04e). Decides the mechanism, not the value-level behaviour. Error constructors / message properties of the ParseError family never format the offending value (R04g); errors are handed to the context the owner flushes (R04f). Round 4: no regular expression the library matches against input text has exponential degree of ambiguity (R04i, automaton product test); an integer is built from an input-parsed Decimal only behind a magnitude bound (R04j); the staged union retries do not restart per nesting level (R18e, shared - known finding F34c: a cyclic mapping does not return). Round 5: the generated __init__ uses its positional argument only under an isinstance test (R04k).",
    note="Undecided: RecursionError by input depth (bounded only through C18), unbounded input iterators, exceptions "
         "raised by operations other than the enumerated foreign calls.",
    technique="AST + CFG exception-edge containment, interprocedural caller containment, provenance of error objects, "
              "loop-pattern termination arguments with dominating guard facts; automaton-based ambiguity (EDA) test of shipped regular expressions",
    ref="DESIGN.md 3/C04"),
 "C07": dict(
    text="Static, all-paths over the dict-based and attribute-based mutators: the dict subclass overrides every "
         "mutating dict method (R07a); every write to raw storage stores the result of a parse call (R07b); every raw "
         "removal is dominated by the immutable / is_required guards (R07c); copy() binds fresh storage (R07d); setter "
         "contexts are forced, handle_error honours force_error, and the parse result is tested against the sentinel "
         "before it is stored (R07e); the dependants recomputation is reached after every store (R07f). Accessors per field and Final immutability (R07g); keyed lookups in the fields table go through get_field (R07h). Round 5: R05i shared (item assignment converts unknown keys with the recorded addition type). Round 6: R07c is asked on every class of paths (path-sensitive facts); R07e(1) is read off the handle_error decision table; R13e shared from C13.",
    note="Undecided: recomputation after deletion of a dependency; equality of the attribute and key views as values.",
    technique="mutator-table exhaustiveness, provenance typestate (RAW/PARSED) of stored values, dominating guard facts ; path-sensitive branch facts (bounded disjuncts); handle_error decision table",
    ref="DESIGN.md 3/C07"),
 "C10": dict(
    text="Static: the may-return model of handle_error is validated against its source; at every non-forced "
         "handle_error site the fall-through code reads no variable whose only binding is the failed try body and does "
         "not index past a fallen-through range check (R10a); every context owner passes raise_error() between any "
         "point that may record an error (directly or via helpers sharing its context) and a normal return (R10b); the "
         "max_errors cap follows the append on every returning path with relation >= (R10c); only handle_error "
         "branches on collect_errors (R10d). Options.__init__ rewrites a parameter only under a test of that parameter or a documented implication (R10f). Round 4: enter() always constructs a child context (R10g); the options merge record holds every passed option whatever its value (R10h); no made-up empty result right after a recorded error (R10i). Round 5: option defaults (R10j). Round 6: R10-policy and R10c are decided on the decision table of handle_error / raise_error (369 rows); R06d from the strategy table.",
    note="Undecided: that the collected set names exactly the failing items (value-level).",
    technique="CFG reachability avoiding flush nodes, reaching definitions over exceptional edges, who-may-read rule ; decision tables of handle_error / raise_error and of the lookup strategies",
    ref="DESIGN.md 3/C10"),
 "C16": dict(
    text="Static: every write to the registration list is followed on all paths by a reset of the resolve memo (R16a); "
         "after each front insertion the list is unconditionally stably sorted by the priority component, descending "
         "(R16b); every registration criterion reaches the generated detector with the documented polarity (R16c); "
         "resolve consults shortcut, memo keyed by the type, the list in order, base, default (R16d). The memo reset follows the list change on every path, and the memo is filled only inside the own scan. Round 4: conversions must not be handed a converter resolved at declaration time (R16f; four sites are known findings F47a-d); no library metaclass overrides __eq__ / __hash__ (R16g). Round 5: resolve (1280 input classes) and the detector built by register (288) decided as tables by the interpreter (R16d, R16c)."
         " Round 8: the effect of a registration decided as a table over the interpreted register(): every earlier entry kept, one new entry at its priority position, memo emptied, sequences of registrations listed completely (R16h; replaces the scan-insert and stored-tuple shapes).",
    note="Scoped to TypeRegistry; Rule.__origin_transformer__ memoisation at declaration time is documented behaviour.",
    technique="write/invalidate pairing on the CFG, idiom table for order maintenance, guard-fact polarity checks; finite-domain abstract interpretation (decision tables of resolve and of the generated detector)",
    ref="DESIGN.md 3/C16"),
 "C02": dict(
    text="Static: the reject condition of every strict validator named in Rule.__constraints__, collected from the "
         "branch facts of its raise statements and normalised (negations, operand order, len(str(v))), equals the "
         "documented relation (gt >, ge >=, lt <, le <=, length ==, max_length <=, min_length >=, max_digits <=, "
         "decimal_places <=, regex full match, const equality + type-exactness, enum membership, multiple_of remainder, "
         "unique_items, contains counts) (R02a); accept paths return the input unchanged except the documented "
         "normalisers (R02b); isinstance answers True only after isinstance(obj, origin) and a successful parse (R02c); "
         "Field/apply accept every constraint keyword and forward it under its own name (R02d). No local is carried from one constraint to the next while the validators are compiled (R02e). Round 4: every normal path of Rule.__init_subclass__ rebuilds the validator list (R02f); no path of Rule.parse skips the validators (R01c, shared with C01)."
         " Round 8: forwarding by @apply decided as a table (R01g, replaces the dict-literal shape of R02d for apply).",
    note="Undecided: digit counting in _parse_decimal, multiple_of on floats, NaN (total-order normalisation on purpose).",
    technique="path-condition extraction per validator + operator-table comparison, dominance checks, keyword-table agreement",
    ref="DESIGN.md 3/C02"),
 "C06": dict(
    text="Static sibling agreement of the two lookup strategies (discovered as the callees of the strategy conditional): "
         "per action the guard vector - admissible value classes of every Options attribute tested on the way, policy "
         "literals, polarity of the field predicates, closed under summaries of is_required / is_no_input / "
         "parse_addition read from their source - is identical in both (R06a); the alias-conflict comparison compares "
         "raw with raw (R06b); the selector is exclusive, passes identical arguments, returns the result unchanged (R06c). Consumed-input bookkeeping (R06d), case normalisation (R06e), consumed keys marked on every path from `the field got a value` (R06f), the absence/default pass iterates all declared fields (R06g). Alias tables are rebuilt from empty tables (R06h); the extra-key pass is never gated by counts and keys are marked consumed only for fields that got a value (R06i). Round 4: alias tables are replaced, never merged into in place (R06h). Round 6: R06a/b/d/f/i/j(i)/k are decided on the decision table of the two lookup strategies - both functions interpreted by the checker's own interpreter over every combination of a finite declaration / input / option domain (3777 rows quick, 10080 thorough), compared with each other and with the documented outcome; the counter-example row is reported.",
    note="Undecided: equality of results in general (needs differential execution); ordering of result keys.",
    technique="sibling cross-check by must-fact guard vectors over a finite value-class domain with callee summaries ; finite-domain interpretation of both strategies' syntax trees (decision table, differential + reference outcome)",
    ref="DESIGN.md 3/C06"),
 "C09": dict(
    text="Static dataflow over the four branches of logical_parse (discovered from the combinator literal tested): in "
         "| ^ ~ every conversion receives the original input, & threads the running value (R09a); ~ never hands back a "
         "reassigned input, | and ^ return the exact-type guarded input or a conversion of the original input (R09b); "
         "error discipline per branch, no return inside the ^ loop (R09c); operator methods build the combinator they "
         "denote, reflected operators keep operand order, double negation / dedupe / Any / collapse / flatten are "
         "present (R09d). The exact-type guard is the bare comparison, not a disjunction admitting subclass instances. The union ends with an attempt under exactly the caller's options (R09e); building a combinator never modifies its operands (R09f); no break on the accepting path of ^. Round 4: enter() opens a new layer on every path (R10g) and handle_error records before it raises (R10c), both shared with C10. Round 5: combine / combine_by decided as tables by the interpreter (R09d); R10e shared. Round 6: R09a/b/c are decided on the behaviour table of logical_parse (every scenario of accepting / rejecting attempts x caller flags x input class x fail-fast / collecting, 429 rows, interpreted over modelled objects), R09e on its stage table.",
    note="Undecided: 'accepts exactly when at least one accepts' as a relation over inputs.",
    technique="reaching definitions of the conversion subject per branch, provenance of returned values, guard facts; finite-domain abstract interpretation of combine / combine_by ; finite-domain interpretation of logical_parse (behaviour and stage tables)",
    ref="DESIGN.md 3/C09"),
 "C18": dict(
    text="Static: route tested None-exactly, depth inherited, +1 on the no-route branch only, compared with > (R18a); "
         "every context.enter passes a non-None route and enter() chains context/route/options (R18b); data-class "
         "contexts are created with the caller's context along every hop (R18c); each staged retry of the union is "
         "guarded so that it is skipped when the current options already include the stage's flags - truth table over "
         "the guard - with a final unconditional stage (R18d). Every write to the depth is the inherit form or the single increment and the depth error is raised, not collected (R18a); the creating context's conversion flags must survive the data-class boundary (R18e, known finding F34); no branch re-enters the combinator on its own input (R18f). Only enumerated data-class / function entries create a route-less context chained to a parent (R18g); length rejections precede conversions and no handler retries its own conversion (R18h). Round 4: context factories hand out the class's own options (R18i); a declared __init__ gets a parentless context (R18c, known finding F51); Options as class decorator returns a substitute subclass (R18j, known finding F52); R10b shared. Round 5: depth accounting decided by symbolic evaluation of the constructor over its 8 input shapes (R18a); option default (R18k). Round 6: R18d reads the stage table of logical_parse; R18l: class options are found through attribute lookup (inherited).",
    note="Undecided: the asymptotic bound as a measured quantity.",
    technique="None-exactness lint on the route parameter, call-chain argument flow, finite truth-table evaluation of guards; symbolic evaluation of the depth arithmetic over the constructor's input shapes ; union stage table",
    ref="DESIGN.md 3/C18"),
 "C05": dict(
    text="Static enforcement skeleton of the field contract (not the contract itself): defaults are handed out through "
         "copy_value, which recurses into sequences and dicts (R05a); every parse_value in the binding code is dominated "
         "by is_no_input being false and a no-input field receives only its default (R05b); AbsenceError exactly under "
         "is_required, nothing stored afterwards, defaults only when not required, is_required honours ignore_required / "
         "always_no_input (R05c); parse_addition is the ordered switch False->ExceedError, falsy->drop, no type->keep, "
         "type->convert (R05d); no_output gates before mapping stores, option precedence in get_default, lookup order "
         "name->alias->case-insensitive (R05e). A field's own alias_from overrides the alias generator (R05f); parse-time defaults bind defer=False effectively, explicit or via the callee's declared default (R05g); a key that matched a declared field is marked consumed on every path (R06f). Inherited fields merge farthest-base-first (R05h); R05g covers every get_default call site. Round 4: alias tables rebuilt from the current fields (R06h, shared). Round 5: get_default is decided as a decision table by the checker's interpreter over its full finite domain (R05a/R05e); addition-type table (R05i); option defaults (R05j); R06e shared. Round 6: the lookup-strategy parts of R05b / R05c are read off the strategy decision table (C06); R18l (inherited class options) shared from C18."
         " Round 8: copy_value decided as a table over default shapes (no mutable container shared at any depth, user subclasses included) instead of by shape.",
    note="Undecided (the core): alias/case tables as values, mode strings, option interactions - needs a reference model "
         "over declarations x inputs.",
    technique="must-pass-through / dominating guard facts per enforcement point, dead-branch (ordering) check on the switch; finite-domain abstract interpretation of get_default and parse_addition_type ; strategy decision table (finite-domain interpretation)",
    ref="DESIGN.md 3/C05"),
 "C11": dict(
    text="Static policy matrix: every catch-all handler around a conversion that consults an exclude/preserve policy is "
         "partitioned by the policy literal - EXCLUDE warns, never raises and reaches no store / value return; PRESERVE "
         "warns, never raises and reaches a store / return of exactly the raw element that failed; otherwise a ParseError "
         "goes to handle_error; the policy attribute matches the element kind (R11a); required fields raise under EXCLUDE "
         "(R11b); element parsers apply only operations every dispatched container type supports (R04c). Every policy-guarded conversion runs on a child context from enter() (R11c). Under EXCLUDE parse_value returns get_default(...) (R11d); R10f also runs here. Round 4: the per-field input policy comes from the field's own Field (R11g); R10h shared. Round 5: option defaults (R11h); policy facts normalised over == / != and branch arms. Round 6: R11a for the sequence / mapping element parsers is decided on their decision tables (336 rows: per position converting / failing x policy x fail-fast / collecting); R11e reads the stage table of logical_parse.",
    note="Undecided: the metamorphic equality with the filtered input (value-level).",
    technique="handler partition by policy atoms, CFG reachability of stores/returns per partition, provenance of the preserved element ; element-parser decision tables; union stage table",
    ref="DESIGN.md 3/C11"),
 "C08": dict(
    text="Static wrapper discipline (the binding arithmetic itself is undecided): every wrapper kind creates a per-call "
         "context, resolves forward references before get_params, calls get_params with identical arguments, parses the "
         "result channel exactly under parse_result, wrap() dispatches each function kind with all settings (R08a); the "
         "wrapped function only receives get_params' result and parse_params flushes before returning (R08b=R04e); with "
         "declared yield/send/return types the raw item / sent value / return value cannot reach the yield / send / "
         "return (R08c); the value returned by send()/asend() is used (R08d). parse_data dominates every return of parse_params and is unconditional (R08e). The **kwargs annotation is merged after the user's options (R08f); R10e and R06i also run on the function parser."
         " Round 8: a dependency supplied by position counts as provided - the excluded-dependency rows of the strategy table (R06a shared).",
    note="Undecided (the core): positional index mapping, alias equivalence, *args offsets, defaults - needs generated "
         "signatures against inspect.Signature.bind.",
    technique="sibling agreement of wrapper call sequences, dominance, reaching definitions avoiding waiver branches, "
              "unused-result lint on generator protocol calls",
    ref="DESIGN.md 3/C08"),
 "C17": dict(
    text="Static resolution-before-use: resolve_forward_refs unconditionally dominates parse_data / get_params at all "
         "five entries (R17a); after a resolution every field (input and output type), the addition type, *args and "
         "return types are re-resolved, nested types recursively (R17b); the late re-parse applies the constraints, key, "
         "pending table and globals stored with the pending reference (R17c); apply/__call__ dereference an evaluated "
         "ForwardRef before dispatch and raise for an unevaluated one (R17d); local-scope resets happen after "
         "re-resolution and classes can resolve their own name (R17e). Each pending entry stores the reference object of its own annotation (R17f). The re-resolution hook is guarded by `resolved` only, ClassParser.globals always injects the class, evaluate_forward_ref passes the namespaces through unchanged (R17g). Round 4: base parsers are resolved before a subclass (R17i); loop flags accumulate (R17j); re-resolution descends into a combined origin (R17k); R16d shared. Round 6: the resolved-indicator of the resolution worker is found by role (a flag or a collection of resolved references)."
         " Round 8: is_local_var answers by `<locals>` anywhere in the qualified name (R17l table).",
    note="Undecided (the core): behavioural equivalence with the directly written declaration for every order of "
         "definition and first use.",
    technique="dominance / must-pass-through at entries, argument-flow checks on the late re-parse, statement order on the CFG",
    ref="DESIGN.md 3/C17"),
 "C12": dict(
    text="Static gate coverage of the two conversion preferences (not the subset / value-preservation relations): every "
         "registered converter, with the helpers and converters it delegates to, reads the flags its conversions depend "
         "on, and a new converter must be classified (R12a); Options.__init__ turns an addition policy that was not "
         "given into False under no_data_loss - the guard is evaluated for the parameter's default value - and the "
         "tuple-surplus gate reads the flag (R12b); each enumerated lossy operation (collection collapse, lenient "
         "decode, datetime/timed text to date with a full midnight comparison, datetime to time, truthiness fallback, "
         "fractional int, list to data class incl. element fast paths) is separated from no_data_loss by a raising test "
         "or a strict variant (R12c); the union's retry stages only raise flags (R12d). Round 5: option defaults (R12e); guards compared as clauses (De Morgan / comparison complements). Round 6: R12d reads the union's stages off the stage table of logical_parse and checks that the first accepting attempt in stage order wins; the tuple surplus gate is decided on the facts of the reject."
         " Round 8: multi() decided as a table over input classes - containers and their user subclasses yes; text, bytes-like, mappings, scalars no (R12f).",
    note="Undecided (the core): that whatever converts under the flags converts to an equal value without them, and "
         "value preservation, as relations over all (source, target) pairs. Observed, not derivable: for Union[int, str] "
         "and 3.5 no_explicit_cast gives 3 while the lenient result is '3.5'.",
    technique="interprocedural flag-read sets per converter against a requirement table, default-value evaluation of "
              "a guard, dominating raise-guard facts in front of enumerated lossy operations, keyword check of stage options ; union stage table (finite-domain interpretation)",
    ref="DESIGN.md 3/C12"),
 "C13": dict(
    text="Static tables-and-views check of the JSON-Schema generator (not validity of whole documents): constraint, "
         "primitive, operator and format tables folded from source carry the JSON-Schema keyword of the same meaning per "
         "primitive, non-standard names never reuse a standard keyword, subclass-sensitive first-match order (bool before "
         "int, datetime before date) (R13a); input/output view members are used only under the matching self.output "
         "polarity (R13b); properties / required / dependentRequired share one key, required is decided by the parser's "
         "own is_required with the view's options and only for listed properties (R13c); additionalProperties is emitted "
         "exactly when a policy is set - schema for a type, literal for a boolean (R13d); always_no_input / "
         "always_no_output agree with is_no_input / is_no_output on every value-independent declaration x mode point of "
         "an enumerated finite domain (R13e); container keywords items / prefixItems / patternProperties (R13f); the JSON "
         "kind returned by every registered encoder matches the primitive announced for its type (R13g); the name "
         "returned by set_def is the one referenced (R13h). No generator method writes through a class-level container (R13i); R06f also runs here. Round 4: properties / required are keyed by the declared field name and the output view consults every option under which get_default withholds a default (R13c); R06i and R18i shared. Round 5: generate_for_dataclass decided as a document table by the interpreter over 2048 input classes (R13c/R13d).",
    note="Undecided: draft 2020-12 validity of the whole document and validation of arbitrary parser outputs against it "
         "(needs an independent validator over generated values). Known findings F29a/F29b (large / non-finite Decimal "
         "published as string under type number).",
    technique="constant folding of keyword tables against a vocabulary table, guard-fact polarity checks per view, "
              "exhaustive finite-domain evaluation of the field predicates by the checker's own AST evaluator, "
              "return-kind provenance of encoders, unused-result lint; finite-domain abstract interpretation of generate_for_dataclass (document table)",
    ref="DESIGN.md 3/C13"),
 "C14": dict(
    text="Static agreement of the encoder table with the converter table (not equality after the round trip): every "
         "non-JSON-native family of the domain has a registered encoder and a registered converter and JSONEncoder.default "
         "applies the resolved encoder (R14a); every encoder returns a JSON-native kind by provenance and applies no "
         "operation that needs an element order (R14b); the gate and the format choice in front of the UTC-offset (%z) "
         "parse accept '-' wherever they accept '+' (R14c); the sign of a textual duration multiplies the value built "
         "from all matched components and the encoder negates the whole value (R14d); after the UTC marker is stripped "
         "every return that parses the stripped text re-attaches UTC under the flag (R14e); byte codecs agree and "
         "decimals are rebuilt from text, never from the float (R14f). json.loads in the converters uses default decoding (R14g); the designators the duration encoder writes are the ones the ISO pattern reads, in order, with a sign group (R14h).",
    note="Undecided (the core): equality of the re-parsed instance for every value of the domain; inclusion of the "
         "isoformat()/duration_iso_string languages in what strptime formats / DURATION_REGS accept. Observed, not "
         "derivable: Set[Tuple[...]] does not parse back (set(...) of raw lists before element conversion).",
    technique="registration-table coverage, return-kind provenance, one-sided-comparison (sign symmetry) lint on gates "
              "dominating the %z parse, provenance of the signed operand, flag-obligation (computed-then-ignored) check",
    ref="DESIGN.md 3/C14"),
 "C19": dict(
    text="Static purity mechanisms (not equality of results across histories): every default is handed out through "
         "copy_value, which copies nested sequences and mappings (R19a = R05a); no mutating operation - call, bound "
         "mutator reference, subscript / attribute store, del - is applied to an object whose provenance is an "
         "input-carrying parameter of the parse core, converters or validators (aliases, elements and attributes "
         "followed; copies break the chain) (R19b); every write to state that outlives the call, enumerated from the "
         "runtime entries over the receiver-aware call graph whether locked or not, is one of the listed semantically "
         "transparent memos (R19c); the per-call context is never stored on a shared object (R19d). Objects the mutating helpers own by table are created for the call at every call site (R19e). Round 4: R16d shared (the registry memo holds positive answers only). Round 5: R19a uses the get_default table."
         " Round 8: copy_value (R19f) and multi() (R12f) decided as tables; operator methods (`a & b` -> __and__ ...) are call-graph edges, so a memo inside Options.__and__ is an enumerated write.",
    note="Undecided: aliasing of unconverted containers between input and output (not a mutation during parsing); "
         "equality of outcomes across call histories (needs replay against fresh-process results).",
    technique="provenance of mutator receivers from input parameters, shared-write inventory over the call graph "
              "against an enumerated allow-list, must-pass-through of the default copy",
    ref="DESIGN.md 3/C19"),
 "C20": dict(
    text="Static inventory over a receiver-aware call graph with lock regions: every write to state shared between "
         "threads (parser objects, fields, rule classes, ForwardRef objects, converter registries, module memos, "
         "class-level containers reached through per-call objects) in a function reachable from the runtime entries "
         "lies inside a `with <lock>` region, or in a function that at run time is only reached through one, or is an "
         "allow-listed single-store publish (R20a); the double-checked fast path of first-use resolution: the pending "
         "table read without the lock is only emptied by the lock holder, after every other step of the region (R20b); "
         "the converter registry changes its list and resets its memo in one critical section, fills the memo under the "
         "same lock after a scan under that lock, and reads it lock-free in one atomic operation (R20c); the parser "
         "memo publishes a completely constructed parser with one store (R20d). No lock-free look at the registration list; writes through local aliases of shared containers and property getters are part of the inventory."
         " Round 8: operator methods of run-time objects are call-graph edges (writes inside them are inventoried).",
    note="Decides the absence of unsynchronised compound mutation of the anchored state, not the absence of failures "
         "under all schedules (no interleaving is explored). Assumes construction of a class / parser object is "
         "thread-confined until it is published; concurrent mutation of one user instance is out of scope.",
    technique="call-graph reachability with lock-region cuts, shared-write inventory with ownership classification, "
              "CFG order check of the double-checked fast path, lock-consistency check",
    ref="DESIGN.md 3/C20"),
 "C15": dict(
    text="Static tables-and-shapes check of the JSON-Schema translator (not the value-level strictness): every validation "
         "keyword of the supported fragment is translated and CONSTRAINTS_MAP maps it to a constraint that implies its "
         "meaning and that Rule validates; get_constraints applies the table to the keyword's value (R15a); TYPE_MAP "
         "targets have the keyword's JSON type / format (R15b); a local that shadows a builtin is never called when it "
         "may hold a .get() result, and nullable .get() results are not called / dereferenced / iterated unguarded "
         "(R15c, R15f); the translator recurses only on strict components of its schema argument, never through $ref "
         "resolution, and no call cycle passes the schema on unchanged (R15d); every condition that triggers the name "
         "sanitiser (base-class attributes, names already used, the loop's own un-sanitised keys) is handed to it, "
         "fields and annotations share the sanitised key and the schema key is kept as alias (R15e). Memo keys of translations mention every argument (R15g); the sanitised name cannot start with an underscore and private-prefix names are sanitised (R15h); presence of const / default is decided by a sentinel, not truthiness (R15i). Round 4: combinator rules R09a-c, R10c, R10g and the context-options rule R18i are shared (anyOf / oneOf / not and nested objects). Round 5: get_constraints table; R10e shared."
         " Round 8: valid_attr accepts exactly the non-keyword identifiers, non-ASCII included (R15k table).",
    note="Undecided: that every value the built type returns validates against the source schema (needs an independent "
         "validator on generated schemas and instances); keyword combinations Rule.annotate rejects (e.g. maximum "
         "together with exclusiveMaximum, a zero max length) - observed, not derivable by these rules.",
    technique="constant folding of the keyword tables + implication table, nullable-provenance lint with dominating "
              "guard facts, call-graph descent check, trigger/sanitiser argument agreement",
    ref="DESIGN.md 3/C15"),
}

NOT_APPLICABLE = {
 "C03": "idempotence is an equality of runtime values after two applications of the parser; no structural condition "
        "is necessary for it (every candidate shape rule can be broken without breaking idempotence and vice versa), "
        "so a static rule would be a brittle proxy (DESIGN.md section 4)",
}
PENDING_REASON = "no static rule armed for this property yet in the committed state (see DESIGN.md section 3 for the planned rules)"

ALL = [f"C{i:02d}" for i in range(1, 21)]

def main():
    checks = []
    for pid in ALL:
        c = CLAIMS.get(pid)
        if not c:
            continue
        checks.append({
            "property_id": pid,
            "quick_cmd": f"{PY} -m utverif check {pid} --tier quick",
            "thorough_cmd": f"{PY} -m utverif check {pid} --tier thorough",
            "evidence_file": f"/verif/evidence/{pid}.json",
            "replay_cmd_template": f"{PY} -m utverif replay {{path}}",
            "engine": "utverif",
            "level_claimed": {"category": "other", "text": c["text"], "design_ref": c["ref"]},
            "level_note": TRUST + c["note"],
            "technique": "static analysis: " + c["technique"],
        })
    na = []
    for pid in ALL:
        if pid in CLAIMS:
            continue
        na.append({"property_id": pid, "reason": NOT_APPLICABLE.get(pid, PENDING_REASON)})
    man = {
        "version": 1,
        "setup_cmd": f"{PY} -m compileall -q utverif && {PY} -m utverif fixtures",
        "hooks": {
            "guard": "UTYPE_VERIF",
            "enable": "none needed: the checks read /repo's source and execute nothing, so no hook or instrumentation exists",
            "baseline_off_cmd": "cd /repo && /venv/bin/python -m pytest -ra -q -p no:cacheprovider --timeout=900 --continue-on-collection-errors",
            "source_commits": [],
            "add_only": True,
        },
        "engines": [{"name": "utverif", "path": "/verif/utverif", "serves_properties": sorted(CLAIMS),
                     "kind_free_text": "repository-specific static analyser on Python ast: statement CFG with exception "
                                       "edges, dominators, reaching definitions/provenance, branch must-facts, "
                                       "name-resolved call graph, constant folding of tables"}],
        "checks": checks,
        "not_applicable": na,
        "notes": "Exit codes: 0 held (KNOWN-FINDING lines for listed findings), 1 VIOLATION, 2 ANALYSIS-ERROR (vanished anchor / "
                 "instance floor / checker bug; never a silent pass). Known findings: /verif/known_findings.json.",
    }
    with open(os.path.join(ROOT, "MANIFEST.json"), "w") as f:
        json.dump(man, f, indent=1)
    print("MANIFEST.json:", len(checks), "checks,", len(na), "not applicable")

if __name__ == "__main__":
    main()
