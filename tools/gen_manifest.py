#!/venv/bin/python
"""Regenerates /verif/MANIFEST.json from the table below (single source of truth for the interface)."""
import json, os, sys
ROOT = os.path.dirname(os.path.dirname(os.path.abspath(__file__)))
PY = "/venv/bin/python"

TRUST = ("Trusted base: CPython's ast parser; the checker's own CFG / dominator / reaching-definition engine "
         "(utverif/cfg.py, utverif/lib.py); the frozen knowledge tables named in DESIGN.md 2.5; receiver typing by "
         "method-name uniqueness. utype is never imported or executed. ")

CLAIMS = {
 "C04": dict(
    text="Static, all-paths: every converter / validator / class-held constructor call in the parse core is contained "
         "by a catch-all handler (locally or through every caller) that hands a ParseError-family error on (R04a); no "
         "subscript after a fallen-through range check (R04b); element parsers use only operations every dispatched "
         "container type supports (R04c); every while loop carries a recognised termination argument, numeric shrink "
         "loops a finiteness guard (R04d); the wrapped function / generated __init__ only ever receives the parser's "
         "result (R04e). Decides the mechanism, not the value-level behaviour.",
    note="Undecided: RecursionError by input depth (bounded only through C18), unbounded input iterators, exceptions "
         "raised by operations other than the enumerated foreign calls.",
    technique="AST + CFG exception-edge containment, interprocedural caller containment, provenance of error objects, "
              "loop-pattern termination arguments with dominating guard facts",
    ref="DESIGN.md 3/C04"),
 "C07": dict(
    text="Static, all-paths over the dict-based and attribute-based mutators: the dict subclass overrides every "
         "mutating dict method (R07a); every write to raw storage stores the result of a parse call (R07b); every raw "
         "removal is dominated by the immutable / is_required guards (R07c); copy() binds fresh storage (R07d); setter "
         "contexts are forced, handle_error honours force_error, and the parse result is tested against the sentinel "
         "before it is stored (R07e); the dependants recomputation is reached after every store (R07f).",
    note="Undecided: recomputation after deletion of a dependency; equality of the attribute and key views as values.",
    technique="mutator-table exhaustiveness, provenance typestate (RAW/PARSED) of stored values, dominating guard facts",
    ref="DESIGN.md 3/C07"),
 "C10": dict(
    text="Static: the may-return model of handle_error is validated against its source; at every non-forced "
         "handle_error site the fall-through code reads no variable whose only binding is the failed try body and does "
         "not index past a fallen-through range check (R10a); every context owner passes raise_error() between any "
         "point that may record an error (directly or via helpers sharing its context) and a normal return (R10b); the "
         "max_errors cap follows the append on every returning path with relation >= (R10c); only handle_error "
         "branches on collect_errors (R10d).",
    note="Undecided: that the collected set names exactly the failing items (value-level).",
    technique="CFG reachability avoiding flush nodes, reaching definitions over exceptional edges, who-may-read rule",
    ref="DESIGN.md 3/C10"),
 "C16": dict(
    text="Static: every write to the registration list is followed on all paths by a reset of the resolve memo (R16a); "
         "after each front insertion the list is unconditionally stably sorted by the priority component, descending "
         "(R16b); every registration criterion reaches the generated detector with the documented polarity (R16c); "
         "resolve consults shortcut, memo keyed by the type, the list in order, base, default (R16d).",
    note="Scoped to TypeRegistry; Rule.__origin_transformer__ memoisation at declaration time is documented behaviour.",
    technique="write/invalidate pairing on the CFG, idiom table for order maintenance, guard-fact polarity checks",
    ref="DESIGN.md 3/C16"),
}

NOT_APPLICABLE = {
 "C03": "idempotence is an equality of runtime values after two applications of the parser; no structural condition "
        "is necessary for it (every candidate shape rule can be broken without breaking idempotence and vice versa), "
        "so a static rule would be a brittle proxy (DESIGN.md section 4)",
}
PENDING_REASON = "no static rule armed for this property yet in the committed state (see DESIGN.md section 3 for the planned rules)"

ALL = [f"C{i:02d}" for i in range(1, 21)]

def main():
    checks = []
    for pid in ALL:
        c = CLAIMS.get(pid)
        if not c:
            continue
        checks.append({
            "property_id": pid,
            "quick_cmd": f"{PY} -m utverif check {pid} --tier quick",
            "thorough_cmd": f"{PY} -m utverif check {pid} --tier thorough",
            "evidence_file": f"/verif/evidence/{pid}.json",
            "replay_cmd_template": f"{PY} -m utverif replay {{path}}",
            "engine": "utverif",
            "level_claimed": {"category": "other", "text": c["text"], "design_ref": c["ref"]},
            "level_note": TRUST + c["note"],
            "technique": "static analysis: " + c["technique"],
        })
    na = []
    for pid in ALL:
        if pid in CLAIMS:
            continue
        na.append({"property_id": pid, "reason": NOT_APPLICABLE.get(pid, PENDING_REASON)})
    man = {
        "version": 1,
        "setup_cmd": f"{PY} -m compileall -q utverif && {PY} -m utverif fixtures",
        "hooks": {
            "guard": "UTYPE_VERIF",
            "enable": "none needed: the checks read /repo's source and execute nothing, so no hook or instrumentation exists",
            "baseline_off_cmd": "cd /repo && /venv/bin/python -m pytest -ra -q -p no:cacheprovider --timeout=900 --continue-on-collection-errors",
            "source_commits": [],
            "add_only": True,
        },
        "engines": [{"name": "utverif", "path": "/verif/utverif", "serves_properties": sorted(CLAIMS),
                     "kind_free_text": "repository-specific static analyser on Python ast: statement CFG with exception "
                                       "edges, dominators, reaching definitions/provenance, branch must-facts, "
                                       "name-resolved call graph, constant folding of tables"}],
        "checks": checks,
        "not_applicable": na,
        "notes": "Exit codes: 0 held (KNOWN-FINDING lines for listed findings), 1 VIOLATION, 2 ANALYSIS-ERROR (vanished anchor / "
                 "instance floor / checker bug; never a silent pass). Known findings: /verif/known_findings.json.",
    }
    with open(os.path.join(ROOT, "MANIFEST.json"), "w") as f:
        json.dump(man, f, indent=1)
    print("MANIFEST.json:", len(checks), "checks,", len(na), "not applicable")

if __name__ == "__main__":
    main()
