#!/venv/bin/python
"""Developer self-test of the checker, both ways (never part of a registered check).

For every variant in selftest/variants.py a scratch copy of /repo's package is made under a temp dir, one edit is
applied, and the property's check is run against the copy (`--repo <copy>`):
  * breaking variants must make the named property's check exit 1 (and, with --tests, must still pass the baseline
    test-suite, i.e. they are changes the tests cannot see);
  * benign variants must leave every check at exit 0.
Usage: tools/selftest.py [--jobs 16] [--tests] [--only C04] [--name substring]
"""
import argparse
import concurrent.futures as cf
import importlib.util
import json
import os
import shutil
import subprocess
import sys
import tempfile

ROOT = os.path.dirname(os.path.dirname(os.path.abspath(__file__)))
REPO = "/repo"
PY = "/venv/bin/python"
ALL = ["C01", "C02", "C04", "C05", "C06", "C07", "C08", "C09", "C10", "C11", "C12", "C13", "C14", "C15", "C16",
       "C17", "C18", "C19", "C20"]


def load_variants():
    spec = importlib.util.spec_from_file_location("variants", os.path.join(ROOT, "selftest", "variants.py"))
    m = importlib.util.module_from_spec(spec)
    spec.loader.exec_module(m)
    return m.VARIANTS


def available_props():
    return [p for p in ALL if os.path.exists(os.path.join(ROOT, "utverif", "rules", p.lower() + ".py"))]


def run_variant(v, with_tests, props_avail):
    tmp = tempfile.mkdtemp(prefix="utv_st_")
    try:
        shutil.copytree(os.path.join(REPO, "utype"), os.path.join(tmp, "utype"),
                        ignore=shutil.ignore_patterns("__pycache__"))
        for (rel, old, new) in v["edits"]:
            p = os.path.join(tmp, rel)
            s = open(p).read()
            if old.startswith("ALL:"):          # every occurrence (the two lookup strategies share a passage)
                old = old[4:]
                if s.count(old) < 1:
                    return dict(name=v["name"], status="STALE", detail=f"{rel}: pattern not found")
                open(p, "w").write(s.replace(old, new))
                continue
            if s.count(old) != 1:
                return dict(name=v["name"], status="STALE", detail=f"{rel}: pattern occurs {s.count(old)} times")
            open(p, "w").write(s.replace(old, new))
        # must compile
        r = subprocess.run([PY, "-m", "compileall", "-q", os.path.join(tmp, "utype")], capture_output=True, text=True)
        if r.returncode != 0:
            return dict(name=v["name"], status="NOCOMPILE", detail=r.stdout[-300:])
        env = dict(os.environ, UTVERIF_NO_EVIDENCE="1")
        results = {}
        props = v.get("props") or ([v["prop"]] if v.get("prop") else props_avail)
        if v["kind"] == "benign":
            props = props_avail
        for p in props:
            if p not in props_avail:
                results[p] = "n/a"
                continue
            r = subprocess.run([PY, "-m", "utverif", "check", p, "--tier", v.get("tier", "quick"), "--repo", tmp,
                                "--no-evidence"], cwd=ROOT, capture_output=True, text=True, env=env)
            rules = sorted({l.split("]")[0][1:] for l in r.stdout.splitlines() if l.startswith("[R")})
            results[p] = (r.returncode, rules, [l for l in r.stdout.splitlines() if l.startswith("ANALYSIS-ERROR")])
        tests = None
        if with_tests and v["kind"] == "breaking":
            shutil.copytree(os.path.join(REPO, "tests"), os.path.join(tmp, "tests"),
                            ignore=shutil.ignore_patterns("__pycache__"))
            for fn in ("conftest.py", "pytest.ini", "setup.cfg", "pyproject.toml", "tox.ini"):
                if os.path.exists(os.path.join(REPO, fn)):
                    shutil.copy(os.path.join(REPO, fn), tmp)
            r = subprocess.run([PY, "-m", "pytest", "-q", "-p", "no:cacheprovider", "-x", "tests"], cwd=tmp,
                               capture_output=True, text=True, env=dict(os.environ, PYTHONPATH=tmp))
            tail = r.stdout.strip().splitlines()[-1] if r.stdout.strip() else ""
            tests = (r.returncode, tail)
        status = "OK"
        if v["kind"] == "breaking":
            hit = [p for p, x in results.items() if isinstance(x, tuple) and x[0] == 1]
            exp = v.get("rule")
            if not hit:
                status = "MISSED"
            elif exp and not any(exp in x[1] for x in results.values() if isinstance(x, tuple)):
                status = "WRONG-RULE"
            if any(isinstance(x, tuple) and x[0] == 2 for x in results.values()):
                status = "ANALYSIS-ERROR"
        else:
            bad = [p for p, x in results.items() if isinstance(x, tuple) and x[0] != 0]
            if bad:
                status = "FALSE-ALARM"
        return dict(name=v["name"], kind=v["kind"], status=status, results={k: x for k, x in results.items()}, tests=tests)
    finally:
        shutil.rmtree(tmp, ignore_errors=True)


def main():
    ap = argparse.ArgumentParser()
    ap.add_argument("--jobs", type=int, default=16)
    ap.add_argument("--tests", action="store_true")
    ap.add_argument("--only")
    ap.add_argument("--name")
    ap.add_argument("--write", action="store_true", help="write selftest/results.json")
    a = ap.parse_args()
    vs = load_variants()
    if a.only:
        vs = [v for v in vs if v.get("prop") == a.only or a.only in (v.get("props") or []) or v["kind"] == "benign"]
    if a.name:
        vs = [v for v in vs if a.name in v["name"]]
    avail = available_props()
    out = []
    with cf.ThreadPoolExecutor(max_workers=a.jobs) as ex:
        for r in ex.map(lambda v: run_variant(v, a.tests, avail), vs):
            out.append(r)
            t = ""
            if r.get("tests"):
                t = f"  tests: {'pass' if r['tests'][0] == 0 else 'FAIL'} ({r['tests'][1][:40]})"
            extra = ""
            if r["status"] not in ("OK",):
                extra = "  " + json.dumps(r.get("results") or r.get("detail"))[:300]
            print(f"{r['status']:<14} {r.get('kind', ''):<9} {r['name']}{t}{extra}")
    bad = [r for r in out if r["status"] != "OK"]
    print(f"\n{len(out)} variants, {len(bad)} not OK")
    if a.write:
        with open(os.path.join(ROOT, "selftest", "results.json"), "w") as f:
            json.dump(out, f, indent=1)
    return 1 if bad else 0


if __name__ == "__main__":
    sys.exit(main())
