#!/venv/bin/python
"""Freezes the functions of the tree the rules were confirmed against: utverif/baseline_functions.json
(module -> sorted qualified names).  Functions that are not in this table are *new helpers* and are analysed inside their
callers (utverif/inline.py).  Re-run after every `fix:` commit in /repo that adds or renames a function."""
import json, os, sys
ROOT = os.path.dirname(os.path.dirname(os.path.abspath(__file__)))
sys.path.insert(0, ROOT)
out = os.path.join(ROOT, "utverif", "baseline_functions.json")
if os.path.exists(out):
    os.remove(out)          # load without a baseline: nothing is inlined
from utverif.model import Repo
r = Repo(sys.argv[1] if len(sys.argv) > 1 else "/repo")
table = {m.name: sorted(m.functions) for m in r.modules.values()}
json.dump(table, open(out, "w"), indent=0, sort_keys=True)
print(sum(len(v) for v in table.values()), "functions in", len(table), "modules ->", out)
