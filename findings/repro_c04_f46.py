"""F46 (C04, fixed): utype.types.EmailStr backtracked exponentially.

The separator class of the local part was written `[.-_]`: a range from '.' to '_' that contains the digits and the
upper-case letters, so `([A-Za-z0-9]+[.-_])*` can split a run of letters in exponentially many ways.
Before the fix EmailStr('A' * 34 + '!') took 0.5 s, each further character multiplied that by 1.6 (60 characters: days).
Run against any tree:  PYTHONPATH=<repo> python repro_c04_f46.py   (exit 1 = the defect is present)
"""
import multiprocessing
import sys


def attempt(q):
    from utype import types
    try:
        types.EmailStr("A" * 48 + "!")
    except Exception as e:      # a ParseError is the conforming outcome
        q.put(type(e).__name__)
    else:
        q.put("accepted")


if __name__ == "__main__":
    q = multiprocessing.Queue()
    p = multiprocessing.Process(target=attempt, args=(q,))
    p.start()
    p.join(10)
    if p.is_alive():
        p.terminate()
        print("NO ANSWER after 10 s: EmailStr('A' * 48 + '!')")
        sys.exit(1)
    print("answered:", q.get())
    sys.exit(0)
