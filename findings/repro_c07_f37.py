import warnings; warnings.filterwarnings('ignore')
from utype import Schema, Field, Options
class S(Schema):
    a: int = Field(alias='A', required=False)
    b: int = 0
s = S(A='3', b=1)
print(dict(s), s.a, s.__dict__.get('a'))
v = s.pop('A'); print('popped', v, dict(s), 'attr:', getattr(s, 'a', '<none>'), s.__dict__.get('a'))
s2 = S(A='3', b=1)
del s2['A']; print('del item', dict(s2), 'attr:', getattr(s2, 'a', '<none>'))
s3 = S(A='3', b=1)
del s3.a; print('del attr', dict(s3), 'attr:', getattr(s3, 'a', '<none>'))
s4 = S(A='3', b=1)
s4.popitem(); s4.popitem() if len(s4) else None; print('popitem', dict(s4), s4.__dict__)
s5 = S(A='3', b=1); s5.clear(); print('clear', dict(s5), {k:v for k,v in s5.__dict__.items() if not k.startswith('_')})
