import warnings; warnings.filterwarnings('ignore')
import utype, traceback
from utype import Schema, Field, Options, Rule
class Pos(int, Rule):
    gt = 0
for T in (int, Pos):
  for collect in (False, True):
    class S(Schema):
        __options__ = Options(collect_errors=collect, invalid_values='exclude')
        a: int
        @property
        def b(self) -> T:
            return 'abc' if T is int else self.a - 10
    try:
        print(T.__name__, collect, dict(S(a=1)))
    except Exception as e:
        print(T.__name__, collect, 'ERR', type(e).__name__, str(e)[:150])
