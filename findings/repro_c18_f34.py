import warnings; warnings.filterwarnings('ignore')
import utype, time
from utype import Schema, Rule
from typing import Optional
count = {'n': 0}
class Leaf(int, Rule):
    @classmethod
    def pre_validate(cls, value, context=None):
        count['n'] += 1
        return value
class Node(Schema):
    v: Leaf
    child: Optional['Node'] = None
def build(d, bad):
    x = {'v': 'bad' if bad else 1}
    for _ in range(d-1):
        x = {'v': 1, 'child': x}
    return x
for d in range(1, 11):
    for bad in (False, True):
        count['n'] = 0
        t=time.time()
        try: Node(**build(d, bad)); r='ok'
        except Exception as e: r=type(e).__name__
        print(d, 'bad' if bad else 'good', r, 'leaf conversions:', count['n'], f'{time.time()-t:.3f}s')
