"""F49, F50 (C13, fixed): the output schema disagreed with the parsed output.

F49  Options(no_default=True): get_default returns no default, the parsed output lacks every defaulted field, but the
     output schema listed them under `required`.
F50  Options(case_insensitive=True): parser.fields is keyed by the lower-cased name; the generator published properties /
     required under that key ('username') while the parsed output carries the declared name ('userName').
Run:  PYTHONPATH=<repo> python repro_c13_f49_f50.py     (exit 1 = a defect is present)
"""
import sys

from utype import Options, Schema
from utype.specs.json_schema import JsonSchemaGenerator


class NoDefaults(Schema):
    __options__ = Options(no_default=True)
    a: int
    b: int = 3


class AnyCase(Schema):
    __options__ = Options(case_insensitive=True)
    userName: str


bad = []
out = dict(NoDefaults(a=1))
req = JsonSchemaGenerator(NoDefaults, output=True)().get("required", [])
if [r for r in req if r not in out]:
    bad.append(f"F49 output {out} lacks required {req}")
out = dict(AnyCase(username="x"))
doc = JsonSchemaGenerator(AnyCase, output=True)()
if [r for r in doc.get("required", []) if r not in out] or [k for k in out if k not in doc["properties"]]:
    bad.append(f"F50 output {out} against properties {list(doc['properties'])} required {doc.get('required')}")
for b in bad:
    print("DISAGREE", b)
sys.exit(1 if bad else 0)
