"""F51, F52 (C18, open): two declaration styles in which max_depth is not enforced below the top level.

F51  a data class that declares its own __init__: ClassParser.make_init wraps it with the function parser, whose wrapper
     creates a fresh context per call - every nested instance starts at depth 0.
F52  @Options(max_depth=3) used as a class decorator returns a subclass; the self-reference 'Node' inside the class body
     resolves to the undecorated class, whose options have no max_depth.
In both, depth 8 is accepted under max_depth=3 and a cyclic input does not return (three union stages per level down to
the interpreter's recursion limit).     Run:  PYTHONPATH=<repo> python repro_c18_f51_f52.py   (exit 1 = present)
"""
import multiprocessing
import sys


from typing import Optional

from utype import DataClass, Options, Schema


class InitNode(DataClass):
    __options__ = Options(max_depth=3)

    def __init__(self, v: int, child: Optional["InitNode"] = None):
        self.v, self.child = v, child


@Options(max_depth=3)
class DecoNode(Schema):
    v: int
    child: Optional["DecoNode"] = None


def build(style):
    return InitNode if style == "init" else DecoNode


def attempt(style, cyclic, q):
    Node = build(style)
    d = {"v": 1}
    if cyclic:
        d["child"] = d
    else:
        for i in range(7):
            d = {"v": i, "child": d}
    try:
        Node(**d)
        q.put("accepted")
    except Exception as e:
        q.put(type(e).__name__)


if __name__ == "__main__":
    bad = 0
    for style in ("init", "decorator"):
        for cyclic in (False, True):
            q = multiprocessing.Queue()
            p = multiprocessing.Process(target=attempt, args=(style, cyclic, q))
            p.start()
            p.join(8)
            if p.is_alive():
                p.terminate()
                out = "NO ANSWER after 8 s"
            else:
                out = q.get()
            what = "cyclic input" if cyclic else "depth 8 under max_depth=3"
            print(f"{style:10s} {what:28s} -> {out}")
            bad += out in ("accepted", "NO ANSWER after 8 s")
    sys.exit(1 if bad else 0)
