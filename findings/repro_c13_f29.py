import json, warnings
warnings.filterwarnings('ignore')
from decimal import Decimal
from utype import Schema
from utype.utils.encode import JSONEncoder
from utype.specs.json_schema.generator import JsonSchemaGenerator as G
class S(Schema):
    x: Decimal
print(G(S, output=True)())
for v in ['1e20', '9007199254740993', 'Infinity']:
    print(v, json.dumps(S(x=v), cls=JSONEncoder))
