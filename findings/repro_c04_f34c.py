"""F34c (C04, open): a cyclic mapping given to a data class that refers to itself through Optional does not return.

Run:  PYTHONPATH=<repo> python repro_c04_f34c.py     (exit 1 = present)
"""
import multiprocessing
import sys
from typing import List, Optional

from utype import Schema


class Node(Schema):
    v: int
    child: Optional["Node"] = None


class ListNode(Schema):
    v: int
    kids: List["ListNode"] = []


def attempt(which, q):
    d = {"v": 1}
    try:
        if which == "optional":
            d["child"] = d
            Node(**d)
        else:
            d["kids"] = [d]
            ListNode(**d)
        q.put("accepted")
    except Exception as e:
        q.put(type(e).__name__)


if __name__ == "__main__":
    bad = 0
    for which in ("list", "optional"):
        q = multiprocessing.Queue()
        p = multiprocessing.Process(target=attempt, args=(which, q))
        p.start()
        p.join(10)
        if p.is_alive():
            p.terminate()
            out = "NO ANSWER after 10 s"
            bad += 1
        else:
            out = q.get()
        print(f"cyclic input through {which:8s} -> {out}")
    sys.exit(1 if bad else 0)
