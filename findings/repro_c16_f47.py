"""F47 (C16, open): conversions inside declared generics and Rule origins use the converter that matched at declaration.

Rule.__init_subclass__ resolves `__origin_transformer__` and `__arg_transformers__` once, when the (generic) type is
declared, and Rule.parse / _parse_seq_args / _parse_tuple_args / _parse_map_args hand them to TypeTransformer.apply(func=...).
A registration made afterwards is used by direct conversions and plain fields, not by these.
(The source says so itself, utils/base.py: "if transformer is defined after the validator compiled it will not take effect".)
Run:  PYTHONPATH=<repo> python repro_c16_f47.py     (exit 1 = the behaviour is present)
"""
import sys
from typing import Dict, List, Tuple

from utype import Rule, Schema, register_transformer, type_transform


class Money:
    def __init__(self, v):
        self.v = v


@register_transformer(Money)
def first(transformer, data, t):
    return t(("first", data))


class Basket(Schema):
    plain: Money
    many: List[Money]
    by_name: Dict[str, Money]
    pair: Tuple[Money, Money]


class MoneyRule(Rule):
    __origin__ = Money


Basket(plain=1, many=[1], by_name={"a": 1}, pair=(1, 2))      # every type has been converted once


@register_transformer(Money)
def second(transformer, data, t):
    return t(("second", data))


b = Basket(plain=1, many=[1], by_name={"a": 1}, pair=(1, 2))
seen = {
    "type_transform": type_transform(1, Money).v[0],
    "plain field": b.plain.v[0],
    "List[Money] element": b.many[0].v[0],
    "Dict[str, Money] value": b.by_name["a"].v[0],
    "Tuple[Money, Money] element": b.pair[0].v[0],
    "Rule with origin Money": MoneyRule(1).v[0],
}
stale = {k: v for k, v in seen.items() if v != "second"}
for k, v in seen.items():
    print(f"{k:30s} converted by the {v} registration")
sys.exit(1 if stale else 0)
