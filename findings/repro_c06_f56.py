"""F56 (C06, fixed): a keyword naming a parameter already supplied by position was dropped by the data-first strategy and
handed to **kwargs / rejected as an unknown key by the field-first strategy.  Found by R06k (fate of a key naming an
excluded field).  Run with the library importable:  python findings/repro_c06_f56.py"""
import utype
from utype import Options

out = {}
for df in (False, True):
    @utype.parse(options=Options(data_first_search=df))
    def f(a: int, /, b: int = 0, **rest):
        return a, b, rest

    @utype.parse(options=Options(data_first_search=df, addition=False))
    def h(a: int, /, b: int = 0):
        return a, b
    res = []
    for fn, args, kw in ((f, (1,), dict(b=2, a=5, z=1)), (h, (1,), dict(a=5))):
        try:
            res.append(("ok", fn(*args, **kw)))
        except Exception as e:      # noqa
            res.append((type(e).__name__,))
    out[df] = res
print(out)
assert out[False] == out[True], "strategies disagree"
print("PASS")
