"""F54, F55 (C17, fixed): a class declared inside a function could not refer to a class defined later at module level
through Optional / Union.

F54  LogicalType.resolve_forward_refs overwrote its `resolved` flag in every iteration: for Optional['X'] (arguments X, None)
     the last argument resolves nothing, so the resolved X was never written back.
F55  a field annotated Optional['X'] is Rule[AnyOf(ForwardRef('X'), None)]: Rule.resolve_forward_refs returned early (no
     arguments) without descending into the combined origin.
Module-level classes were saved by the reference object staying evaluated; classes declared in a function have their
references un-evaluated again after the first use (typing caches them), so the parse failed with "ForwardRef not evaluated".
Run:  PYTHONPATH=<repo> python repro_c17_f54_f55.py     (exit 1 = present)
"""
import sys
from typing import Optional, Union

from utype import Schema


def make():
    class Local(Schema):
        g: Optional["LateGlobal"] = None
        u: Union["LateGlobal", int] = 0
    return Local


Local = make()


class LateGlobal(Schema):
    n: int


try:
    v = Local(g={"n": "1"}, u={"n": 2})
    ok = isinstance(v.g, LateGlobal) and isinstance(v.u, LateGlobal)
    print("local class -> later global:", v)
except Exception as e:
    ok = False
    print("local class -> later global:", type(e).__name__, str(e).splitlines()[0][:100])
sys.exit(0 if ok else 1)
