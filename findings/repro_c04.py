"""Reproductions of the C04 findings against the real library (documentation for triage; never run by a check).
Run: /venv/bin/python /verif/findings/repro_c04.py   -> prints one line per finding: DEFECT or ok"""
import signal, sys
from datetime import datetime
import utype
from utype import Rule, Options, exc
from utype.utils.transform import type_transform
from typing import Tuple

def probe(name, fn):
    try:
        r = fn()
        print(name, 'ok: returned', repr(r)[:60])
    except exc.ParseError as e:
        print(name, 'ok: ParseError', type(e).__name__)
    except TimeoutError:
        print(name, 'DEFECT: does not terminate')
    except Exception as e:
        print(name, 'DEFECT:', type(e).__name__, str(e)[:70])

def alarm(*a): raise TimeoutError
signal.signal(signal.SIGALRM, alarm)

probe('F01 set elements', lambda: Rule.annotate(set, int)({'a'}))
probe('F01b exclude', lambda: Rule.annotate(set, int).parse({'a', '1'}, Options(invalid_items='exclude').make_context()))
probe('F02 short tuple collect', lambda: Rule.annotate(tuple, int, int).parse((1,), Options(collect_errors=True).make_context()))
def f03():
    signal.alarm(2)
    try: return type_transform(float('inf'), datetime)
    finally: signal.alarm(0)
probe('F03 inf timestamp', f03)
def f03b():
    signal.alarm(2)
    try: return Rule.annotate(datetime)('1e400')
    finally: signal.alarm(0)
probe('F03b "1e400"', f03b)
probe('F04 unhashable', lambda: Rule.annotate(set, list)([(1,), (2,)]))
class Small(Rule, int): lt = 10
probe('F10 and-branch', lambda: (int & Small)('abc'))
class HasDate(Rule, list): contains = datetime
probe('F17 contains', lambda: HasDate([{}]))
