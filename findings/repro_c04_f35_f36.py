import warnings; warnings.filterwarnings('ignore')
import utype
from utype import Schema, Field, Rule, Options
from utype.utils.exceptions import ParseError
from typing import Union, List, Literal
def t(label, fn):
    try:
        r = fn(); print(label, 'OK ->', repr(r)[:80])
    except ParseError as e:
        print(label, 'ParseError:', type(e).__name__)
    except Exception as e:
        print(label, 'ESCAPED', type(e).__name__, str(e)[:100])
class A(Schema):
    kind: Literal['a']
    x: int
class B(Schema):
    kind: Literal['b']
    y: int
class H(Schema):
    item: Union[A, B] = Field(discriminator='kind')
t('discriminator unhashable', lambda: H(item={'kind': [1], 'x': 1}))
t('discriminator dict', lambda: H(item={'kind': {}, 'x': 1}))
class C(Rule):
    contains = int
t('contains no origin, non-iterable', lambda: C(5))
t('contains no origin, None', lambda: C(None))
class L(list, Rule):
    contains = int
    max_contains = 2
t('contains list ok', lambda: L([1,'a']))
