"""F30 (C20): a lookup in the shared converter registry racing with a registration.
Forced schedule: thread A is inside TypeRegistry.resolve (its scan has matched the old entry, the memo is not filled
yet) when thread B registers a new converter for the same type (which resets the memo).  Before the fix A then stored
the *old* converter into the freshly reset memo, so every later call kept using the old converter although
register() had returned.  With the lock B waits for A's fill and resets it.  Exit 0 = later calls see the new one."""
import sys
import threading
import warnings
warnings.filterwarnings("ignore")
from utype.utils.base import TypeRegistry


class T:
    pass


reg = TypeRegistry("demo", cache=True)
a_in_scan = threading.Event()
b_done = threading.Event()
first = {"v": True}


def slow_detector(c):
    if c is T and first["v"]:
        first["v"] = False
        a_in_scan.set()
        b_done.wait(1.5)   # with the fix B is blocked on the registry lock: this times out and A completes
    return c is T


@reg.register(detector=slow_detector)
def old(x):
    return "old"


res = {}


def thread_a():
    res["a"] = reg.resolve(T)


def thread_b():
    a_in_scan.wait(5)

    @reg.register(T)
    def new(x):
        return "new"
    b_done.set()


ta, tb = threading.Thread(target=thread_a), threading.Thread(target=thread_b)
ta.start(); tb.start(); ta.join(10); tb.join(10)
later = reg.resolve(T)
print("racing lookup ->", res["a"].__name__, "(either answer is legal)")
print("lookup after register() returned ->", later.__name__)
ok = later.__name__ == "new"
print("PASS" if ok else "FAIL: the memo kept the converter that was replaced")
sys.exit(0 if ok else 1)
