"""F53 (C17, fixed): a subclass used before its base class failed on the base's late references.

Before the fix:  class Base(Schema): later: Optional['Later'] = None;  class Sub(Base): ...;  class Later(Schema): n: int
                 Sub(later={'n': 1})  ->  ParseError ... ForwardRef('Later') not evaluated      (Base(...) first: fine)
Run:  PYTHONPATH=<repo> python repro_c17_f53.py     (exit 1 = present)
"""
import sys
from typing import List, Optional

from utype import Schema


class Base(Schema):
    later: Optional["Later"] = None


class Mid(Base):
    pass


class Sub(Mid):
    more: List["Later"] = []


class Later(Schema):
    n: int


import utype


@utype.dataclass
class DA:
    later: Optional["Later"] = None


class Plain(DA):       # no parser of its own
    pass


@utype.dataclass
class DC(Plain):
    x: int = 0


try:
    ok2 = isinstance(DC(later={"n": "1"}).later, Later)
    print("decorated grandchild over a plain class used first: ok" if ok2 else "decorated grandchild: wrong type")
except Exception as e:
    ok2 = False
    print("decorated grandchild over a plain class used first:", type(e).__name__, str(e).splitlines()[0][:100])

try:
    s = Sub(later={"n": "1"}, more=[{"n": 2}])
    ok = isinstance(s.later, Later) and isinstance(s.more[0], Later)
    print("Sub used first:", s)
except Exception as e:
    ok = False
    print("Sub used first:", type(e).__name__, str(e).splitlines()[0][:100])
sys.exit(0 if ok and ok2 else 1)
