"""F21 (C20): two threads doing the first parse of a class with a pending forward reference.
Forced schedule: thread A is paused right after it evaluated the reference (inside resolve_forward_refs); thread B
then performs its own first parse; A resumes.  Before the fix A failed with KeyError '$item' (B had popped the entry).
With the lock B waits for A; both calls return what they return alone.  Exit 0 = both correct."""
import sys
import threading
import warnings
warnings.filterwarnings("ignore")
import utype
import utype.parser.base as base

a_in_eval = threading.Event()
b_done = threading.Event()
orig = base.evaluate_forward_ref
tl = threading.local()


def paused(ref, g, l):
    r = orig(ref, g, l)
    if getattr(tl, "is_a", False) and not a_in_eval.is_set():
        a_in_eval.set()
        b_done.wait(2.0)       # with the fix B is blocked on the lock, so this times out and A goes on
    return r


base.evaluate_forward_ref = paused


class Holder(utype.Schema):
    item: "Later"


class Later(utype.Schema):
    x: int


res = {}


def run(name, is_a):
    tl.is_a = is_a
    try:
        res[name] = Holder(item={"x": "1"})
    except BaseException as e:  # noqa
        res[name] = e
    if not is_a:
        b_done.set()


ta = threading.Thread(target=run, args=("A", True))
ta.start()
a_in_eval.wait(5)
tb = threading.Thread(target=run, args=("B", False))
tb.start()
ta.join(10)
tb.join(10)
ok = True
for k in ("A", "B"):
    v = res.get(k)
    good = isinstance(v, Holder) and isinstance(v.item, Later) and v.item.x == 1
    print(k, "->", repr(v))
    ok = ok and good
print("PASS" if ok else "FAIL")
sys.exit(0 if ok else 1)
