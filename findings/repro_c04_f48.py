"""F48 (C04, fixed): an int target given text in exponent form expanded an integer with as many digits as the exponent.

Before the fix  type_transform('1e1000000', int)  took 30 s, '1e3000000' 5 minutes (quadratic), '1e999999999' never returns:
to_integer parses the text with Decimal (cheap) and then calls int() on it (writes out every digit).
Run:  PYTHONPATH=<repo> python repro_c04_f48.py     (exit 1 = the defect is present)
"""
import multiprocessing
import sys


def attempt(q):
    from utype import type_transform
    try:
        type_transform("1e3000000", int)
    except Exception as e:      # a ParseError / TypeError is the conforming outcome
        q.put(type(e).__name__)
    else:
        q.put("converted")


if __name__ == "__main__":
    q = multiprocessing.Queue()
    p = multiprocessing.Process(target=attempt, args=(q,))
    p.start()
    p.join(20)
    if p.is_alive():
        p.terminate()
        print("NO ANSWER after 20 s: type_transform('1e3000000', int)")
        sys.exit(1)
    print("answered:", q.get())
    sys.exit(0)
