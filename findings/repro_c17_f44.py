import warnings; warnings.filterwarnings('ignore')
from typing import *
from utype import Schema
class A(Schema):
    one: Optional['B'] = None
    many: List['B'] = []
print('pending:', {k: v[0] for k, v in A.__parser__.forward_refs.items()})
class B(Schema):
    x: int
try:
    print(A(one={'x': '1'}, many=[{'x': '2'}]))
except Exception as e:
    print('ERR', type(e).__name__, str(e)[:150])
class A2(Schema):
    one: 'B2' = None
    many: List['B2'] = []
class B2(Schema):
    x: int
try: print(A2(one={'x': '1'}, many=[{'x': '2'}]))
except Exception as e: print('ERR', type(e).__name__, str(e)[:150])
