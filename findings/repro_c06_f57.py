"""F57 (C06, fixed; also C07 'required fields are present'): a required field whose value is refused as input by a
value-dependent no_input and that has no default was silently omitted by the field-first strategy and reported absent by
the data-first strategy.  Found by the decision table of the two lookup strategies (R06f, clause diff@no-input)."""
from utype import Schema, Field, Options

out = {}
for df in (False, True):
    class S(Schema):
        __options__ = Options(data_first_search=df)
        a: int = Field(no_input=lambda v: v is None)
    try:
        out[df] = ("ok", dict(S.__from__({'a': None})))
    except Exception as e:      # noqa
        out[df] = (type(e).__name__,)
print(out)
assert out[False] == out[True] == ("AbsenceError",)
print("PASS")
