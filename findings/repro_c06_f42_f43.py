import warnings; warnings.filterwarnings('ignore')
from utype import Schema, Field, Options
def both(decl, data, **opt):
    out = []
    for dfs in (True, False):
        class S(Schema):
            __options__ = Options(data_first_search=dfs, **opt)
            a: int = Field(alias_from=['a1', 'a2'], **decl)
        try: out.append(dict(S(**data)))
        except Exception as e: out.append(f'ERR {type(e).__name__}')
    print('data-first:', out[0], '| field-first:', out[1], '' if out[0]==out[1] else '  <-- DIFFER')
both({}, {'a1': 1, 'a2': 2}, ignore_alias_conflicts=True)
both({}, {'a2': 2, 'a1': 1}, ignore_alias_conflicts=True)
both({}, {'a1': 1, 'a2': True})
both({}, {'a2': True, 'a1': 1})
both({'case_insensitive': True}, {'A': 1, 'a': 2})
both({'case_insensitive': True}, {'A1': 1, 'a1': 1})
print('--- more')
both({'case_insensitive': True}, {'A': 1, 'a': 2}, ignore_alias_conflicts=True)
both({'case_insensitive': True}, {'a': 2, 'A': 1}, ignore_alias_conflicts=True)
both({}, {'a2': 2, 'a': 5, 'a1': 1}, ignore_alias_conflicts=True)
both({}, {'a2': 'x', 'a1': 1}, ignore_alias_conflicts=True)
both({'required': False, 'on_error': 'exclude'}, {'a2': 'x', 'a1': 1}, ignore_alias_conflicts=True)
