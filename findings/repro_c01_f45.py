"""F45 (C01, fixed): converters registered with subclasses admitted returned base-class values for a declared subclass.

Before the fix:  type_transform(datetime(2020,1,1,3,4), Late)  -> datetime.time(3, 4)        (not a Late)
                 type_transform('-P1D', Span)                   -> datetime.timedelta(-1)     (sign * Span(...) is a timedelta)
                 type_transform('true', Score)                  -> 1                          (int, not Score)
Run against any tree:  PYTHONPATH=<repo> python repro_c01_f45.py   (exit 1 = the defect is present)
"""
import datetime
import sys

from utype import type_transform


class Late(datetime.time):
    pass


class Span(datetime.timedelta):
    pass


class Score(int):
    pass


bad = []
for value, T in ((datetime.datetime(2020, 1, 1, 3, 4), Late), ("3:04:05 PM", Late), ("-P1D", Span),
                 ("1 day, 3:04:05", Span), ("true", Score), ("no", Score)):
    try:
        r = type_transform(value, T)
    except Exception:   # a parse error is a conforming outcome
        continue
    if not isinstance(r, T):
        bad.append(f"type_transform({value!r}, {T.__name__}) -> {r!r} ({type(r).__name__})")
for b in bad:
    print("NONCONFORMING", b)
sys.exit(1 if bad else 0)
