"""F13: async generator wrappers dropped the item returned by asend(). Documentation for triage (never run by a check)."""
import asyncio, sys
from typing import AsyncGenerator
import utype

async def counting():
    i = 0
    while i < 12:
        got = yield i
        i = (got if got is not None else i) + 1

async def drive(genfunc):
    g = genfunc()
    out = []
    try:
        out.append(await g.__anext__())
        out.append(await g.asend(5))
        out.append(await g.__anext__())
        out.append(await g.asend(8))
        out.append(await g.__anext__())
        out.append(await g.__anext__())
    except StopAsyncIteration:
        out.append('stop')
    return out

raw = asyncio.run(drive(counting))
@utype.parse
async def lazy() -> AsyncGenerator[int, int]:
    i = 0
    while i < 12:
        got = yield i
        i = (got if got is not None else i) + 1
@utype.parse(eager=True)
async def eager() -> AsyncGenerator[int, int]:
    i = 0
    while i < 12:
        got = yield i
        i = (got if got is not None else i) + 1
a = asyncio.run(drive(lazy)); b = asyncio.run(drive(eager))
print('raw  ', raw); print('lazy ', a); print('eager', b)
ok = raw == a == b
print('PASS' if ok else 'DEFECT')
sys.exit(0 if ok else 1)
