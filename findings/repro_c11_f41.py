import warnings; warnings.filterwarnings('ignore')
from typing import *
from utype import Rule, Options, Schema
def tt(T, v, o):
    class S(Schema):
        __options__ = o
        x: T
    try: return S(x=v).x
    except Exception as e: return f'ERR {type(e).__name__}'
for pol in ('exclude','preserve'):
    o = Options(invalid_items=pol)
    print(pol, 'List[int]           ', tt(List[int], ['1', 2, 'x'], o))
    print(pol, 'Optional[List[int]] ', tt(Optional[List[int]], ['1', 2, 'x'], o))
    print(pol, 'Union[List[int],str]', tt(Union[List[int], str], ['1', 2, 'x'], o))
o = Options(invalid_values='exclude')
print('Dict', tt(Dict[str,int], {'a':'1','b':2,'c':'x'}, o), tt(Optional[Dict[str,int]], {'a':'1','b':2,'c':'x'}, o))
