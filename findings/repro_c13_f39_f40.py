import warnings, json; warnings.filterwarnings('ignore')
from utype import Schema, Field
from utype.specs.json_schema.generator import JsonSchemaGenerator as G
class S(Schema):
    a: int = Field(required=False, dependencies=['b'])
    b: int = 0
    c: int = Field(required=False, defer_default=True, default=3)
doc = G(S)(); print(doc)
try: print(json.dumps(doc))
except Exception as e: print('json.dumps ERR', type(e).__name__, e)
print(G(S, output=True)())
print(dict(S(b=1)))
