"""The checker's own interpreter for small decision procedures of the repo, run over *exhaustively enumerated finite
abstract domains*.

Some functions of the library are pure decision procedures whose behaviour depends only on a handful of features of their
inputs (is the option set, is the sentinel given, does the detector accept / reject / raise, is the key memoised ...).
Shape rules over such functions are brittle: the same decision can be written as nested ifs, guard clauses, conditional
expressions, merged conditions or through extracted helpers.  This module interprets the function's *syntax tree* (never
the library: nothing of utype is imported or executed, and helpers are resolved through the repo model) on every
combination of those features; the caller compares the resulting table with the documented rule.  The domains are finite
and enumerated completely - no sampling of numeric or textual inputs, no search: a table lookup by abstract input class.

Values are ordinary Python values (None, bools, small ints, strings, tuples, lists, dicts, sets), `Obj` namespaces for
modelled objects, Python callables supplied by the caller for modelled operations, and closures / bound methods of the
interpreted code.  Anything outside the supported subset raises AnalysisError (exit 2), never a guess.
"""
import ast
from typing import Any, Callable, Dict, List, Optional

from .model import AnalysisError, unparse


class Obj:
    """a modelled object: attributes are set by the caller (and by the interpreted code); `_cls` names its class"""
    def __init__(self, _cls="object", **attrs):
        self.__dict__["_cls"] = _cls
        self.__dict__.update(attrs)

    def __repr__(self):
        inner = ", ".join(f"{k}={v!r}" for k, v in self.__dict__.items() if k != "_cls" and not k.startswith("_"))
        return f"<{self._cls} {inner}>"

    def __call__(self, *a, **k):
        c = self.__dict__.get("_call")
        if c is not None:
            return c(*a, **k)
        tp = self.__dict__.get("_type")
        if isinstance(tp, Obj) and "__call__" in (tp.__dict__.get("_methods") or {}):
            ip = tp.__dict__["_interp"]
            return ip.call_function(tp.__dict__["_methods"]["__call__"], (self,) + a, k, tp.__dict__.get("_closure") or {})
        raise TypeError(f"{self._cls} object is not callable")


class Raised(Exception):
    """an exception raised by the interpreted code (or by a modelled operation): class name + arguments"""
    def __init__(self, cls: str, args=(), bases=()):
        super().__init__(cls)
        self.cls = cls
        self.args_ = tuple(args)
        self.bases = tuple(bases)

    def __repr__(self):
        return f"Raised({self.cls})"


class _Return(Exception):
    def __init__(self, value):
        self.value = value


class _Break(Exception):
    pass


class _Continue(Exception):
    pass


EXC_BASES = {
    "BaseException": (), "Exception": ("BaseException",), "TypeError": ("Exception",), "ValueError": ("Exception",),
    "KeyError": ("LookupError", "Exception"), "IndexError": ("LookupError", "Exception"), "LookupError": ("Exception",),
    "AttributeError": ("Exception",), "RuntimeError": ("Exception",), "StopIteration": ("Exception",),
    "ZeroDivisionError": ("ArithmeticError", "Exception"), "ArithmeticError": ("Exception",),
    "RecursionError": ("RuntimeError", "Exception"), "NotImplementedError": ("RuntimeError", "Exception"),
    "AssertionError": ("Exception",),
}

SAFE_BUILTINS: Dict[str, Any] = {
    "len": len, "bool": bool, "int": int, "str": str, "repr": repr, "list": list, "tuple": tuple, "set": set, "dict": dict,
    "frozenset": frozenset, "sorted": sorted, "reversed": lambda x: list(reversed(x)), "enumerate": lambda x, s=0: list(enumerate(x, s)),
    "zip": lambda *a: list(zip(*a)), "range": range, "any": any, "all": all, "max": max, "min": min, "abs": abs, "sum": sum,
    "callable": callable, "id": id, "True": True, "False": False, "None": None, "Ellipsis": Ellipsis,
    "object": lambda: Obj("object"), "type": type, "float": float, "bytes": bytes,
    "partial": __import__("functools").partial, "functools": __import__("types").SimpleNamespace(partial=__import__("functools").partial),
}
SAFE_METHOD_OWNERS = (dict, list, set, frozenset, tuple, str)
# pure standard-library modules whose members the interpreted code may use (helper_table.py resolves the imports of the
# interpreted module against this list; anything else stays an unknown name = exit 2)
SAFE_MODULES = ("collections", "keyword", "re", "itertools", "operator", "functools", "string", "bisect", "copy", "abc",
                "numbers")
_SAFE_MODULE_VALUES = (type(__import__("re").compile("")), type(__import__("re").match("", "")))


class Closure:
    def __init__(self, interp: "Interp", node, env: dict):
        self.interp, self.node, self.env = interp, node, env

    def __call__(self, *args, **kwargs):
        return self.interp.call_function(self.node, args, kwargs, self.env)


class Interp:
    def __init__(self, globals_: Optional[dict] = None, methods: Optional[Dict[str, ast.AST]] = None,
                 classes: Optional[Dict[str, str]] = None, max_steps: int = 20000, module=None):
        self.module = module                      # ModuleInfo: module-level constants / functions are resolved on demand
        self.globals = dict(globals_ or {})       # names visible to every interpreted function (modelled module level)
        self.methods = dict(methods or {})        # method name -> FunctionDef for `self.m(...)` / `cls.m(...)`
        self.steps = 0
        self.max_steps = max_steps
        self._yields = []                         # yield collectors of the generator functions being run

    # ---- functions ---------------------------------------------------------------------------------------------
    def call_function(self, node, args, kwargs, closure_env=None):
        a = node.args
        env = dict(closure_env or {})
        pos = [x.arg for x in a.posonlyargs + a.args]
        defaults = dict(zip(pos[len(pos) - len(a.defaults):], a.defaults)) if a.defaults else {}
        if len(args) > len(pos) and not a.vararg:
            raise Raised("TypeError", ("too many positional arguments",))
        for p, v in zip(pos, args):
            env[p] = v
        if a.vararg:
            env[a.vararg.arg] = tuple(args[len(pos):])
        extra = {}
        kwonly = [x.arg for x in a.kwonlyargs]
        for k, v in kwargs.items():
            if k in pos or k in kwonly:
                env[k] = v
            elif a.kwarg:
                extra[k] = v
            else:
                raise Raised("TypeError", (f"unexpected keyword {k}",))
        if a.kwarg:
            env[a.kwarg.arg] = extra
        for p in pos:
            if p not in env or (p not in [q for q, _ in zip(pos, args)] and p not in kwargs):
                if p in defaults:
                    env.setdefault(p, self.ev(defaults[p], env))
                elif p not in env:
                    raise Raised("TypeError", (f"missing argument {p}",))
        for x, d in zip(a.kwonlyargs, a.kw_defaults):
            if x.arg not in env:
                if d is None:
                    raise Raised("TypeError", (f"missing keyword-only argument {x.arg}",))
                env[x.arg] = self.ev(d, env)
        if isinstance(node, ast.Lambda):
            return self.ev(node.body, env)
        if _is_generator_function(node):
            # a generator function: its yields are collected (the body runs to completion under the step bound) and handed
            # out as an iterator - the functions decided here are pure, so eager production is indistinguishable
            self._yields.append([])
            try:
                self.block(node.body, env)
            except _Return:
                pass
            finally:
                out = self._yields.pop()
            return iter(out)
        try:
            self.block(node.body, env)
        except _Return as r:
            return r.value
        return None

    # ---- statements --------------------------------------------------------------------------------------------
    def tick(self):
        self.steps += 1
        if self.steps > self.max_steps:
            raise AnalysisError("abstract interpreter: step bound exceeded")

    def block(self, stmts, env):
        for st in stmts:
            self.stmt(st, env)

    def stmt(self, st, env):
        self.tick()
        name = st.__class__.__name__
        if name == "InlineBlock":
            # a helper analysed in place (inline.py); its returns bind the result / are the caller's returns
            try:
                self.block(st.body, env)
            except _Return as r:
                if st.tail is True:
                    raise
                if st.tail == "raise":
                    raise self.to_raised(r.value)
                if isinstance(st.result, tuple):
                    vals = list(r.value) if isinstance(r.value, (tuple, list)) else [r.value] * len(st.result)
                    for k, v in zip(st.result, vals):
                        env[k] = v
                elif st.result:
                    env[st.result] = r.value
            return
        if isinstance(st, ast.Return):
            raise _Return(self.ev(st.value, env) if st.value is not None else None)
        if isinstance(st, ast.If):
            return self.block(st.body if self.truth(self.ev(st.test, env)) else st.orelse, env)
        if isinstance(st, ast.Assign):
            v = self.ev(st.value, env)
            for t in st.targets:
                self.assign(t, v, env)
            return
        if isinstance(st, ast.AnnAssign):
            if st.value is not None:
                self.assign(st.target, self.ev(st.value, env), env)
            return
        if isinstance(st, ast.AugAssign):
            cur = self.ev(_as_load(st.target), env)
            self.assign(st.target, self.binop(st.op, cur, self.ev(st.value, env)), env)
            return
        if isinstance(st, ast.Expr):
            self.ev(st.value, env)
            return
        if isinstance(st, (ast.Pass, ast.Import, ast.ImportFrom, ast.Global, ast.Nonlocal)):
            return
        if isinstance(st, ast.Assert):
            return
        if isinstance(st, ast.For):
            it = self.ev(st.iter, env)
            broke = False
            # containers are iterated over a snapshot; anything else (itertools.count(), a generator) lazily, bounded by
            # the interpreter's step budget
            for v in (list(it) if isinstance(it, (list, tuple, dict, set, frozenset, str, range)) else it):
                self.tick()
                self.assign(st.target, v, env)
                try:
                    self.block(st.body, env)
                except _Break:
                    broke = True
                    break
                except _Continue:
                    continue
            if not broke:
                self.block(st.orelse, env)
            return
        if isinstance(st, ast.While):
            broke = False
            while self.truth(self.ev(st.test, env)):
                self.tick()
                try:
                    self.block(st.body, env)
                except _Break:
                    broke = True
                    break
                except _Continue:
                    continue
            if not broke:
                self.block(st.orelse, env)
            return
        if isinstance(st, ast.Break):
            raise _Break()
        if isinstance(st, ast.Continue):
            raise _Continue()
        if isinstance(st, ast.With):
            for item in st.items:
                v = self.ev(item.context_expr, env)
                if item.optional_vars is not None:
                    self.assign(item.optional_vars, v, env)
            return self.block(st.body, env)
        if isinstance(st, ast.Try):
            try:
                try:
                    self.block(st.body, env)
                except Raised as r:
                    for h in st.handlers:
                        if self.handler_matches(h, r, env):
                            if h.name:
                                env[h.name] = r
                            prev = env.get("__handling__")
                            env["__handling__"] = r
                            try:
                                self.block(h.body, env)
                            finally:
                                env["__handling__"] = prev
                            break
                    else:
                        raise
                else:
                    self.block(st.orelse, env)
            finally:
                self.block(st.finalbody, env)
            return
        if isinstance(st, ast.Raise):
            if st.exc is None:
                cur = env.get("__handling__")
                if isinstance(cur, Raised):
                    raise cur
                raise Raised("Exception", ("re-raise",))
            raise self.to_raised(self.ev(st.exc, env))
        if isinstance(st, ast.Delete):
            for t in st.targets:
                if isinstance(t, ast.Subscript):
                    if isinstance(t.slice, ast.Slice):
                        lo = self.ev(t.slice.lower, env) if t.slice.lower is not None else None
                        hi = self.ev(t.slice.upper, env) if t.slice.upper is not None else None
                        del self.ev(t.value, env)[lo:hi]
                    else:
                        del self.ev(t.value, env)[self.ev(t.slice, env)]
                elif isinstance(t, ast.Name):
                    env.pop(t.id, None)
            return
        if isinstance(st, (ast.FunctionDef, ast.AsyncFunctionDef)):
            env[st.name] = Closure(self, st, env)
            return
        if isinstance(st, ast.ClassDef) and not st.bases and not st.keywords:
            methods = {x.name: x for x in st.body if isinstance(x, (ast.FunctionDef, ast.AsyncFunctionDef))}
            assigns = {x.targets[0].id: x.value for x in st.body if isinstance(x, ast.Assign) and len(x.targets) == 1
                       and isinstance(x.targets[0], ast.Name)}
            env[st.name] = self.make_class(st.name, methods, assigns, env)
            return
        raise AnalysisError(f"abstract interpreter: unsupported statement `{unparse(st)[:60]}`")

    def to_raised(self, v) -> Raised:
        if isinstance(v, Raised):
            return v
        if isinstance(v, Obj) and getattr(v, "_exc", False):
            return Raised(v._cls, getattr(v, "args", ()), getattr(v, "_bases", ()))
        if isinstance(v, tuple) and v and v[0] == "new":
            return Raised(str(v[1]).split(".")[-1], v[2:])
        if isinstance(v, str):
            return Raised(v.split(".")[-1])
        return Raised("Exception", (v,))

    def handler_matches(self, h, r: Raised, env) -> bool:
        if h.type is None:
            return True
        names = [unparse(e).split(".")[-1] for e in (h.type.elts if isinstance(h.type, ast.Tuple) else [h.type])]
        chain = {r.cls} | set(r.bases)
        todo = [r.cls] + list(r.bases)
        while todo:
            c = todo.pop()
            for b in EXC_BASES.get(c, ("Exception",) if c not in ("BaseException", "Exception") else ()):
                if b not in chain:
                    chain.add(b)
                    todo.append(b)
        return bool(chain & set(names))

    def assign(self, t, v, env):
        if isinstance(t, ast.Name):
            env[t.id] = v
        elif isinstance(t, ast.Attribute):
            base = self.ev(t.value, env)
            if isinstance(base, (Obj, Closure)):
                setattr(base, t.attr, v)
            else:
                raise AnalysisError(f"abstract interpreter: attribute store on {type(base).__name__} in `{unparse(t)}`")
        elif isinstance(t, ast.Subscript):
            if isinstance(t.slice, ast.Slice):
                lo = self.ev(t.slice.lower, env) if t.slice.lower is not None else None
                hi = self.ev(t.slice.upper, env) if t.slice.upper is not None else None
                self.ev(t.value, env)[lo:hi] = list(v)
            else:
                self.ev(t.value, env)[self.ev(t.slice, env)] = v
        elif isinstance(t, (ast.Tuple, ast.List)):
            vals = list(v)
            star = [i for i, e in enumerate(t.elts) if isinstance(e, ast.Starred)]
            if star:
                i = star[0]
                after = len(t.elts) - i - 1
                for e, x in zip(t.elts[:i], vals[:i]):
                    self.assign(e, x, env)
                self.assign(t.elts[i].value, vals[i:len(vals) - after], env)
                for e, x in zip(t.elts[i + 1:], vals[len(vals) - after:]):
                    self.assign(e, x, env)
            else:
                if len(vals) != len(t.elts):
                    raise Raised("ValueError", ("unpack",))
                for e, x in zip(t.elts, vals):
                    self.assign(e, x, env)
        else:
            raise AnalysisError(f"abstract interpreter: unsupported target `{unparse(t)}`")

    # ---- expressions -------------------------------------------------------------------------------------------
    def truth(self, v) -> bool:
        if isinstance(v, Obj):
            b = v.__dict__.get("_truth")
            return True if b is None else bool(b)
        return bool(v)

    def binop(self, op, a, b):
        try:
            if isinstance(op, ast.Add):
                return a + b
            if isinstance(op, ast.Sub):
                return a - b
            if isinstance(op, ast.Mult):
                return a * b
            if isinstance(op, ast.BitOr):
                return a | b
            if isinstance(op, ast.BitAnd):
                return a & b
            if isinstance(op, ast.Mod):
                return a % b
            if isinstance(op, ast.FloorDiv):
                return a // b
        except TypeError as e:
            raise Raised("TypeError", (str(e),))
        raise AnalysisError(f"abstract interpreter: unsupported operator {type(op).__name__}")

    def ev(self, e, env):
        self.tick()
        if isinstance(e, ast.Constant):
            return e.value
        if isinstance(e, ast.Name):
            if e.id in env:
                return env[e.id]
            if e.id in self.globals:
                return self.globals[e.id]
            if e.id in SAFE_BUILTINS:
                return SAFE_BUILTINS[e.id]
            if e.id in EXC_BASES:
                return e.id
            if self.module is not None:
                if e.id in self.module.assigns:
                    v = self.ev(self.module.assigns[e.id], {})
                    self.globals[e.id] = v
                    return v
                if e.id in getattr(self.module, "classes", {}):
                    ci = self.module.classes[e.id]
                    v = self.make_class(e.id, {m: f.node for m, f in getattr(ci, "methods", {}).items()},
                                        dict(getattr(ci, "assigns", {}) or {}), {})
                    self.globals[e.id] = v
                    return v
                fn = self.module.functions.get(e.id)
                if fn is not None and fn.cls is None and fn.parent is None:
                    v = Closure(self, fn.node, {})
                    self.globals[e.id] = v
                    return v
            raise AnalysisError(f"abstract interpreter: unknown name `{e.id}`")
        if isinstance(e, ast.Yield) and self._yields:
            self._yields[-1].append(self.ev(e.value, env) if e.value is not None else None)
            return None
        if isinstance(e, ast.YieldFrom) and self._yields:
            for x in self.ev(e.value, env):
                self.tick()
                self._yields[-1].append(x)
            return None
        if isinstance(e, ast.Attribute):
            base = self.ev(e.value, env)
            return self.getattr(base, e.attr, e)
        if isinstance(e, ast.Subscript):
            base = self.ev(e.value, env)
            if isinstance(e.slice, ast.Slice):
                lo = self.ev(e.slice.lower, env) if e.slice.lower is not None else None
                hi = self.ev(e.slice.upper, env) if e.slice.upper is not None else None
                return base[lo:hi]
            k = self.ev(e.slice, env)
            try:
                return base[k]
            except KeyError:
                raise Raised("KeyError", (k,))
            except IndexError:
                raise Raised("IndexError", (k,))
            except TypeError as x:
                raise Raised("TypeError", (str(x),))
        if isinstance(e, ast.BoolOp):
            v = None
            for x in e.values:
                v = self.ev(x, env)
                if isinstance(e.op, ast.And) and not self.truth(v):
                    return v
                if isinstance(e.op, ast.Or) and self.truth(v):
                    return v
            return v
        if isinstance(e, ast.UnaryOp):
            v = self.ev(e.operand, env)
            if isinstance(e.op, ast.Not):
                return not self.truth(v)
            if isinstance(e.op, ast.USub):
                return -v
            raise AnalysisError("abstract interpreter: unsupported unary operator")
        if isinstance(e, ast.BinOp):
            return self.binop(e.op, self.ev(e.left, env), self.ev(e.right, env))
        if isinstance(e, ast.IfExp):
            return self.ev(e.body, env) if self.truth(self.ev(e.test, env)) else self.ev(e.orelse, env)
        if isinstance(e, ast.Tuple):
            return tuple(self._elts(e.elts, env))
        if isinstance(e, ast.List):
            return list(self._elts(e.elts, env))
        if isinstance(e, ast.Set):
            return set(self._elts(e.elts, env))
        if isinstance(e, ast.Dict):
            out = {}
            for k, v in zip(e.keys, e.values):
                if k is None:
                    out.update(self.ev(v, env))
                else:
                    out[self.ev(k, env)] = self.ev(v, env)
            return out
        if isinstance(e, ast.Compare):
            left = self.ev(e.left, env)
            for op, c in zip(e.ops, e.comparators):
                right = self.ev(c, env)
                try:
                    if isinstance(op, ast.In):
                        r = left in right
                    elif isinstance(op, ast.NotIn):
                        r = left not in right
                    elif isinstance(op, ast.Is):
                        r = left is right
                    elif isinstance(op, ast.IsNot):
                        r = left is not right
                    elif isinstance(op, ast.Eq):
                        r = left == right
                    elif isinstance(op, ast.NotEq):
                        r = left != right
                    elif isinstance(op, ast.Lt):
                        r = left < right
                    elif isinstance(op, ast.LtE):
                        r = left <= right
                    elif isinstance(op, ast.Gt):
                        r = left > right
                    elif isinstance(op, ast.GtE):
                        r = left >= right
                    else:
                        raise AnalysisError("abstract interpreter: unsupported comparison")
                except TypeError as x:
                    raise Raised("TypeError", (str(x),))
                if not r:
                    return False
                left = right
            return True
        if isinstance(e, ast.Call):
            return self.call(e, env)
        if isinstance(e, ast.JoinedStr):
            parts = []
            for v in e.values:
                if isinstance(v, ast.Constant):
                    parts.append(str(v.value))
                else:
                    parts.append(str(self.ev(v.value, env)))
            return "".join(parts)
        if isinstance(e, ast.Lambda):
            return Closure(self, e, env)
        if isinstance(e, ast.GeneratorExp):
            return self.generator(e, env)          # lazy, like the real thing (next() stops at the first item)
        if isinstance(e, (ast.ListComp, ast.SetComp, ast.DictComp)):
            return self.comprehension(e, env)
        if isinstance(e, ast.Starred):
            return self.ev(e.value, env)
        if isinstance(e, ast.NamedExpr):
            v = self.ev(e.value, env)
            self.assign(e.target, v, env)
            return v
        raise AnalysisError(f"abstract interpreter: unsupported expression `{unparse(e)[:60]}`")

    def _elts(self, elts, env):
        out = []
        for x in elts:
            if isinstance(x, ast.Starred):
                out.extend(self.ev(x.value, env))
            else:
                out.append(self.ev(x, env))
        return out

    def generator(self, e, env):
        def rec(i, env2):
            if i == len(e.generators):
                yield self.ev(e.elt, env2)
                return
            g = e.generators[i]
            for v in self.ev(g.iter, env2):
                env3 = dict(env2)
                self.assign(g.target, v, env3)
                if all(self.truth(self.ev(c, env3)) for c in g.ifs):
                    yield from rec(i + 1, env3)
        return rec(0, dict(env))

    def comprehension(self, e, env):
        out = [] if not isinstance(e, ast.DictComp) else {}
        res_set = isinstance(e, ast.SetComp)

        def rec(i, env2):
            if i == len(e.generators):
                if isinstance(e, ast.DictComp):
                    out[self.ev(e.key, env2)] = self.ev(e.value, env2)
                else:
                    out.append(self.ev(e.elt, env2))
                return
            g = e.generators[i]
            src = self.ev(g.iter, env2)
            for v in (list(src) if isinstance(src, (list, tuple, dict, set, frozenset, str, range)) else src):
                self.tick()
                env3 = dict(env2)
                self.assign(g.target, v, env3)
                if all(self.truth(self.ev(c, env3)) for c in g.ifs):
                    rec(i + 1, env3)
        rec(0, dict(env))
        return set(out) if res_set else out

    def make_class(self, name: str, methods: dict, assigns: dict, closure_env: dict) -> Obj:
        """a class of the analysed module (or a class statement inside an interpreted function) as a modelled class object:
        calling it makes an instance and runs the interpreted __init__; methods, properties and class-level constants are
        found through the instance"""
        cls_obj = Obj(f"class {name}", _is_class=True, _type=type, __name__=name, _methods=dict(methods), _class_assigns=dict(assigns),
                      _closure=closure_env, _mro=(), _interp=self)

        def construct(*a, **k):
            inst = Obj(name, _type=cls_obj, _mro=())
            init = cls_obj.__dict__["_methods"].get("__init__")
            if init is not None:
                self.call_function(init, (inst,) + a, k, closure_env)
            elif a or k:
                raise Raised("TypeError", (f"{name}() takes no arguments",))
            return inst
        cls_obj.__dict__["_call"] = construct
        return cls_obj

    def _class_member(self, owner: Obj, cls_obj: Obj, attr: str):
        """attr looked up on a modelled class: (found, value)"""
        meths = cls_obj.__dict__.get("_methods") or {}
        env = cls_obj.__dict__.get("_closure") or {}
        if attr in meths:
            node = meths[attr]
            decos = [unparse(d) for d in getattr(node, "decorator_list", [])]
            if "property" in decos or "cached_property" in decos:
                return True, self.call_function(node, (owner,), {}, env)
            if "staticmethod" in decos:
                return True, (lambda *a, **k: self.call_function(node, a, k, env))
            if "classmethod" in decos:
                return True, (lambda *a, **k: self.call_function(node, (cls_obj,) + a, k, env))
            if owner is cls_obj:
                return True, (lambda *a, **k: self.call_function(node, a, k, env))
            return True, (lambda *a, **k: self.call_function(node, (owner,) + a, k, env))
        consts = cls_obj.__dict__.get("_class_assigns") or {}
        if attr in consts:
            # a class-level attribute is one object shared by the class and its instances: evaluated once
            v = self.ev(consts[attr], dict(env))
            cls_obj.__dict__[attr] = v
            return True, v
        return False, None

    def getattr(self, base, attr, node=None):
        if isinstance(base, Obj):
            if attr in base.__dict__:
                return base.__dict__[attr]
            if attr == "__class__":
                return base.__dict__.get("_type") or base._cls
            tp = base.__dict__.get("_type")
            if isinstance(tp, Obj) and "_methods" in tp.__dict__:
                if attr in tp.__dict__ and not attr.startswith("_"):
                    return tp.__dict__[attr]
                found, v = self._class_member(base, tp, attr)
                if found:
                    return v
            if base.__dict__.get("_is_class") and "_methods" in base.__dict__:
                found, v = self._class_member(base, base, attr)
                if found:
                    return v
            m = self.methods.get(attr)
            if m is not None:
                return lambda *a, **k: self.call_function(m, (base,) + a, k)
            raise Raised("AttributeError", (attr,))
        if isinstance(base, SAFE_METHOD_OWNERS):
            try:
                return getattr(base, attr)
            except AttributeError:
                raise Raised("AttributeError", (attr,))
        if (isinstance(base, type(ast)) and base.__name__.split(".")[0] in SAFE_MODULES) or isinstance(base, _SAFE_MODULE_VALUES):
            try:
                return getattr(base, attr)
            except AttributeError:
                raise Raised("AttributeError", (attr,))
        if isinstance(base, Closure):
            if attr in base.__dict__ and attr not in ("interp", "node", "env"):
                return base.__dict__[attr]
            raise Raised("AttributeError", (attr,))
        if isinstance(base, Raised):
            if attr == "args":
                return base.args_
            raise Raised("AttributeError", (attr,))
        raise AnalysisError(f"abstract interpreter: attribute `{attr}` of {type(base).__name__}"
                            + (f" in `{unparse(node)[:50]}`" if node is not None else ""))

    def call(self, e: ast.Call, env):
        f = e.func
        args = self._elts(e.args, env)
        kwargs = {}
        for k in e.keywords:
            if k.arg is None:
                kwargs.update(self.ev(k.value, env))
            else:
                kwargs[k.arg] = self.ev(k.value, env)
        if isinstance(f, ast.Name):
            nm = f.id
            if nm == "isinstance":
                return self.isinstance_(args[0], args[1])
            if nm == "issubclass":
                return self.issubclass_(args[0], args[1])
            if nm == "callable" and len(args) == 1 and isinstance(args[0], Obj):
                o = args[0]
                tp = o.__dict__.get("_type")
                return "_call" in o.__dict__ or bool(o.__dict__.get("_is_class")) or (
                    isinstance(tp, Obj) and "__call__" in (tp.__dict__.get("_methods") or {}))
            if nm == "hasattr":
                if isinstance(args[0], (Obj, Closure)):
                    return args[1] in args[0].__dict__
                return hasattr(args[0], args[1]) if isinstance(args[0], SAFE_METHOD_OWNERS) else False
            if nm == "getattr":
                try:
                    return self.getattr(args[0], args[1])
                except Raised:
                    if len(args) > 2:
                        return args[2]
                    raise
                except AnalysisError:
                    if len(args) > 2:
                        return args[2]
                    raise
            if nm == "setattr":
                if isinstance(args[0], Obj):
                    setattr(args[0], args[1], args[2])
                    return None
                raise AnalysisError("abstract interpreter: setattr on a non-modelled object")
            if nm == "type" and len(args) == 1:
                if isinstance(args[0], Obj):
                    return args[0].__dict__["_type"] if args[0].__dict__.get("_type") is not None else args[0]._cls
                return type(args[0])
            if nm == "next":
                it = args[0]
                if isinstance(it, (list, tuple, dict, set, str)):
                    raise Raised("TypeError", ("object is not an iterator",))
                try:
                    return next(it)
                except StopIteration:
                    if len(args) > 1:
                        return args[1]
                    raise Raised("StopIteration")
            if nm == "iter":
                return iter(args[0])
            if nm == "super":
                raise AnalysisError("abstract interpreter: super() is outside the modelled domain")
        fn = self.ev(f, env)
        if isinstance(fn, str) and (fn in EXC_BASES or fn[:1].isupper()):
            return Raised(fn, args)           # exception constructor
        if isinstance(fn, Obj) and "_call" in fn.__dict__:
            fn = fn.__dict__["_call"]        # a modelled callable object (a metaclass, a factory)
        elif isinstance(fn, Obj) and isinstance(fn.__dict__.get("_type"), Obj) \
                and "__call__" in (fn.__dict__["_type"].__dict__.get("_methods") or {}):
            pass                             # an instance of an interpreted class with __call__ (Obj.__call__)
        elif isinstance(fn, Obj):
            raise Raised("TypeError", (f"{fn._cls} object is not callable",))
        if callable(fn):
            try:
                return fn(*args, **kwargs)
            except (Raised, _Return, _Break, _Continue, AnalysisError):
                raise
            except KeyError as x:
                raise Raised("KeyError", x.args)
            except (TypeError, ValueError, IndexError, AttributeError) as x:
                raise Raised(type(x).__name__, x.args)
        raise Raised("TypeError", (f"{fn!r} is not callable",))

    def isinstance_(self, v, spec) -> bool:
        specs = spec if isinstance(spec, tuple) else (spec,)
        for s in specs:
            if s is type:
                if isinstance(v, type) or (isinstance(v, Obj) and v.__dict__.get("_is_class")):
                    return True
            elif isinstance(s, type):
                if isinstance(v, s) and not isinstance(v, Obj):
                    return True
            elif isinstance(s, str):
                if isinstance(v, Obj) and (v._cls == s or s in v.__dict__.get("_bases", ())):
                    return True
                if isinstance(v, Raised) and (v.cls == s or s in v.bases):
                    return True
            elif isinstance(s, Obj) and isinstance(v, Obj):
                if v.__dict__.get("_type") is s or s in v.__dict__.get("_mro", ()):
                    return True
        return False

    def issubclass_(self, c, spec) -> bool:
        if not (isinstance(c, Obj) and c.__dict__.get("_is_class")) and not isinstance(c, type):
            raise Raised("TypeError", ("issubclass() arg 1 must be a class",))
        specs = spec if isinstance(spec, tuple) else (spec,)
        for s in specs:
            if s is c:
                return True
            if isinstance(c, Obj) and s in c.__dict__.get("_mro", ()):
                return True
            if isinstance(c, type) and isinstance(s, type) and issubclass(c, s):
                return True
        return False


def _is_generator_function(node) -> bool:
    todo = list(node.body)
    while todo:
        n = todo.pop()
        if isinstance(n, (ast.Yield, ast.YieldFrom)):
            return True
        if isinstance(n, (ast.FunctionDef, ast.AsyncFunctionDef, ast.Lambda, ast.ClassDef)):
            continue
        todo.extend(ast.iter_child_nodes(n))
    return False


def _as_load(t):
    import copy
    n = copy.deepcopy(t)
    for x in ast.walk(n):
        if hasattr(x, "ctx"):
            x.ctx = ast.Load()
    return n
