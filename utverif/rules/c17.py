"""C17 - forward references and declaration order do not change behaviour (resolution-before-use only).

R17a resolution dominates use at every entry   R17b everything is re-resolved after a successful resolution
R17c the late re-parse keeps constraints and key   R17d conversion-time dereference   R17e local-class reset order
"""
import ast

from ..cfg import analysis, N, E
from ..lib import prov
from ..model import AnalysisError, call_attr, call_name, kwarg, unparse, walk_shallow, norm_stmt, names_in

ENTRIES = [
    ("utype.parser.base", "BaseParser.__call__", ("parse_data",)),
    ("utype.parser.func", "FunctionParser.sync_call", ("get_params",)),
    ("utype.parser.func", "FunctionParser.get_sync_generator.eager_generator", ("get_params",)),
    ("utype.parser.func", "FunctionParser.get_async_generator.eager_generator", ("get_params",)),
    ("utype.parser.func", "FunctionParser.get_async_call.eager_call", ("get_params",)),
]


def resolution_worker(run):
    """the BaseParser method that evaluates the pending references (discovered by the evaluate_forward_ref call)"""
    B = run.repo.cls("utype.parser.base", "BaseParser")
    ws = [m for m in B.methods.values()
          if any(isinstance(c, ast.Call) and call_attr(c) == "evaluate_forward_ref" for c in walk_shallow(m.node))]
    if len(ws) != 1:
        raise AnalysisError(f"BaseParser: expected one method calling evaluate_forward_ref, found {[w.name for w in ws]}")
    return ws[0]


def type_resolvers(run, worker):
    """functions (worker, helpers it calls through self, and their overrides in FunctionParser) that re-resolve types"""
    B = run.repo.cls("utype.parser.base", "BaseParser")
    F = run.repo.cls("utype.parser.func", "FunctionParser")
    out = [worker]
    helper_calls = []
    for c in walk_shallow(worker.node):
        if isinstance(c, ast.Call) and isinstance(c.func, ast.Attribute) and unparse(c.func.value) == "self" \
                and c.func.attr in B.methods and c.func.attr != worker.name and "forward" in c.func.attr:
            helper_calls.append(c)
            out.append(B.methods[c.func.attr])
            if c.func.attr in F.methods:
                out.append(F.methods[c.func.attr])
    return out, helper_calls


def r17a(run):
    for mod, q, uses in ENTRIES:
        f = run.repo.func(mod, q)
        fa = analysis(f)
        rf = [n for n, c in fa.all_calls() if call_attr(c) == "resolve_forward_refs"]
        us = [(n, c) for n, c in fa.all_calls() if call_attr(c) in uses]
        run.floor("R17a", f"uses of the parsed declaration in {q}", len(us), 1)
        ok = bool(rf) and all(any(fa.cfg.dominates(r, n) for r in rf) for n, c in us)
        run.check("R17a", f, f"resolve_forward_refs() dominates {'/'.join(uses)}", ok,
                  construct="entry without forward-ref resolution",
                  message=f"{q}: {'/'.join(uses)} can run before (or without) resolve_forward_refs()",
                  necessity="the first call after a late definition parses against unresolved ForwardRef objects: it "
                            "fails (or behaves differently) while the directly written declaration works")
        # no guard other than the function's own flags in front of the resolution
        for r in rf:
            extra = [b for b in fa.facts.branch_facts(r)]
            run.check("R17a", f, "the resolution is unconditional", not extra,
                      construct="conditional forward-ref resolution", message=f"{q}: resolve_forward_refs() runs only "
                      f"under " + ", ".join(f"{unparse(b.test)}={b.polarity}" for b in extra), node=r.ast)


def r17b(run):
    f = resolution_worker(run)
    fa = analysis(f)
    resolvers, helper_calls = type_resolvers(run, f)
    # roles, whatever the locals are called: the "something was resolved" flag (a local set to False, then to True) and
    # the reference under evaluation (the first argument of evaluate_forward_ref)
    def const_assigned(val):
        return {n.ast.targets[0].id for n in fa.cfg.nodes if n.kind == "stmt" and isinstance(n.ast, ast.Assign)
                and len(n.ast.targets) == 1 and isinstance(n.ast.targets[0], ast.Name)
                and isinstance(n.ast.value, ast.Constant) and n.ast.value.value is val}
    flags = sorted(const_assigned(True) & const_assigned(False))
    # ... or a collection of what was resolved: the name the worker's return value is made of, initialised empty / False and
    # made truthy (set to True, appended to) along the way
    ret_names = set()
    for n in fa.cfg.nodes:
        if n.kind == "stmt" and isinstance(n.ast, ast.Return) and n.ast.value is not None and fa.cfg.is_live(n):
            ret_names |= set(names_in(n.ast.value))

    def _falsy_init(v):
        return (isinstance(v, ast.Constant) and not v.value) or (isinstance(v, (ast.List, ast.Set, ast.Dict, ast.Tuple))
                                                                 and not getattr(v, "elts", getattr(v, "keys", None))) \
            or (isinstance(v, ast.Call) and isinstance(v.func, ast.Name) and v.func.id in ("list", "set", "dict") and not v.args)
    inits = {n.ast.targets[0].id for n in fa.cfg.nodes if n.kind == "stmt" and isinstance(n.ast, ast.Assign)
             and len(n.ast.targets) == 1 and isinstance(n.ast.targets[0], ast.Name) and _falsy_init(n.ast.value)}
    grown = {c.func.value.id for n, c in fa.all_calls() if isinstance(c.func, ast.Attribute) and isinstance(c.func.value, ast.Name)
             and c.func.attr in ("append", "add")} | const_assigned(True)
    indicator = sorted(ret_names & inits & grown)
    if len(indicator) == 1:
        flags = indicator
    evs = [c for n, c in fa.all_calls() if call_name(c) == "evaluate_forward_ref" and c.args]
    if len(flags) != 1 or not evs:
        raise AnalysisError(f"R17b: resolution worker {f.name}: flag locals {flags}, evaluate_forward_ref calls {len(evs)}")
    FLAG, REF = flags[0], unparse(evs[0].args[0])
    EVAL = f"{REF}.__forward_evaluated__"
    loops = [n for n in fa.cfg.nodes if n.kind == "iter" and "self.fields" in unparse(n.ast)]
    calls = [n for n, c in fa.all_calls() if call_attr(c) == "resolve_forward_refs" and unparse(c.func.value) != "self"]
    ok = bool(loops) and bool(calls) and all(any(x is c.ast or x is getattr(c, 'stmt', None) for x in walk_shallow(loops[0].stmt))
                                             for c in calls)
    run.check("R17b", f, "after a resolution every field re-resolves its types", ok, construct="fields not re-resolved",
              message=f"BaseParser.{f.name} no longer calls field.resolve_forward_refs() for every field",
              necessity="fields keep the ForwardRef object as their type: the same name used in several annotations "
                        "resolves for one field only")
    guard_ok = bool(loops) and any(unparse(a) == FLAG and p for a, p in fa.facts.atoms_at(loops[0]))
    run.check("R17b", f, "the re-resolution runs whenever something was resolved", guard_ok, construct="re-resolution guard",
              message="the fields loop is not guarded by exactly `resolved`")
    add = []
    for g in resolvers:
        if g.cls is not None and g.cls.name != "BaseParser":
            continue
        ga = analysis(g)
        for n in ga.cfg.nodes:
            if n.kind == "stmt" and isinstance(n.ast, ast.Assign) and "self.addition_type" in unparse(n.ast.targets[0]) \
                    and "resolve_forward_type" in unparse(n.ast.value):
                if g is f:
                    add.append(any(unparse(a) == FLAG and p for a, p in ga.facts.atoms_at(n)))
                else:
                    hc = [c for c in helper_calls if c.func.attr == g.name]
                    hn = [n2 for n2, c2 in fa.all_calls() if any(c2 is c for c in hc)]
                    add.append(bool(hn) and all(any(unparse(a) == FLAG and p for a, p in fa.facts.atoms_at(n2))
                                                and all(unparse(a) == FLAG for a, p in fa.facts.atoms_at(n2))
                                                for n2 in hn))
    run.check("R17b", f, "the addition type is re-resolved too (whenever something was resolved)", bool(add) and all(add),
              construct="addition type not re-resolved",
              message="first-use resolution does not re-resolve self.addition_type under `resolved`",
              necessity="**kwargs: 'Later' keeps converting against an unresolved reference")
    # resolved flag is set exactly when a reference evaluated
    sets = [n for n in fa.cfg.nodes if n.kind == "stmt" and isinstance(n.ast, ast.Assign)
            and unparse(n.ast.targets[0]) == FLAG and isinstance(n.ast.value, ast.Constant) and n.ast.value.value is True]
    sets += [n for n, c in fa.all_calls() if isinstance(c.func, ast.Attribute) and unparse(c.func.value) == FLAG
             and c.func.attr in ("append", "add")]
    def _under_eval(n) -> bool:
        if any(unparse(a) == EVAL and p for a, p in fa.facts.atoms_at(n)):
            return True
        # on every class of paths reaching the statement (the evaluation may sit in a helper whose verdict is tested)
        pf = fa.paths_all()
        ds = pf.disjuncts_at(n)
        return bool(ds) and all(d.get(EVAL) is True for d in ds)      # a collapsed node has lost the literal: fails safe
    ok = bool(sets) and all(_under_eval(n) for n in sets)
    run.check("R17b", f, "`resolved` is set for every successfully evaluated reference", ok, construct="resolved flag",
              message="`resolved = True` is not set under `ref.__forward_evaluated__`")
    # a reference leaves the pending table only once evaluated: a guarded pop, or a pop over a list that the worker
    # only appends to under the evaluated flag
    B = run.repo.cls("utype.parser.base", "BaseParser")
    pops_total = 0
    for m in B.methods.values():
        ma = analysis(m)
        for n, c in ma.all_calls():
            if call_attr(c) in ("pop", "popitem", "clear") and isinstance(c.func, ast.Attribute) \
                    and unparse(c.func.value) == "self.forward_refs":
                pops_total += 1
                ok = any(unparse(a) == EVAL and p for a, p in ma.facts.atoms_at(n))
                if not ok:
                    loops_ = [b for b in ma.cfg.dominators()[n] if b.kind == "branch" and b.is_for and b.polarity]
                    if loops_ and isinstance(loops_[-1].stmt.iter, ast.Name) and c.args \
                            and unparse(c.args[0]) == unparse(loops_[-1].stmt.target):
                        lst = loops_[-1].stmt.iter.id
                        # the list is handed to the worker, which appends under the evaluated flag only
                        passed = [c2 for n2, c2 in ma.all_calls() if call_attr(c2) == f.name
                                  and any(isinstance(a, ast.Name) and a.id == lst for a in c2.args)]
                        if passed:
                            idx = [i for i, a in enumerate(passed[0].args) if isinstance(a, ast.Name) and a.id == lst][0]
                            pname = f.params[idx + 1] if len(f.params) > idx + 1 else None
                            apps = [(n3, c3) for n3, c3 in fa.all_calls() if call_attr(c3) == "append"
                                    and unparse(c3.func.value) == pname]
                            ok = bool(apps) and all(_under_eval(n3) for n3, c3 in apps)
                run.check("R17b", m, "a reference leaves the pending table only once evaluated", ok, construct="pending table",
                          message=f"`{unparse(c)}` in {m.name} is not tied to the evaluated flag", node=c)
    run.floor("R17b", "removals from the pending table", pops_total, 1)
    g = run.repo.func("utype.parser.field", "ParserField.resolve_forward_refs")
    txt = unparse(g.node)
    ok = "self.type, " in txt and "self.output_type, " in txt and txt.count("resolve_forward_type") >= 2
    run.check("R17b", g, "a field re-resolves both its input type and its output type", ok, construct="field types",
              message="ParserField.resolve_forward_refs does not re-resolve both self.type and self.output_type")
    F = run.repo.cls("utype.parser.func", "FunctionParser")
    hs = [m for m in F.methods.values() if "self.position_type, " in unparse(m.node) and "self.return_type, " in unparse(m.node)
          and unparse(m.node).count("resolve_forward_type") >= 2]
    ok = False
    h = hs[0] if hs else F.methods.get("resolve_forward_refs") or f
    if hs:
        # reached from the worker: an override of a helper the worker calls (calling super), or an override of
        # resolve_forward_refs that first calls super()
        sup = [c for c in walk_shallow(h.node) if isinstance(c, ast.Call) and call_attr(c) == h.name
               and isinstance(c.func, ast.Attribute) and unparse(c.func.value) == "super()"]
        ok = bool(sup) and (h.name in [c.func.attr for c in helper_calls] or h.name == "resolve_forward_refs")
    run.check("R17b", h, "functions re-resolve the *args type and the return type", ok, construct="function types",
              message="FunctionParser does not re-resolve position_type / return_type as part of first-use resolution",
              necessity="-> 'Later' return annotations are never enforced")
    k = run.repo.func("utype.parser.rule", "resolve_forward_type")
    ka = analysis(k)
    ok = any(n.kind == "stmt" and isinstance(n.ast, ast.Return) and "__forward_value__" in unparse(n.ast.value)
             and any(unparse(a) == "t.__forward_evaluated__" and p for a, p in ka.facts.atoms_at(n)) for n in ka.cfg.nodes)
    run.check("R17b", k, "resolve_forward_type hands out the evaluated value of a reference", ok, construct="resolve_forward_type",
              message="resolve_forward_type does not return t.__forward_value__ for an evaluated reference")
    ok = any(isinstance(c, ast.Call) and call_attr(c) == "resolve_forward_refs" for c in walk_shallow(k.node))
    run.check("R17b", k, "nested logical / generic types are resolved recursively", ok, construct="nested resolution",
              message="resolve_forward_type does not descend into LogicalType arguments",
              necessity="references inside List[...] / Optional[...] / unions stay unresolved")


def r17c(run):
    f = resolution_worker(run)
    fa = analysis(f)
    pa = [(n, c) for n, c in fa.all_calls() if call_attr(c) == "parse_annotation"]
    run.floor("R17c", "re-parse of a resolved reference", len(pa), 1)
    for n, c in pa:
        cons = kwarg(c, "constraints")
        key = kwarg(c, "forward_key")
        refs = kwarg(c, "forward_refs")
        gl = kwarg(c, "global_vars")
        ok_c = isinstance(cons, ast.Name) and any(o.kind in ("unpack", "iter-unpack", "sub") and "forward_refs" in o.text
                                                  for o in prov(fa).of_name(n, cons.id))
        run.check("R17c", f, "the late re-parse applies the constraints declared with the reference", ok_c,
                  construct="constraints dropped at late resolution",
                  message=f"`{unparse(c)[:70]}` re-parses the resolved annotation without the constraints stored with "
                          f"the pending reference",
                  necessity="`qty: 'Quantity' = Field(le=10)` loses le=10 when Quantity is defined after the class; "
                            "the directly written declaration enforces it", node=c)
        ok_k = key is not None and isinstance(key, ast.Name) and refs is not None and gl is not None
        run.check("R17c", f, "the late re-parse keeps the key, the pending table and the globals", ok_k,
                  construct="late re-parse arguments", message=f"`{unparse(c)[:70]}` does not pass forward_key / "
                  f"forward_refs / global_vars", necessity="nested references of the resolved type are registered under "
                  "a wrong key or not at all", node=c)
        # the result replaces the reference's value
        ok_a = n.kind == "stmt" and isinstance(n.ast, ast.Assign) and "__forward_value__" in unparse(n.ast.targets[0])
        run.check("R17c", f, "the parsed type becomes the reference's value", ok_a, construct="re-parse result unused",
                  message=f"`{norm_stmt(n.ast)[:70]}` does not store the parsed type in ref.__forward_value__", node=c)
    # registration keeps the constraints
    g = run.repo.func("utype.parser.rule", "register_forward_ref")
    sd = [c for c in walk_shallow(g.node) if isinstance(c, ast.Call) and call_attr(c) == "setdefault"]
    ok = bool(sd) and all(len(c.args) == 2 and isinstance(c.args[1], ast.Tuple) and
                          [unparse(e) for e in c.args[1].elts] == ["annotation", "constraints"] for c in sd)
    run.check("R17c", g, "a pending reference is stored together with its constraints", ok, construct="pending entry shape",
              message="register_forward_ref does not store (annotation, constraints)")
    def _key_text(c):
        """the key expression with the definitions of the names it is made of (followed through copies and helpers analysed
        in place, three levels)"""
        t = unparse(c.args[0])
        ga = analysis(g)
        seen, todo = set(), set(names_in(c.args[0]))
        for _round in range(3):
            nxt = set()
            for n in ga.cfg.nodes:
                if n.kind == "stmt" and isinstance(n.ast, (ast.Assign, ast.AugAssign)):
                    tg = n.ast.targets[0] if isinstance(n.ast, ast.Assign) else n.ast.target
                    if isinstance(tg, ast.Name) and tg.id in todo and (tg.id, id(n)) not in seen:
                        seen.add((tg.id, id(n)))
                        t += " " + unparse(n.ast.value)
                        nxt |= set(names_in(n.ast.value))
            todo = nxt - {x for x, _ in seen}
            if not todo:
                break
        return t
    ok = bool(sd) and all("forward_key" in _key_text(c) and "__forward_arg__" in _key_text(c) for c in sd)
    run.check("R17c", g, "pending references are keyed per field (so that one name used twice keeps both constraint sets)",
              ok, construct="pending key", message="register_forward_ref no longer keys by `$forward_key`",
              necessity="a: 'T' = Field(gt=1); b: 'T' = Field(gt=2) would share one pending entry")


def r17d(run):
    T = run.repo.cls("utype.utils.transform", "TypeTransformer")
    for name in ("apply", "__call__"):
        f = T.methods[name]
        fa = analysis(f)
        t = f.params[2]
        # the evaluated value of the target is bound (to the parameter itself, or to a local that is then dispatched on)
        deref = [n for n in fa.cfg.nodes if n.kind == "stmt" and isinstance(n.ast, ast.Assign)
                 and isinstance(n.ast.targets[0], ast.Name) and unparse(n.ast.value) == f"{t}.__forward_value__"]
        ok = len(deref) == 1 and any(unparse(a) == f"isinstance({t}, ForwardRef)" and p
                                     for a, p in fa.facts.atoms_at(deref[0]))
        run.check("R17d", f, f"{name}: a ForwardRef target is replaced by its evaluated value", ok,
                  construct=f"{name} no dereference", message=f"TypeTransformer.{name} does not dereference ForwardRef targets",
                  necessity="conversion against a reference object instead of the class it names")
        if not ok:
            continue
        raises = [n for n in fa.cfg.nodes if n.kind == "stmt" and isinstance(n.ast, ast.Raise)
                  and any(unparse(a) == f"{t}.__forward_evaluated__" and not p for a, p in fa.facts.atoms_at(n))]
        run.check("R17d", f, f"{name}: an unevaluated reference is an error, never silently accepted", bool(raises),
                  construct=f"{name} unevaluated reference", message=f"TypeTransformer.{name} does not raise for an "
                  f"unevaluated ForwardRef")
        # the dereference happens before the registry / function dispatch
        disp = [n for n, c in fa.all_calls() if call_attr(c) in ("resolver_transformer",) or
                (isinstance(c.func, ast.Name) and c.func.id in ("func", "transformer"))]
        ok2 = bool(disp) and all(not fa.cfg.can_reach(d, deref[0]) for d in disp)
        run.check("R17d", f, f"{name}: the dereference precedes the dispatch", ok2, construct=f"{name} dispatch order",
                  message=f"TypeTransformer.{name} dispatches before dereferencing the ForwardRef")


def r17e(run):
    f = resolution_worker(run)
    fa = analysis(f)
    resolvers, helper_calls = type_resolvers(run, f)
    clears = [n for n in fa.cfg.nodes if n.kind == "stmt" and isinstance(n.ast, ast.Assign)
              and unparse(n.ast.targets[0]) == "ref.__forward_evaluated__" and isinstance(n.ast.value, ast.Constant)
              and n.ast.value.value is False]
    floop = [n for n in fa.cfg.nodes if n.kind == "iter" and "self.fields" in unparse(n.ast)]
    hnodes = [n for n, c in fa.all_calls() if any(c is hc for hc in helper_calls)]
    if clears:
        ok = all(any(unparse(a) == "self.is_local" and p for a, p in fa.facts.atoms_at(c)) for c in clears)
        run.check("R17e", f, "evaluated references are reset only for local (function-scoped) declarations", ok,
                  construct="reset outside local scope", message="ForwardRef objects are reset for non-local declarations",
                  necessity="module-level references would be re-evaluated / unresolved on the next use")
        ok = bool(floop) and all(not fa.cfg.can_reach(c, x) for c in clears for x in floop + hnodes)
        run.check("R17e", f, "the reset happens after the fields (and the other declared types) have picked up the "
                             "resolved types", ok,
                  construct="reset before re-resolution", message="the local-scope reset of ForwardRef objects can run "
                  "before the fields re-resolve their types", necessity="local classes keep unresolved field types")
    g = run.repo.cls("utype.parser.cls", "ClassParser").methods.get("globals")
    if g is None:
        raise AnalysisError("ClassParser.globals not found")
    gfa = analysis(g)
    inj = [n for n in gfa.cfg.nodes if n.kind == "stmt" and isinstance(n.ast, ast.Assign)
           and isinstance(n.ast.targets[0], ast.Subscript) and unparse(n.ast.value) == "self.obj"]
    rets = [n for n in gfa.cfg.nodes if n.kind == "stmt" and isinstance(n.ast, ast.Return) and gfa.cfg.is_live(n)]
    ok = bool(inj) and all(any(gfa.cfg.dominates(i, r) for i in inj) for r in rets) and all(
        isinstance(r.ast.value, ast.Name) and unparse(inj[0].ast.targets[0].value) == r.ast.value.id for r in rets)
    run.check("R17e", g, "a class can always resolve its own name (every namespace handed out has it injected)", ok,
              construct="own name not injected", message="ClassParser.globals can return a namespace without the class "
              "injected under its own name (or injects into another mapping than the one returned)",
              necessity="a self-reference resolves to whatever the module binds under that name: nothing for a class "
                        "declared inside another class body (NameError), an older class of the same name otherwise")
    c0 = run.repo.func("utype.parser.base", "BaseParser.__call__")
    calls = [c for c in walk_shallow(c0.node) if isinstance(c, ast.Call) and call_attr(c) == "resolve_forward_refs"]
    ok = bool(calls) and all(isinstance(kwarg(c, "ignore_errors"), ast.Constant) and kwarg(c, "ignore_errors").value is False
                             for c in calls)
    run.check("R17e", c0, "data-class parsing reports evaluation errors of a reference instead of ignoring them", ok,
              construct="ignore_errors at parse time", message="BaseParser.__call__ resolves with ignore_errors != False")


def r17f(run):
    """each annotation keeps its own pending reference object: the entry stored for a field is the reference written
    in that field's annotation (the late rewrite of __forward_value__ is per entry, with that entry's constraints)"""
    g = run.repo.func("utype.parser.rule", "register_forward_ref")
    ga = analysis(g)
    sd = [(n, c) for n, c in ga.all_calls() if call_attr(c) == "setdefault" and "forward_refs" in unparse(c.func.value)]
    run.floor("R17f", "pending-table stores in register_forward_ref", len(sd), 1)
    for n, c in sd:
        tup = c.args[1] if len(c.args) > 1 else None
        ref_expr = tup.elts[0] if isinstance(tup, ast.Tuple) and tup.elts else None
        ok = False
        why = "the stored entry is not (annotation, constraints)"
        if isinstance(ref_expr, ast.Name):
            os_ = prov(ga).of_name(n, ref_expr.id)
            foreign = [o for o in os_ if not (o.kind == "param" and o.text == g.params[0]
                                              or o.kind == "attr" and o.text.startswith(g.params[0] + ".")
                                              or o.kind == "call" and any(isinstance(a, ast.Name) and a.id in (g.params[0], "ref")
                                                                          for a in o.node.args))]
            ok = not foreign
            why = "the stored reference can be another pending entry's object: " + ", ".join(
                f"{o.kind}:{o.text[:40]}" for o in foreign)
        run.check("R17f", g, "the pending entry holds the reference object of the annotation being registered", ok,
                  construct="pending entry shares another annotation's reference object",
                  message=f"register_forward_ref: `{unparse(c)[:70]}`: {why}",
                  necessity="resolution rewrites ref.__forward_value__ once per pending entry with that entry's "
                            "constraints; with one object shared by `low: 'Score' = Field(le=10)` and `high: 'Score' = "
                            "Field(le=20)` the last rewrite wins and both fields lose / swap their constraints", node=c)


def r17g(run):
    """the evaluation of a reference passes the caller's namespaces through unchanged (typing only re-evaluates an
    already evaluated reference when localns is not globalns)"""
    m = run.repo.module("utype.utils.compat")
    fs = [f for f in m.functions.values() if f.name == "evaluate_forward_ref"]
    run.floor("R17g", "definitions of evaluate_forward_ref", len(fs), 1)
    for f in fs:
        fa = analysis(f)
        if len(f.params) < 3:
            raise AnalysisError("evaluate_forward_ref does not take (ref, globalns, localns)")
        g_, l_ = f.params[1], f.params[2]
        calls = [(n, c) for n, c in fa.all_calls() if call_attr(c) in ("_eval_type", "_evaluate", "evaluate_forward_ref")]
        run.floor("R17g", "typing evaluation calls", len(calls), 1)
        for n, c in calls:
            names = [a.id for a in c.args if isinstance(a, ast.Name)]
            ok = g_ in names and l_ in names and fa.rd.is_param_only(n, g_) and fa.rd.is_param_only(n, l_)
            run.check("R17g", f, "the namespaces reach typing's evaluation unchanged", ok,
                      construct="namespace rewritten before evaluation",
                      message=f"evaluate_forward_ref: `{unparse(c)[:60]}` does not receive the caller's `{g_}` / `{l_}` as given",
                      necessity="with localns aliased to globalns an already evaluated ForwardRef keeps its cached value: "
                                "List['Item'] is one shared object in every module that spells it, so the second module's "
                                "class parses its entries with the first module's Item", node=c)


def r17h(run):
    """the pending table never loses a reference object: a key that several objects can share (the bare name) is
    disambiguated by the identity of what is stored under it before the entry is written"""
    g = run.repo.func("utype.parser.rule", "register_forward_ref")
    ga = analysis(g)
    ann = g.params[0]
    sd = [(n, c) for n, c in ga.all_calls() if call_attr(c) in ("setdefault",) and "forward_refs" in unparse(c.func.value)]
    st = [(n, n.ast) for n in ga.cfg.nodes if n.kind == "stmt" and isinstance(n.ast, ast.Assign)
          and isinstance(n.ast.targets[0], ast.Subscript) and "forward_refs" in unparse(n.ast.targets[0].value)]
    run.floor("R17h", "pending-table stores", len(sd) + len(st), 1)
    for n, c in sd:
        # setdefault keeps the *old* entry when the key exists: fine only if an identity test against the stored
        # object (or an identity-based key) separates distinct reference objects of one name
        ident = False
        for m in ga.cfg.nodes:
            if m.kind == "test" and ga.cfg.can_reach(m, n) and "forward_refs" in unparse(m.ast):
                for x in ast.walk(m.ast):
                    if isinstance(x, ast.Compare) and isinstance(x.ops[0], (ast.Is, ast.IsNot)) and ann in names_in(x):
                        ident = True
        keytxt = unparse(c.args[0]) if c.args else ""
        if "id(" in keytxt:
            ident = True
        run.check("R17h", g, "distinct reference objects of one name get distinct pending entries", ident,
                  construct="pending entries collide on the reference's name",
                  message=f"register_forward_ref: `{unparse(c)[:70]}` keeps whatever is already stored under the key; the key "
                          f"of a nested reference is its bare name, so a second reference object of the same name is "
                          f"never entered and never evaluated",
                  necessity="class A: one: Optional['B']; many: List['B'] (B defined later): A(...) fails with "
                            "ForwardRef('B') not evaluated, while the same class written after B works", node=c)


def r17i(run):
    """fields inherited from a base class are pending in the *base* parser's table: a class parser that copies the fields
    of its bases must also get those references resolved (by resolving the base parsers before itself, or by taking over
    their pending entries)"""
    C = run.repo.cls("utype.parser.cls", "ClassParser")
    g = C.methods.get("generate_from_bases")
    if g is None:
        raise AnalysisError("ClassParser.generate_from_bases not found")
    copies = [c for c in walk_shallow(g.node) if isinstance(c, ast.Call) and call_attr(c) == "update" and c.args
              and isinstance(c.args[0], ast.Attribute) and c.args[0].attr == "fields"]
    run.floor("R17i", "field tables copied from base parsers", len(copies), 1)
    takes_over = any(isinstance(c, ast.Call) and call_attr(c) in ("update", "setdefault") and c.args
                     and any(isinstance(x, ast.Attribute) and x.attr == "forward_refs" for x in ast.walk(c.args[0]))
                     for c in walk_shallow(g.node))
    r = C.methods.get("resolve_forward_refs")
    chained = False
    if r is not None:
        ra = analysis(r)
        base_calls = [(n, c) for n, c in ra.all_calls() if call_attr(c) == "resolve_forward_refs"
                      and unparse(c.func.value) not in ("self", "super()")]
        sup = [(n, c) for n, c in ra.all_calls() if call_attr(c) == "resolve_forward_refs" and unparse(c.func.value) == "super()"]
        def reaches_all_levels(n, c):
            for b in ra.cfg.dominators()[n]:
                if b.kind == "branch" and b.is_for and b.polarity:
                    it = unparse(b.stmt.iter)
                    if "__mro__" in it:
                        return True         # every ancestor is visited here
                    if "__bases__" in it:
                        # direct bases only: the call must be the base parser's *own* (overriding, hence recursive) method,
                        # not the plain implementation called on it
                        return isinstance(c.func.value, ast.Name) and not c.func.value.id[:1].isupper()
            return False
        over_bases = bool(base_calls) and all(reaches_all_levels(n, c) for n, c in base_calls)
        # no guard that skips a base whose own table is empty: its bases may still hold pending entries
        unguarded = all(not any("forward_refs" in unparse(a) for a, p in ra.facts.atoms_at(n)) for n, c in base_calls)
        chained = bool(base_calls) and bool(sup) and over_bases and unguarded
    run.check("R17i", r if r is not None else g, "inherited fields get the late references of their declaring class resolved",
              takes_over or chained, construct="pending references of base classes never resolved for a subclass",
              message="ClassParser copies the fields of its base parsers (generate_from_bases) but neither takes over their "
                      "pending forward references nor resolves every base parser (through all levels) before itself",
              necessity="class Base(Schema): later: Optional['Later']; class Sub(Base): ... ; using Sub before Base fails "
                        "with ForwardRef('Later') not evaluated - the same declaration works when Base is used first")


def r17j(run):
    """a 'something was resolved' flag that is tested after a loop must accumulate over the iterations: a flag that each
    iteration overwrites holds the verdict of the last element only"""
    total = 0
    for modname in ("utype.parser.rule", "utype.parser.base", "utype.parser.field", "utype.parser.func", "utype.parser.cls"):
        for f in run.repo.module(modname).functions.values():
            fa = analysis(f)
            for lp in [n for n in fa.cfg.nodes if n.kind == "iter"]:
                entry = [s_ for s_, k in lp.succ if s_.kind == "branch" and s_.polarity]
                if not entry:
                    continue
                body = fa.cfg.reach_from_succ(entry[0], kinds=(N,), avoid=[lp]) | {entry[0]}
                for n in body:
                    if n.kind != "stmt" or not isinstance(n.ast, ast.Assign):
                        continue
                    for tg in n.ast.targets:
                        for x in ast.walk(tg):
                            if not (isinstance(x, ast.Name) and isinstance(x.ctx, ast.Store)):
                                continue
                            v = x.id
                            inits = [d for d in fa.cfg.nodes if d.kind == "stmt" and isinstance(d.ast, ast.Assign)
                                     and len(d.ast.targets) == 1 and isinstance(d.ast.targets[0], ast.Name)
                                     and d.ast.targets[0].id == v and isinstance(d.ast.value, ast.Constant)
                                     and isinstance(d.ast.value.value, bool) and d not in body]
                            if not inits:
                                continue
                            total += 1
                            # accumulating forms: `flag = True` (a constant), or an expression that reads the flag itself
                            acc = isinstance(n.ast.value, ast.Constant) or v in names_in(n.ast.value)
                            used_after = any(m not in body and m.ast is not None and v in names_in(m.ast)
                                             and fa.cfg.can_reach(lp, m) and m not in inits for m in fa.cfg.nodes
                                             if m.kind in ("test", "stmt"))
                            run.check("R17j", f, f"the loop flag `{v}` accumulates over the iterations", acc or not used_after,
                                      construct=f"loop flag {v} overwritten by every iteration",
                                      message=f"{f.qualname}: `{norm_stmt(n.ast)[:70]}` overwrites `{v}` in every iteration of the "
                                              f"loop; the test after the loop sees the last element's verdict only",
                                      necessity="Optional['X'] has the arguments (X, None): the last one resolves nothing, so "
                                                "the resolved X is never written back into the type - it only works while the "
                                                "reference object stays evaluated (not for classes declared in a function)",
                                      node=n.ast)
    run.floor("R17j", "boolean flags assigned inside loops of the parser", total, 5)


def r17k(run):
    """re-resolution reaches every place a reference can sit in a constrained type: its arguments and its (combined) origin"""
    f = run.repo.func("utype.parser.rule", "Rule.resolve_forward_refs")
    fa = analysis(f)
    origin = [(n, c) for n, c in fa.all_calls() if call_attr(c) == "resolve_forward_refs" and "__origin__" in unparse(c.func.value)]
    early = [n for n in fa.cfg.nodes if n.kind == "stmt" and isinstance(n.ast, ast.Return) and fa.cfg.is_live(n)
             and not any(fa.cfg.can_reach(o, n) or fa.cfg.dominates(o, n) for o, _ in origin)]
    run.check("R17k", f, "a constrained type re-resolves the references inside its combined origin on every path",
              bool(origin) and not early, construct="references in a combined origin are not re-resolved",
              message="Rule.resolve_forward_refs " + ("never descends into cls.__origin__" if not origin else
                                                      "returns before descending into cls.__origin__"
                                                      + (f" (`{norm_stmt(early[0].ast)}`)" if early else "")),
              necessity="a field annotated Optional['X'] is Rule[AnyOf(ForwardRef('X'), None)]: the reference sits in the "
                        "origin, the rule has no arguments - it is never replaced")


def check(run):
    run.rules_run += ["R17a", "R17b", "R17c", "R17d", "R17e", "R17f", "R17g", "R17h", "R17i", "R17j", "R17k"]
    run.explain("C17 (resolution-before-use; equivalence with the direct declaration is value-level and undecided): "
                "(R17a) resolve_forward_refs unconditionally dominates parse_data / get_params at all five entries; "
                "(R17b) after a resolution every field (input and output type), the addition type, *args and return "
                "types are re-resolved, nested types recursively; (R17c) the late re-parse applies the constraints, key, "
                "pending table and globals stored with the pending reference; (R17d) apply/__call__ dereference an "
                "evaluated ForwardRef before dispatch and raise for an unevaluated one; (R17e) local-scope resets happen "
                "after re-resolution, classes can resolve their own name.")
    run.rule(r17a, run)
    run.rule(r17b, run)
    run.rule(r17c, run)
    run.rule(r17d, run)
    run.rule(r17e, run)
    run.rule(r17f, run)
    run.rule(r17g, run)
    run.rule(r17h, run)
    run.rule(r17i, run)
    run.rule(r17j, run)
    run.rule(r17k, run)
    # shared with C16: a class is looked up in the converter registry while it is still being set up (self-reference);
    # the lookup after set-up only recovers if the memo holds positive answers only
    from . import c16
    run.rules_run.append("R16d")
    run.rule(c16.r16d, run, c16.registry_class(run))
    # round 8: shared helpers decided as tables (helper_table.py)
    from . import helper_table as _ht
    run.rules_run.append("R17l")
    run.rule(_ht.r_local, run)
