"""C02 - validation is exact on well-typed values and agrees with isinstance.

R02a operator table of the strict validators   R02b identity on accept   R02c isinstance delegates to the parser
R02d constraint-name agreement across declaration sites
"""
import ast
from typing import Dict, List, Optional, Set, Tuple

from ..cfg import target_names, analysis, FuncAnalysis, Node, N, E, decompose, handler_type_names
from ..lib import prov, exception_family
from ..model import AnalysisError, FuncInfo, call_attr, call_name, kwarg, unparse, walk_shallow, norm_stmt, names_in

NEG = {"<": ">=", "<=": ">", ">": "<=", ">=": "<", "==": "!=", "!=": "==", "in": "not in", "not in": "in"}
SWAP = {"<": ">", "<=": ">=", ">": "<", ">=": "<=", "==": "==", "!=": "!="}
OPS = {ast.Lt: "<", ast.LtE: "<=", ast.Gt: ">", ast.GtE: ">=", ast.Eq: "==", ast.NotEq: "!=", ast.In: "in",
       ast.NotIn: "not in"}

# documented relation of each strict constraint (docs/en/references/rule.md), as the *reject* condition:
# (quantity, operator, "bound")
K_OPS = {
    "gt": ("value", "<="), "ge": ("value", "<"), "lt": ("value", ">="), "le": ("value", ">"),
    "length": ("len", "!="), "max_length": ("len", ">"), "min_length": ("len", "<"),
    "max_digits": ("digits", ">"), "decimal_places": ("decimals", ">"),
    "enum": ("value", "not in"), "const": ("value", "!="),
}


def constraint_names(run) -> List[str]:
    R = run.repo.cls("utype.parser.rule", "Rule")
    v = R.assigns.get("__constraints__")
    if not isinstance(v, (ast.List, ast.Tuple)):
        raise AnalysisError("Rule.__constraints__ is not a list literal")
    return [e.value for e in v.elts if isinstance(e, ast.Constant)]


def quantity(fa: FuncAnalysis, n: Node, e, value: str) -> Optional[str]:
    """classify the measured expression: value / len / digits / decimals"""
    if isinstance(e, ast.Name):
        if e.id == value and fa.rd.is_param_only(n, value):
            return "value"
        os_ = prov(fa).of_name(n, e.id)
        if e.id == value and os_ and all(o.kind == "param" or (o.kind == "attr" and o.text == f"{value}.value")
                                         for o in os_):
            return "value"      # Enum members are compared by their .value (documented)
        if os_ and all(o.kind == "unpack" and o.node is not None and isinstance(o.node, ast.Call)
                       and call_attr(o.node) == "_parse_decimal" for o in os_):
            # position in the unpacking target
            for o in os_:
                st = o.at.ast
                if isinstance(st, ast.Assign) and isinstance(st.targets[0], ast.Tuple):
                    names = [t.id for t in st.targets[0].elts if isinstance(t, ast.Name)]
                    arg_ok = o.node.args and isinstance(o.node.args[0], ast.Name) and o.node.args[0].id == value
                    if e.id in names and arg_ok:
                        return ("digits", "decimals")[names.index(e.id)] if names.index(e.id) < 2 else None
        # alias of the value (v = value)
        if os_ and all(o.kind == "param" and o.text == value or
                       (o.kind == "call" and o.text == "str" and o.node.args and unparse(o.node.args[0]) == value)
                       for o in os_):
            return "value~"
        return None
    if isinstance(e, ast.Call) and call_attr(e) == "len" and len(e.args) == 1:
        q = quantity(fa, n, e.args[0], value)
        if q in ("value", "value~"):
            return "len"
    return None


def reject_relations(fa: FuncAnalysis, f: FuncInfo, value: str, bound: str) -> List[Tuple[str, str, Node]]:
    out = []
    for n in fa.cfg.nodes:
        if n.kind != "stmt" or not isinstance(n.ast, ast.Raise) or not fa.cfg.is_live(n):
            continue
        for b in fa.facts.branch_facts(n):
            for a, p in decompose(b.test, b.polarity):
                if isinstance(a, ast.Compare) and len(a.ops) == 1:
                    op = OPS.get(type(a.ops[0]))
                    if op is None:
                        continue
                    l, r = a.left, a.comparators[0]
                    tn = b.pred[0][0]
                    ql, qr = quantity(fa, tn, l, value), quantity(fa, tn, r, value)
                    lb = isinstance(l, ast.Name) and l.id == bound
                    rb = isinstance(r, ast.Name) and r.id == bound
                    if ql and rb:
                        rel = op if p else NEG[op]
                        out.append((ql.rstrip("~"), rel, n))
                    elif qr and lb and op in SWAP:
                        rel = SWAP[op] if p else NEG[SWAP[op]]
                        out.append((qr.rstrip("~"), rel, n))
    return out


def accept_relations(fa: FuncAnalysis, f: FuncInfo, value: str, bound: str) -> List[Tuple[str, str, Node]]:
    out = []
    for n in fa.cfg.nodes:
        if n.kind != "stmt" or not isinstance(n.ast, ast.Return) or not fa.cfg.is_live(n):
            continue
        for b in fa.facts.branch_facts(n):
            for a, p in decompose(b.test, b.polarity):
                if isinstance(a, ast.Compare) and len(a.ops) == 1:
                    op = OPS.get(type(a.ops[0]))
                    if op is None:
                        continue
                    l, r = a.left, a.comparators[0]
                    tn = b.pred[0][0]
                    ql, qr = quantity(fa, tn, l, value), quantity(fa, tn, r, value)
                    if ql and isinstance(r, ast.Name) and r.id == bound:
                        out.append((ql.rstrip("~"), op if p else NEG[op], n))
                    elif qr and isinstance(l, ast.Name) and l.id == bound and op in SWAP:
                        out.append((qr.rstrip("~"), SWAP[op] if p else NEG[SWAP[op]], n))
    return out


def r02a(run, C, names):
    for name in names:
        f = C.methods.get(name)
        run.check("R02a", C.ref, f"strict validator `{name}` exists", f is not None,
                  construct=f"validator {name} missing", message=f"Constraints.{name} is not defined although "
                  f"Rule.__constraints__ declares it", necessity="the declared constraint is silently not enforced")
        if f is None:
            continue
        fa = analysis(f)
        ps = [p for p in f.params if p not in ("cls", "self")]
        if len(ps) < 2:
            raise AnalysisError(f"R02a: {f.ref} has no (value, bound) parameters")
        value, bound = ps[0], ps[1]
        raises = [n for n in fa.cfg.nodes if n.kind == "stmt" and isinstance(n.ast, ast.Raise) and fa.cfg.is_live(n)]
        rets = [n for n in fa.cfg.nodes if n.kind == "stmt" and isinstance(n.ast, ast.Return) and fa.cfg.is_live(n)]
        run.check("R02a", f, f"`{name}` can both reject and accept", bool(raises) and bool(rets),
                  construct=f"{name} never rejects" if not raises else f"{name} never accepts",
                  message=f"Constraints.{name} has no " + ("raise" if not raises else "return"),
                  necessity="the constraint is not enforced at all")
        if name in K_OPS:
            q, rel = K_OPS[name]
            found = reject_relations(fa, f, value, bound)
            good = [x for x in found if x[0] == q and x[1] == rel]
            # a raise that additionally carries the *accept* relation is a further condition (const's type test)
            wrong = [x for x in found if x[0] == q and x[1] not in (rel, NEG[rel])]
            # no accept path may carry the reject relation
            acc = accept_relations(fa, f, value, bound)
            wrong += [x for x in acc if x[0] == q and x[1] != NEG[rel]]
            ok = bool(good) and not wrong
            msg = (f"expected to reject exactly when {q} {rel} {bound}; found "
                   + (", ".join(f"{a} {b} {bound}" for a, b, _ in found) or "no comparison with the bound"))
            run.check("R02a", f, f"`{name}` rejects exactly when {q} {rel} bound", ok,
                      construct=f"{name} relation", message=f"Constraints.{name}: {msg}",
                      necessity="the boundary value (v = bound, or length = limit) is accepted/rejected contrary to "
                                "the documented meaning", node=(wrong or found or [(0, 0, raises[0] if raises else None)])[0][2].ast
                      if (wrong or found or raises) else None)
        if name == "regex":
            calls = [c for n, c in fa.all_calls() if call_name(c) and call_name(c).startswith("re.")]
            full = [c for c in calls if call_attr(c) == "fullmatch"]
            other = [c for c in calls if call_attr(c) in ("match", "search", "findall", "finditer")]
            ok = bool(full) and not other
            if ok:
                c = full[0]
                ok = len(c.args) == 2 and unparse(c.args[0]) == bound and value in names_in(c.args[1])
            # the reject branch is `not fullmatch`
            def _no_match(a, p):
                # `not fullmatch(..)`, `fullmatch(..) is None`, `not (fullmatch(..) is not None)`
                if isinstance(a, ast.Call) and call_attr(a) == "fullmatch":
                    return not p
                if isinstance(a, ast.Compare) and len(a.ops) == 1 and isinstance(a.left, ast.Call) \
                        and call_attr(a.left) == "fullmatch" and isinstance(a.comparators[0], ast.Constant) \
                        and a.comparators[0].value is None:
                    if isinstance(a.ops[0], (ast.Is, ast.Eq)):
                        return p
                    if isinstance(a.ops[0], (ast.IsNot, ast.NotEq)):
                        return not p
                return False
            rej = any(_no_match(a, p) for n in raises for a, p in fa.facts.atoms_at(n))
            run.check("R02a", f, "`regex` requires a full match of the pattern", ok and rej, construct="regex relation",
                      message="Constraints.regex does not reject exactly when re.fullmatch(pattern, str(value)) fails",
                      necessity="with re.match / re.search a value with a valid prefix ('abc!' for [a-z]+) is accepted")
        if name == "const":
            # type-exactness: a raise guarded by type(value) != type(v) and not in the tolerance table
            ok = False
            for n in raises:
                from ..lib import literal
                facts = {literal(a, bool(p)) for a, p in fa.facts.atoms_at(n)}       # normal form: (a == b, False) ...
                differ = {(f"type({value}) == type({bound})", False), (f"type({bound}) == type({value})", False)}
                if facts & differ and any("TYPE_EXACT_TOLERANCE" in t and " in " in t and not p for t, p in facts):
                    ok = True
            run.check("R02a", f, "`const` also requires type-exactness (modulo the numeric tolerance table)", ok,
                      construct="const type test", message="Constraints.const does not reject equal values of a "
                      "different type (True for 1, 1.0 for 1 outside the tolerance table)",
                      necessity="const=1 would accept True / const=0 would accept False")
        if name == "multiple_of":
            ok = any(isinstance(x, ast.BinOp) and isinstance(x.op, ast.Mod) and unparse(x.left) == value
                     and unparse(x.right) == bound for x in walk_shallow(f.node))
            rej = False
            for n in raises:
                for a, p in fa.facts.atoms_at(n):
                    if isinstance(a, ast.Name) and p:
                        os_ = prov(fa).of_name(n, a.id)
                        if any(isinstance(o.node, ast.BinOp) for o in os_ if o.kind == "expr") or True:
                            rej = True
                    if isinstance(a, ast.BinOp) and isinstance(a.op, ast.Mod) and p:
                        rej = True
            run.check("R02a", f, "`multiple_of` rejects exactly when value % of is non-zero", ok and rej,
                      construct="multiple_of relation", message="Constraints.multiple_of does not test value % of")
        if name == "unique_items":
            dup = False
            for n in raises:
                for a, p in fa.facts.atoms_at(n):
                    if isinstance(a, ast.Compare) and isinstance(a.ops[0], ast.In) and p:
                        dup = True
            run.check("R02a", f, "`unique_items` rejects when an item was already seen", dup,
                      construct="unique_items relation", message="Constraints.unique_items does not raise on a repeated item")
            # every item is recorded
            appended = any(isinstance(c, ast.Call) and call_attr(c) in ("append", "add") for c in walk_shallow(f.node))
            run.check("R02a", f, "`unique_items` records every item it has seen", appended, construct="unique_items memory",
                      message="Constraints.unique_items never records seen items")


NORMALISERS = {
    "decimal_places": "round(value, d) on Decimal only (numerically equal; documented)",
    "const": "returns the constant (equal by the preceding test)",
    "enum": "Enum class: returns the member's value",
}


def r02b(run, C, names):
    for name in names:
        f = C.methods.get(name)
        if f is None:
            continue
        fa = analysis(f)
        ps = [p for p in f.params if p not in ("cls", "self")]
        value, bound = ps[0], ps[1]
        for n in fa.cfg.nodes:
            if n.kind != "stmt" or not isinstance(n.ast, ast.Return) or not fa.cfg.is_live(n):
                continue
            v = n.ast.value
            ident = isinstance(v, ast.Name) and v.id == value and fa.rd.is_param_only(n, value)
            ok = ident
            why = ""
            if not ident:
                if name == "const" and isinstance(v, ast.Name) and v.id == bound:
                    ok = True
                elif name == "decimal_places" and isinstance(v, ast.Call) and call_attr(v) == "round" \
                        and any(unparse(a) == f"isinstance({value}, Decimal)" and p for a, p in fa.facts.atoms_at(n)):
                    ok = True
                elif name == "enum" and any("EnumMeta" in unparse(a) and p for a, p in fa.facts.atoms_at(n)):
                    ok = True
                elif name == "enum" and isinstance(v, ast.Name) and v.id == value:
                    # value = value.value for Enum members (documented normalisation)
                    os_ = prov(fa).of_name(n, value)
                    ok = all(o.kind == "param" or (o.kind == "attr" and o.text == f"{value}.value") for o in os_)
                why = NORMALISERS.get(name, "")
            run.check("R02b", f, f"`{name}` returns its input unchanged on accept" + (f" ({why})" if why and ok and not ident else ""),
                      ok, construct=f"{name} alters accepted value",
                      message=f"Constraints.{name}: `{norm_stmt(n.ast)}` returns something else than the validated input",
                      necessity="a valid value is altered by a strict constraint", node=n.ast)


def r02c(run):
    f = run.repo.func("utype.parser.rule", "LogicalType.__instancecheck__")
    fa = analysis(f)
    fam = exception_family(run.repo)
    obj = f.params[1] if len(f.params) > 1 else "obj"
    trues = [n for n in fa.cfg.nodes if n.kind == "stmt" and isinstance(n.ast, ast.Return)
             and isinstance(n.ast.value, ast.Constant) and n.ast.value.value is True and fa.cfg.is_live(n)]
    run.floor("R02c", "`return True` sites in __instancecheck__", len(trues), 1)
    parse_calls = [n for n, c in fa.all_calls() if isinstance(c.func, ast.Name) and c.func.id == "cls"
                   and c.args and unparse(c.args[0]) == obj]
    for n in trues:
        facts = {(unparse(a), p) for a, p in fa.facts.atoms_at(n)}
        if ("cls.combinator", True) in facts:
            # combinator types: plain isinstance on an argument type (documented)
            ok = any(t.startswith(f"isinstance({obj}, ") and p for t, p in facts)
            run.check("R02c", f, "combinator instance check: True only under isinstance(obj, arg)", ok,
                      construct="combinator instancecheck", message="__instancecheck__ returns True for a combinator "
                      "type without an isinstance test on an argument", node=n.ast)
            continue
        def is_origin(e) -> bool:
            # `cls.__origin__`, or a local bound to it (directly or through getattr), whatever the local is called
            if "__origin__" in unparse(e):
                return True
            if isinstance(e, ast.Name):
                defs = fa.rd.defs_of(n, e.id)
                return bool(defs) and all(d.kind == "stmt" and isinstance(d.ast, ast.Assign)
                                          and "__origin__" in unparse(d.ast.value) for d in defs)
            return False

        def origin_test(a):
            neg = False
            while isinstance(a, ast.UnaryOp) and isinstance(a.op, ast.Not):
                a, neg = a.operand, not neg
            if isinstance(a, ast.Call) and call_name(a) == "isinstance" and len(a.args) == 2 \
                    and unparse(a.args[0]) == obj and is_origin(a.args[1]):
                return neg
            return None
        pols = [(origin_test(a), p) for a, p in fa.facts.atoms_at(n)]
        pols = [(p != neg) for neg, p in pols if neg is not None]       # True = the value is an instance of the origin
        origin_ok = bool(pols) and all(pols)
        parsed = any(fa.cfg.dominates(pc, n) for pc in parse_calls)
        run.check("R02c", f, "constrained type: True only after isinstance(obj, origin) and a successful cls(obj) parse",
                  origin_ok and parsed, construct="instancecheck does not parse",
                  message="__instancecheck__ returns True for a constrained type "
                          + ("without the isinstance(obj, origin) test" if not origin_ok else "without running cls(obj)"),
                  necessity="isinstance(value, T) would disagree with T(value) for constraint-violating values",
                  node=n.ast)
    # the handler mapping to False catches the ParseError family
    for pc in parse_calls:
        hs = [s for s, k in pc.succ if k == E and s.kind == "handler"]
        ok = bool(hs)
        for h in hs:
            tn = [t.split(".")[-1] for t in handler_type_names(h.handler)]
            catches = any(t in ("ParseError", "Exception", "BaseException", "TypeError", "ValueError") for t in tn)
            falses = any(isinstance(x, ast.Return) and isinstance(x.value, ast.Constant) and x.value.value is False
                         for st in h.handler.body for x in walk_shallow(st))
            ok = ok and catches and falses
        run.check("R02c", f, "a failing parse maps to False (handler catches ParseError)", ok,
                  construct="instancecheck handler", message="the cls(obj) call in __instancecheck__ is not wrapped by "
                  "a handler for ParseError returning False", necessity="isinstance raises instead of answering False")


def _kwargs_of_dict_call(fnode) -> List[Tuple[str, str]]:
    out = []
    for c in walk_shallow(fnode):
        if isinstance(c, ast.Call) and isinstance(c.func, ast.Name) and c.func.id == "dict" and c.keywords \
                and any(k.arg == "gt" for k in c.keywords):
            for k in c.keywords:
                out.append((k.arg, unparse(k.value)))
    return out


def r02d(run, C, names):
    contains = ["contains", "max_contains", "min_contains"]
    expected = set(names) | set(contains)
    sites = [("utype.parser.field", "Field.__init__"), ("utype.decorator", "apply")]
    for mod, q in sites:
        f = run.repo.func(mod, q)
        params = set(f.params)
        missing = expected - params
        run.check("R02d", f, f"{q} accepts every constraint keyword", not missing, construct=f"{q} lacks {sorted(missing)}",
                  message=f"{q} has no keyword for constraint(s) {sorted(missing)}",
                  necessity="the constraint cannot be declared through this entry")
        if q == "apply":
            # forwarding by @apply is decided as a table (R01g, helper_table.r_apply, run at the end of this check): the
            # dict(...) literal the shape rule looked for is one layout among many (round 8)
            continue
        kws = _kwargs_of_dict_call(f.node)
        run.floor("R02d", f"constraint forwarding table in {q}", len(kws), 10)
        bad = [(k, v) for k, v in kws if k != v]
        run.check("R02d", f, f"{q} forwards every constraint under its own name", not bad,
                  construct=f"{q} forwards " + ", ".join(f"{k}={v}" for k, v in bad),
                  message=f"{q} forwards " + ", ".join(f"`{v}` as `{k}`" for k, v in bad),
                  necessity="a declared bound is enforced as a different constraint (gt as ge ...)")
        fwd = {k for k, v in kws} | ({"const"} if any(
            isinstance(c, ast.Call) and call_attr(c) == "update" and any(k.arg == "const" for k in c.keywords)
            for c in walk_shallow(f.node)) else set())
        # None is a legal constant: const may only be filtered by the `unprovided` sentinel
        for comp in walk_shallow(f.node):
            if isinstance(comp, ast.DictComp):
                src = comp.generators[0].iter
                kws_here = [k.arg for c2 in ast.walk(src) if isinstance(c2, ast.Call) for k in c2.keywords]
                if "const" in kws_here:
                    none_filter = any(isinstance(i, ast.Compare) and any(isinstance(o, ast.IsNot) for o in i.ops)
                                      and isinstance(i.comparators[0], ast.Constant) and i.comparators[0].value is None
                                      for g_ in comp.generators for cond in g_.ifs for i in ast.walk(cond))
                    run.check("R02d", f, f"{q}: `const` is not dropped by the `is not None` filter", not none_filter,
                              construct=f"{q} filters const by None", message=f"{q} forwards `const` through the "
                              f"comprehension that drops None values: Field(const=None) loses its constraint",
                              necessity="a declared const=None accepts every value", node=comp)
        lost = (expected & params) - fwd
        run.check("R02d", f, f"{q} forwards all constraint keywords it accepts", not lost,
                  construct=f"{q} drops {sorted(lost)}", message=f"{q} accepts but never forwards {sorted(lost)}",
                  necessity="the declared constraint is silently ignored")
    # every declared name has a strict validator; every lax_ method has its strict sibling declared
    lax = [m[4:] for m in C.methods if m.startswith("lax_")]
    for m in lax:
        run.check("R02d", C.ref, f"lax validator lax_{m} belongs to a declared constraint", m in names,
                  construct=f"lax_{m} without declared constraint", message=f"Constraints.lax_{m} exists but `{m}` is "
                  f"not in Rule.__constraints__")
    # the contains trio is handled by _parse_contains and declared on Rule
    R = run.repo.cls("utype.parser.rule", "Rule")
    for c in contains:
        run.check("R02d", R.ref, f"Rule declares `{c}`", c in R.assigns, construct=f"Rule lacks {c}",
                  message=f"Rule has no class attribute `{c}`")
    # generate_validators looks validators up by the constraint's own name (mode prefix only)
    g = run.repo.func("utype.parser.rule", "Constraints.generate_validators")
    ga = analysis(g)
    ok = False
    for n, c in ga.all_calls():
        if not (call_name(c) == "getattr" and len(c.args) >= 2 and "__class__" in unparse(c.args[0])
                and isinstance(c.args[1], ast.Name)):
            continue
        # the looked-up name derives, on every definition, from the key of the constraints loop (mode prefix allowed)
        loops = [m for m in ga.cfg.nodes if m.kind == "iter" and ga.cfg.dominates(m, n)]
        keys = set()
        for m in loops:
            tg = m.stmt.target if isinstance(m.stmt, (ast.For, ast.AsyncFor)) else None
            if tg is not None:
                first = tg.elts[0] if isinstance(tg, ast.Tuple) else tg
                keys |= {x.id for x in ast.walk(first) if isinstance(x, ast.Name)}
        defs = ga.rd.defs_of(n, c.args[1].id)
        if c.args[1].id in keys:
            ok = True
        elif defs and all(d.kind == "stmt" and isinstance(d.ast, ast.Assign) and keys & names_in(d.ast.value) for d in defs):
            ok = True
    run.check("R02d", g, "validators are looked up by the constraint's own (mode-prefixed) name", ok,
              construct="validator lookup", message="generate_validators does not look validators up by name")


def r02_contains(run):
    """contains / min_contains / max_contains as a decision table: Rule._parse_contains is interpreted (absint.py) for
    every item list of length 0..4 whose items are / are not convertible to the contained type, a non-iterable input, and
    every combination of min_contains / max_contains unset or 2.  With k the number of convertible items the one error
    reported must be: `contains` when k == 0 (also for a value that cannot be iterated), `min_contains` when 0 < k < min,
    `max_contains` when k > max, none otherwise - and the input is handed back unchanged."""
    import itertools
    from ..absint import Interp, Obj, Raised
    f = run.repo.func("utype.parser.rule", "Rule._parse_contains")
    R = f.cls
    methods = {m.name: m.node for m in R.methods.values()} if R else {}
    wrong = {}
    total = 0
    inputs = [tuple(c) for n_ in range(0, 7 if run.thorough else 5) for c in itertools.product((True, False), repeat=n_)] \
        + ["not-iterable"]          # thorough: item lists of up to six
    for items in inputs:
        for mn in (None, 2):
            for mx in (None, 2):
                reported = []

                def make_error(*a_, **kw):
                    return Obj("ConstraintError", _exc=True, constraint=kw.get("constraint"), args=a_)
                exc_mod = Obj("module exc", ConstraintError=make_error, ParseError=lambda *a_, **kw: Obj("ParseError", _exc=True))

                def transformer(item, t_):
                    if item is not True:
                        raise Raised("TypeError", ("not convertible",))
                    return item

                def enter(route=None, options=None, **kw):
                    return Obj("RuntimeContext", transformer=transformer, route=route)
                context = Obj("RuntimeContext", enter=enter, handle_error=lambda e, **kw: reported.append(e),
                              options=Obj("Options"))
                cls_ = Obj("Rule", contains="the contained type", min_contains=mn, max_contains=mx, __origin__=None)
                value = 5 if items == "not-iterable" else list(items)
                ip = Interp(methods=methods, module=f.module, globals_={"exc": exc_mod})
                try:
                    got = ip.call_function(f.node, (cls_, value, context), {})
                except Raised as r:
                    got = f"raises {r.cls}"
                total += 1
                k = 0 if items == "not-iterable" else sum(1 for x in items if x)
                if k == 0:
                    want = "contains"
                elif mn and k < mn:
                    want = "min_contains"
                elif mx and k > mx:
                    want = "max_contains"
                else:
                    want = None
                names = [getattr(e, "constraint", "?") for e in reported]
                label = f"{'a non-iterable value' if items == 'not-iterable' else f'{len(items)} items, {k} convertible'}, " \
                        f"min_contains={mn}, max_contains={mx}"
                if names != ([want] if want else []):
                    wrong.setdefault(want or "no error", (label, names, [want] if want else []))
                elif got is not value and got != value:
                    wrong.setdefault("the value is handed back unchanged", (label, repr(got)[:40], "the input"))
    for clause in ("contains", "min_contains", "max_contains", "no error", "the value is handed back unchanged"):
        w = wrong.get(clause)
        run.check("R02a", f, f"_parse_contains: `{clause}` is reported exactly under its documented relation", w is None,
                  construct=f"{clause} relation",
                  message=f"_parse_contains: for {w[0] if w else ''} it reports {w[1] if w else ''} instead of {w[2] if w else ''}",
                  necessity="the count boundary (exactly min / max matching items) is decided wrongly: an invalid value is "
                            "accepted or a valid one rejected")
    run.floor("R02a", "inputs evaluated for _parse_contains", total, 100)


def r02f(run):
    """every class gets its own validator list: the rebuild in Rule.__init_subclass__ is passed on every normal path.
    (generate_validators reads the constraints through getattr on the *new* class, i.e. through its whole MRO; a class
    that skips the rebuild keeps the list found first on the MRO - for two constrained bases that is one base's list)"""
    f = run.repo.func("utype.parser.rule", "Rule.__init_subclass__")
    fa = analysis(f)
    rebuilds = [n for n in fa.cfg.nodes if n.kind == "stmt" and isinstance(n.ast, ast.Assign)
                and any(isinstance(t, ast.Attribute) and t.attr == "__validators__" for t in n.ast.targets)
                and any(isinstance(c, ast.Call) and call_attr(c) == "generate_validators" for c in ast.walk(n.ast.value))]
    run.floor("R02f", "validator rebuilds in Rule.__init_subclass__", len(rebuilds), 1)
    reach = fa.cfg.reach_from_succ(fa.cfg.entry, kinds=(N,), avoid=rebuilds)
    ok = fa.cfg.exit not in reach
    guards = sorted({f"{unparse(b.test)}={b.polarity}" for r in rebuilds for b in fa.facts.branch_facts(r)})
    run.check("R02f", f, "every new Rule class rebuilds its validators from its own (inherited and declared) constraints", ok,
              construct="validators not rebuilt for every subclass",
              message="Rule.__init_subclass__ can finish without `cls.__validators__ = ...generate_validators()`"
                      + (f" (the rebuild is guarded by {guards})" if guards else ""),
              necessity="class PositiveEven(Positive, Even): pass keeps Positive's validator list: 3 is accepted although "
                        "multiple_of=2 is inherited, and isinstance agrees with the wrong verdict")


def r02e(run, C):
    """which validator (strict or lax_) runs for a constraint depends on that constraint's own declaration only:
    inside the loops of generate_validators no value is carried over from a previous constraint"""
    f = C.methods.get("generate_validators")
    if f is None:
        raise AnalysisError("Constraints.generate_validators not found")
    fa = analysis(f)
    loops = [n for n in fa.cfg.nodes if n.kind == "iter"]
    run.floor("R02e", "loops in generate_validators", len(loops), 2)
    checked = 0
    for lp in loops:
        body_entry = [s_ for s_, k in lp.succ if s_.kind == "branch" and s_.polarity]
        if not body_entry:
            continue
        body = fa.cfg.reach_from_succ(body_entry[0], kinds=(N, E), avoid=[lp]) | {body_entry[0]}
        targets = set(target_names(lp.stmt.target))
        for n in body:
            if n.ast is None or n.kind not in ("stmt", "test"):
                continue
            reads = set()
            for e in fa.node_exprs(n):
                for x in walk_shallow(e):
                    if isinstance(x, ast.Name) and isinstance(x.ctx, ast.Load) and x.id in fa.rd.locals and x.id not in targets:
                        reads.add(x.id)
            for v in reads:
                defs = fa.rd.defs_of(n, v)
                inside = [d for d in defs if d in body and d.kind == "stmt" and isinstance(d.ast, ast.Assign)
                          and not isinstance(d.ast.targets[0], ast.Subscript)]
                if not inside:
                    continue       # loop-invariant, or a container that is only extended
                checked += 1
                # every in-loop definition that reaches the read must dominate it (made in this iteration)
                # some path from the start of the iteration to the read passes none of the in-loop definitions
                reach = fa.cfg.reach_from_succ(body_entry[0], kinds=(N, E), avoid=inside + [lp]) | {body_entry[0]}
                carried = n in reach and n not in inside
                run.check("R02e", f, f"`{v}` read by `{norm_stmt(n.stmt if n.stmt is not None else n.ast)[:40]}` is defined in "
                                     f"the same iteration", not carried,
                          construct=f"`{v}` carried over between constraints",
                          message=f"generate_validators: `{v}` is assigned inside the loop only on some paths and read by "
                                  f"`{norm_stmt(n.stmt if n.stmt is not None else n.ast)[:60]}`: the value of an earlier "
                                  f"constraint (or the pre-loop initial value) reaches later ones",
                          necessity="after one Lax(...) constraint every later constraint is bound to its lax_ variant: "
                                    "ge=Lax(0), le=100 accepts 150 (clamped to 100) and isinstance agrees with the wrong verdict",
                          node=n.ast)
    run.notes.append(f"R02e: {checked} reads of loop-defined locals checked")


def check(run):
    run.rules_run += ["R02a", "R02b", "R02c", "R02d", "R02e", "R02f"]
    run.explain("C02: the strict validators are the Constraints methods named in Rule.__constraints__. (R02a) the reject "
                "condition of each validator, collected from the branch facts of its raise statements and normalised "
                "(not a<=b == a>b, operands swapped so that the bound is on the right, len(str(value)) == len), equals the "
                "documented relation; regex must use re.fullmatch, const adds type-exactness, contains counts; (R02b) "
                "accept paths return the input parameter unchanged except the documented normalisers; (R02c) "
                "__instancecheck__ answers True only after isinstance(obj, origin) and a successful cls(obj); (R02d) "
                "Field/apply accept every constraint keyword and forward it under its own name.")
    C = run.repo.cls("utype.parser.rule", "Constraints")
    names = constraint_names(run)
    run.floor("R02a", "constraints declared in Rule.__constraints__", len(names), 12)
    run.rule(r02a, run, C, names)
    run.rule(r02_contains, run)
    run.rule(r02b, run, C, names)
    run.rule(r02c, run)
    run.rule(r02d, run, C, names)
    run.rule(r02e, run, C)
    run.rule(r02f, run)
    # shared with C01: every path of Rule.parse to its final return passes the validators (an invalid value is never
    # accepted only if no path skips them)
    from . import c01
    run.rules_run.append("R01c")
    run.rule(c01.r01c, run)
    # round 8: shared helpers decided as tables (helper_table.py)
    from . import helper_table as _ht
    run.rules_run.append("R01g")
    run.rule(_ht.r_apply, run)
