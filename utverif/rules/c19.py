"""C19 - parsing is pure: no input mutation, no shared defaults, no cross-call state.

R19a defaults are handed out through copy_value on every path (shared with R05a) and copy_value is deep
R19b no mutating operation (call, bound-method reference, subscript store, del, augmented assignment) is applied to
     an object whose provenance is an input-carrying parameter of the parse core / converters / validators
R19c every write to state that outlives the call (inventory of C20's R20a, locks or not) is one of the enumerated
     semantically transparent memos; anything else makes the outcome depend on earlier calls
R19d the per-call context is never stored on a shared object

Decides the absence of the mechanisms (mutation of inputs, shared defaults, history-dependent state); equality of
results across histories is value-level and undecided.
"""
import ast
from typing import Dict, List, Optional, Set, Tuple

from ..cfg import analysis, N, E
from ..lib import prov, Origin
from ..model import AnalysisError, FuncInfo, call_attr, dotted, kwarg, unparse, walk_shallow, norm_stmt, names_in
from ..shared import callgraph, writes_in, class_of, MUTATORS
from . import c05, c20

# parameters that carry the caller's objects, per function family
INPUT_PARAMS = {"value", "data", "args", "kwargs", "obj", "values", "item", "key", "val", "sent", "result"}
# (function ref, parameter) whose object is created by the library for this call (owned): reason
OWNED = {
    ("utype.parser.func:FunctionParser.parse_params", "kwargs"): "the dict built from the wrapper's own **kwargs",
    ("utype.parser.func:FunctionParser.parse_params", "args"): "the tuple built from the wrapper's own *args",
    ("utype.parser.func:FunctionParser.get_params", "kwargs"): "the wrapper's own **kwargs dict",
    ("utype.parser.func:FunctionParser.sync_call", "kwargs"): "the wrapper's own **kwargs dict",
    ("utype.parser.func:FunctionParser.sync_call", "args"): "the wrapper's own *args tuple",
    ("utype.parser.func:FunctionParser.get_params", "args"): "the wrapper's own *args tuple",
    ("utype.parser.cls:ClassParser.set_attributes", "values"): "the result mapping built by the parser for this call",
}
# state that outlives a call and is semantically transparent, keyed by the state itself (not by function names).
# (a) lazily resolved declaration state: idempotent, allowed when the write is serialised by the first-use lock
LAZY_RESOLUTION = {
    "forward_refs": "pending-reference table of a parser (emptied once everything is resolved)",
    "__forward_value__": "value of a declared reference", "__forward_evaluated__": "evaluated flag of a declared reference",
    "type": "resolved field type", "output_type": "resolved field output type", "addition_type": "resolved addition type",
    "position_type": "resolved *args type", "return_type": "resolved return type",
    "__args__": "resolved type arguments of a rule / logical type", "__arg_transformers__": "converters of the resolved arguments",
}
# (b) memos of pure functions, keyed by (owner class or module, attribute)
MEMOS = {
    ("utype.parser.base", "__parsers__"): "memo of parsers keyed by the declaration itself",
    ("TypeRegistry", "_cache"): "memo of a pure function of the registrations (reset by register)",
    ("cached_property", "__dict__"): "memo of a pure property",
}


def transparent(run, cg, w, reach_cut) -> str:
    c = c20.class_of(w.f)
    if w.target == "<module>":
        return MEMOS.get((w.f.module.name, w.attr), "")
    if c is not None and (c.name, w.attr) in MEMOS:
        return MEMOS[(c.name, w.attr)]
    if w.attr in LAZY_RESOLUTION:
        locked = c20.lexically_locked(w.f, w.node, cg.locks) or (w.stmt is not None and c20.lexically_locked(w.f, w.stmt, cg.locks)) \
            or w.f.ref not in reach_cut
        if locked:
            return LAZY_RESOLUTION[w.attr] + " (under the first-use lock)"
    return ""


def r19a(run):
    c05.r05a(run, rule="R19a")


def _derives_from_param(fa, n, e, params: Set[str], depth=0) -> Optional[str]:
    """name of an input parameter the object denoted by e may be (alias / element / attribute of), else None.
    A copy (list(x), dict(x), x.copy(), copy_value, type(x)(...), slices) breaks the chain."""
    if depth > 5:
        return None
    if isinstance(e, ast.Name):
        if e.id not in fa.rd.locals:
            return None
        for o in prov(fa).of_name(n, e.id):
            if o.kind == "param" and o.text in params:
                return o.text
            if o.kind in ("iter", "iter-unpack", "sub", "attr", "unpack", "with") and o.base:
                for b in o.base:
                    if b.kind == "param" and b.text in params:
                        return b.text
                    if b.kind in ("iter", "sub", "attr") and b.node is not None:
                        r = _derives_from_param(fa, b.at, b.node if not isinstance(b.node, ast.stmt) else None, params, depth + 1) \
                            if isinstance(b.node, ast.expr) else None
                        if r:
                            return r
                    if b.kind == "call" and isinstance(b.node, ast.Call):
                        # x.items() / x.values() / enumerate(x) / zip(x) iterate the same elements
                        nm = call_attr(b.node)
                        if nm in ("items", "values", "keys", "enumerate", "zip", "reversed", "iter"):
                            inner = b.node.func.value if isinstance(b.node.func, ast.Attribute) else (b.node.args[0] if b.node.args else None)
                            if inner is not None:
                                r = _derives_from_param(fa, b.at, inner, params, depth + 1)
                                if r:
                                    return r
        return None
    if isinstance(e, (ast.Attribute, ast.Subscript)):
        if isinstance(e, ast.Subscript) and isinstance(e.slice, ast.Slice):
            return None     # a slice is a copy
        return _derives_from_param(fa, n, e.value, params, depth + 1)
    return None


def scope_functions(run) -> List[FuncInfo]:
    out = []
    repo = run.repo
    for modname in ("utype.parser.rule", "utype.parser.field", "utype.parser.base", "utype.parser.func",
                    "utype.parser.cls", "utype.utils.transform", "utype.parser.options"):
        for f in repo.module(modname).functions.values():
            out.append(f)
    return out


def r19b(run):
    total = 0
    funcs = scope_functions(run)
    for f in funcs:
        params = {p for p in f.params if p in INPUT_PARAMS}
        # a function's own **kwargs / *args objects are created by the call itself
        a = f.node.args
        own = {x.arg for x in (a.vararg, a.kwarg) if x is not None}
        params -= own
        params = {p for p in params if (f.ref, p) not in OWNED}
        if not params:
            continue
        fa = analysis(f)
        for n in fa.cfg.nodes:
            if n.ast is None or n.kind not in ("stmt", "test", "iter", "with"):
                continue
            sites = []   # (node, receiver expr, what)
            for e in fa.node_exprs(n):
                for sub in walk_shallow(e):
                    if isinstance(sub, ast.Attribute) and sub.attr in MUTATORS and isinstance(sub.ctx, ast.Load):
                        sites.append((sub, sub.value, f".{sub.attr}"))
            st = n.ast
            if n.kind == "stmt":
                tg = []
                if isinstance(st, ast.Assign):
                    tg = st.targets
                elif isinstance(st, ast.AugAssign):
                    tg = [st.target]
                elif isinstance(st, ast.Delete):
                    tg = st.targets
                for t in tg:
                    if isinstance(t, ast.Subscript):
                        sites.append((t, t.value, "[...] store" if not isinstance(st, ast.Delete) else "del [...]"))
                    elif isinstance(t, ast.Attribute) and not isinstance(st, ast.Delete):
                        sites.append((t, t.value, f".{t.attr} store"))
                    elif isinstance(st, ast.AugAssign) and isinstance(t, ast.Name) and isinstance(st.op, (ast.Add, ast.BitOr)):
                        # `x += [..]` / `x |= {..}` mutate lists / sets / dicts in place
                        pass
            for node, recv, what in sites:
                src = _derives_from_param(fa, n, recv, params)
                if src is None:
                    continue
                total += 1
                run.check("R19b", f, f"`{unparse(node)[:40]}` does not mutate the caller's `{src}`", False,
                          construct=f"mutation of input parameter {src}: {what}",
                          message=f"`{norm_stmt(n.stmt if n.stmt is not None else n.ast)[:80]}` applies `{what}` to an object "
                                  f"that is (part of) the caller's `{src}`",
                          necessity="the same-type shortcuts hand the caller's own container through unchanged, so this "
                                    "operation modifies the object the caller passed in (parsing is not read-only)",
                          node=node)
    run.ob("R19b", "parse core / converters / validators", f"{len(funcs)} functions scanned for mutation of input parameters",
           True, detail=f"{total} site(s) found")
    run.floor("R19b", "functions with input-carrying parameters", sum(1 for f in funcs if set(f.params) & INPUT_PARAMS), 80)


def r19c(run):
    cg = callgraph(run.repo)
    ents = c20.entries(run)
    reach_all = cg.reachable(ents, cut_locked=False, cut_ctor=True)
    reach_cut = cg.reachable(ents, cut_locked=True, cut_ctor=True)
    sw = c20.shared_writes(run, cg, reach_all)
    n = 0
    for w, kind, why in sw:
        if kind != "shared":
            continue
        n += 1
        reason = transparent(run, cg, w, reach_cut)
        run.check("R19c", w.f, f"`{w.text[:60]}` is an enumerated transparent memo / lazy resolution", bool(reason),
                  construct=f"state carried across calls: {w.target}.{w.attr} ({w.how})",
                  message=f"`{w.text}` writes {why} [{w.target}.{w.attr}] while parsing; it is neither lazily resolved "
                          f"declaration state under the first-use lock nor one of the enumerated memos",
                  necessity="what a later parse returns (or how it fails) depends on which parses happened before",
                  node=w.node, detail=reason)
    run.floor("R19c", "writes to state that outlives the call", n, 12)


def r19d(run):
    """`self.<attr> = context` / container.add(context) on shared objects"""
    cg = callgraph(run.repo)
    total = 0
    for f in run.repo.all_functions():
        if not (f.module.name.startswith("utype.parser") or f.module.name in ("utype.schema", "utype.utils.transform")):
            continue
        c = class_of(f)
        if c is None:
            continue
        names = {k.name for k in cg.h.up(c)}
        if not (names & c20.SHARED_CLASSES):
            continue
        for st in walk_shallow(f.node):
            if isinstance(st, ast.Assign) and any(isinstance(t, ast.Attribute) and unparse(t.value) in ("self", "cls")
                                                  for t in st.targets):
                total += 1
                v = st.value
                bad = isinstance(v, ast.Name) and v.id in ("context", "new_context", "arg_context") \
                    or isinstance(v, ast.Call) and call_attr(v) in ("make_context", "enter")
                if bad:
                    run.check("R19d", f, f"`{norm_stmt(st)[:60]}` does not keep the per-call context", False,
                              construct="context stored on a shared object",
                              message=f"`{norm_stmt(st)}` stores a RuntimeContext on a {c.name}",
                              necessity="collected errors / depth / options of one call leak into the next", node=st)
    run.ob("R19d", "shared classes", "no per-call context is stored on a shared object", True, detail=f"{total} attribute stores scanned")
    run.floor("R19d", "attribute stores on shared objects", total, 60)


def r19e(run):
    """objects the mutating helpers treat as their own (table OWNED) really are created for the call: at every call
    site the argument is a fresh object or the caller's own *args / **kwargs - never (an alias of) a caller's parameter"""
    total = 0
    for (ref, param), reason in sorted(OWNED.items()):
        mod, q = ref.split(":")
        callee = run.repo.maybe_func(mod, q)
        if callee is None:
            raise AnalysisError(f"R19e: owner table entry {ref} not found")
        params = [p for p in callee.params if p not in ("self", "cls")]
        if param not in params:
            raise AnalysisError(f"R19e: {ref} has no parameter {param}")
        idx = params.index(param)
        for f in run.repo.all_functions():
            if not (f.module.name.startswith("utype.parser") or f.module.name == "utype.schema"):
                continue
            fa = None
            for c in walk_shallow(f.node):
                if not (isinstance(c, ast.Call) and call_attr(c) == callee.name and isinstance(c.func, ast.Attribute)):
                    continue
                arg = kwarg(c, param)
                if arg is None and idx < len(c.args) and not isinstance(c.args[idx], ast.Starred):
                    arg = c.args[idx]
                if arg is None:
                    continue
                fa = fa or analysis(f)
                node = None
                for n in fa.cfg.nodes:
                    if n.ast is not None and any(x is c for x in walk_shallow(n.ast)):
                        node = n
                        break
                if node is None:
                    continue
                total += 1
                a = f.node.args
                own = {x.arg for x in (a.vararg, a.kwarg) if x is not None}
                foreign = []

                seen_defs = set()

                def scan(e, at, depth=0):
                    if depth > 6:
                        return
                    if isinstance(e, ast.IfExp):
                        scan(e.body, at, depth)
                        scan(e.orelse, at, depth)
                    elif isinstance(e, ast.BoolOp):
                        for x in e.values:
                            scan(x, at, depth)
                    elif isinstance(e, ast.Name) and e.id in fa.rd.locals:
                        for d in fa.rd.defs_of(at, e.id):
                            if (d.id, e.id) in seen_defs:
                                continue
                            seen_defs.add((d.id, e.id))
                            if d is fa.cfg.entry:
                                if e.id in f.params and e.id not in own and (f.ref, e.id) not in OWNED:
                                    foreign.append(e.id)
                            elif d.kind == "stmt" and isinstance(d.ast, ast.Assign):
                                scan(d.ast.value, d, depth + 1)
                    # calls, literals, comprehensions create new objects

                scan(arg, node)
                run.check("R19e", f, f"`{unparse(c)[:50]}`: the `{param}` handed to {callee.name} is created for this call",
                          not foreign, construct=f"caller's object {sorted(set(foreign))} passed as owned `{param}` of {callee.name}",
                          message=f"{f.qualname}: `{unparse(c)[:70]}` can pass (an alias of) the parameter "
                                  f"{sorted(set(foreign))} as `{param}`; {callee.name} mutates that object ({reason})",
                          necessity="Cls(payload) with no_parse: set_attributes pops the no_output keys from the caller's "
                                    "own dict - the input is modified and a second Cls(payload) differs from the first",
                          node=c)
    run.floor("R19e", "call sites of helpers that own an argument", total, 3)


def check(run):
    run.rules_run += ["R19a", "R19b", "R19c", "R19d", "R19e"]
    run.explain("Static purity check: defaults pass through a deep copy_value on every path; no mutating operation "
                "(including a bound mutator reference) reaches an object derived from an input-carrying parameter of the "
                "parse core, converters or validators; every write to state that outlives a call - enumerated from the "
                "runtime entries over the receiver-aware call graph - is one of the listed transparent memos; the "
                "per-call context is never stored on a shared object.")
    run.rule(r19a, run)
    run.rule(r19b, run)
    run.rule(r19c, run)
    run.rule(r19d, run)
    run.rule(r19e, run)
    # shared with C16: the registry memo is the one piece of state a failed parse may leave behind - it must hold
    # positive answers only (what a detector says about a class can change: @utype.dataclass sets __parser__ in place)
    from . import c16
    run.rules_run.append("R16d")
    run.rule(c16.r16d, run, c16.registry_class(run))
    # round 8: shared helpers decided as tables (helper_table.py)
    from . import helper_table as _ht
    run.rules_run.append("R19f")
    run.rule(_ht.r_copy, run)
    run.rules_run.append("R12f")
    run.rule(_ht.r_multi, run)
