"""C09 - logical type combinators mean what they say.

R09a subject invariance   R09b result provenance   R09c exits of the conversion loops   R09d construction algebra
"""
import ast
from typing import Dict, List, Optional

from ..cfg import analysis, FuncAnalysis, Node, N, E, is_handle_error_call
from ..lib import prov, is_convert_call, convert_value_arg, exc_class_of_ctor
from ..model import AnalysisError, call_attr, kwarg, unparse, walk_shallow, norm_stmt, names_in, kwarg_given

COMBS = ["&", "|", "^", "~"]


def branch_of(fa: FuncAnalysis, n: Node) -> Optional[str]:
    for a, p in fa.facts.atoms_at(n):
        if p and isinstance(a, ast.Compare) and len(a.ops) == 1 and isinstance(a.ops[0], ast.Eq):
            l, r = a.left, a.comparators[0]
            if unparse(l).endswith(".combinator") and isinstance(r, ast.Constant) and r.value in COMBS:
                return r.value
    return None


CLAUSES = {
    # clause: (rule, construct, title, necessity)
    "|:threaded": ("R09a", "`|` branch converts a threaded value", "`|`: every attempt converts the original input",
                   "whether a later argument accepts then depends on what an earlier argument turned the input into"),
    "^:threaded": ("R09a", "`^` branch converts a threaded value", "`^`: every argument is tested on the original input",
                   "(int ^ R)('3.0') and (R ^ int)('3.0') give different verdicts"),
    "~:threaded": ("R09a", "`~` branch converts a threaded value", "`~`: the argument is tested on the original input",
                   "the value handed back / tested next is what an argument turned the input into"),
    "&:first": ("R09a", "`&` branch does not thread", "`&`: the first argument converts the input", ""),
    "&:second": ("R09a", "`&` branch does not thread", "`&`: every argument is applied", "conjunction must apply each argument"),
    "&:thread": ("R09a", "`&` branch does not thread", "`&`: each argument converts the running value",
                 "conjunction must apply each argument to the running value"),
    "&:stop": ("R09a", "`&` branch continues after a rejection", "`&`: conversion stops at the first rejecting argument", ""),
    "&:result": ("R09b", "`&` branch result", "`&`: the result is the last argument's conversion", ""),
    "|:exact": ("R09b", "`|` branch exact-type shortcut", "`|`: a value of exactly one of the argument types is returned unchanged",
                "a value that already has exactly one of the argument types must be returned unchanged"),
    "|:exact-first": ("R09b", "`|` branch exact-type shortcut", "`|`: the exact-type test precedes every conversion",
                      "a value that already has exactly one of the argument types must be returned unchanged"),
    "^:exact": ("R09b", "`^` branch exact-type shortcut", "`^`: a value of exactly one of the argument types is returned unchanged", ""),
    "|:result": ("R09b", "`|` branch early return", "`|`: the result is the conversion of the input by an accepting argument",
                 "a value no argument accepted (or a half-converted value) is handed back"),
    "^:one-result": ("R09b", "`^` branch reassigns the subject", "`^`: the result is the conversion by the single accepting argument",
                     "a union / exclusive-or must return the conversion of the *original* input by an accepting argument"),
    "~:rejects": ("R09b", "`~` branch reassigns the subject", "`~`: a value the argument rejects is returned unchanged",
                  "negation must return the input unchanged"),
    "|:all-fail": ("R09c", "`|` branch handler", "`|`: rejected when no argument accepts",
                   "if every argument fails nothing would be raised: the raw input is returned"),
    "|:all-fail-kind": ("R09c", "`|` branch handler", "`|`: the rejection carries the arguments' errors", ""),
    "|:accept": ("R09c", "`|` branch rejects an accepted value", "`|`: accepted when some argument accepts",
                 "the union rejects values one of its arguments accepts"),
    "|:clear": ("R09c", "`|` success without clear_tmp_error", "`|`: temporary errors of earlier arguments are cleared on success",
                "the errors of the arguments that did not accept are raised later although the union accepted"),
    "^:one": ("R09c", "`^` branch rejects a single acceptance", "`^`: accepted when exactly one argument accepts", ""),
    "^:clear": ("R09c", "`^` success without clear_tmp_error", "`^`: temporary errors are cleared on success", ""),
    "^:none": ("R09c", "`^` branch handler", "`^`: rejected when no argument accepts",
               "if every argument fails nothing would be raised: the raw input is returned"),
    "^:all-tested": ("R09c", "`^` branch returns inside the conversion loop", "`^`: every argument is tested (no early exit on the "
                     "accepting path)", "an input accepted by two arguments is accepted (with the first one's result) instead "
                     "of being rejected"),
    "^:many": ("R09c", "`^` branch lacks OneOfViolatedError", "`^`: rejected when more than one argument accepts",
               "exclusive-or would accept inputs that several arguments accept"),
    "^:many-kind": ("R09c", "`^` violation guard", "`^`: a second acceptance is reported as OneOfViolatedError", ""),
    "~:accepts": ("R09c", "`~` branch does not reject on success", "`~`: rejected when the argument accepts",
                  "negation would accept values its argument accepts"),
    "~:accepts-kind": ("R09c", "`~` branch does not reject on success", "`~`: the rejection is a NegateViolatedError", ""),
    "~:rejects-clean": ("R09c", "`~` branch rejects on failure", "`~`: a failing conversion records no error",
                        "negation would reject values its argument rejects"),
    "&:fail": ("R09c", "`&` branch error", "`&`: rejected when an argument rejects", ""),
    "&:fail-kind": ("R09c", "`&` branch error", "`&`: the rejection is a ParseError (a foreign exception is wrapped)", ""),
}


def r09(run):
    """R09a / R09b / R09c decided on the decision tables of logical_parse (logic_table.py): every scenario of accepting /
    rejecting arguments x flag combination x exact-type or foreign input x fail-fast / collecting, interpreted by the
    checker's own interpreter over modelled objects, compared with the documented meaning of the four combinators"""
    from . import logic_table as lt
    f = run.repo.func("utype.parser.rule", "LogicalType.logical_parse")
    bad = lt.behaviour(run)
    run.floor("R09a", "rows of the logical_parse decision tables", run._logic_rows, 250)
    for clause, (rule, construct, title, nec) in CLAUSES.items():
        w = bad.get(clause)
        run.check(rule, f, title + " (decision table)", w is None, construct=construct,
                  message=f"LogicalType.logical_parse: {title} - but for [{w[0]}] it gives {w[1]}, expected: {w[2]}" if w else "",
                  necessity=nec or "the combinator no longer means what it says")
    unknown = [c for c in bad if c not in CLAUSES and c != "|:order"]
    if unknown:
        raise AnalysisError(f"R09: unmapped table clause(s) {unknown}")


OP_TABLE = {"__and__": "&", "__rand__": "&", "__or__": "|", "__ror__": "|", "__xor__": "^", "__rxor__": "^",
            "__invert__": "~", "all_of": "&", "any_of": "|", "one_of": "^", "not_of": "~"}


def r09d(run):
    n_ops = 0
    for mod, clsname in (("utype.parser.rule", "LogicalType"), ("utype.schema", "LogicalMeta")):
        C = run.repo.cls(mod, clsname)
        for m, lit in OP_TABLE.items():
            f = C.methods.get(m)
            if f is None:
                continue
            lits = set()
            for sub in walk_shallow(f.node):
                if isinstance(sub, ast.Call) and call_attr(sub) in ("combine", "combine_by") and sub.args \
                        and isinstance(sub.args[0], ast.Constant):
                    lits.add(sub.args[0].value)
            if not lits:
                # delegation to the other operand's reflected method only
                continue
            n_ops += 1
            run.check("R09d", f, f"{clsname}.{m} builds the `{lit}` combinator", lits == {lit},
                      construct=f"operator {m} builds {sorted(lits)}",
                      message=f"{clsname}.{m} combines with {sorted(lits)} instead of `{lit}`",
                      necessity="the operator would build a different combinator than it denotes")
            if m.startswith("__r") and clsname == "LogicalType":
                rev = any(isinstance(sub, ast.Call) and call_attr(sub) == "combine_by" and
                          isinstance(kwarg(sub, "reverse"), ast.Constant) and kwarg(sub, "reverse").value is True
                          for sub in walk_shallow(f.node))
                run.check("R09d", f, f"reflected operator {m} keeps the operand order (reverse=True)", rev,
                          construct=f"{m} operand order", message=f"{m} does not pass reverse=True",
                          necessity="conjunction applies its arguments in order; a swapped order changes the result")
    run.floor("R09d", "operator methods building combinators", n_ops, 10)
    # double negation cancels
    f = run.repo.func("utype.parser.rule", "LogicalType.__invert__")
    fa = analysis(f)
    ok = False
    for n in fa.cfg.nodes:
        if n.kind == "stmt" and isinstance(n.ast, ast.Return) and unparse(n.ast.value) in ("cls.args[0]",):
            if any(unparse(a) == "cls.combinator == '~'" and p for a, p in fa.facts.atoms_at(n)):
                ok = True
    run.check("R09d", f, "double negation cancels (~(~T) returns T)", ok, construct="double negation",
              message="LogicalType.__invert__ does not return the argument of an existing negation",
              necessity="~~T would be a Not(Not(T)) type: 'double negation cancels' fails")
    # combine as a decision table (absint.py): every argument list of length 0..3 over {X, Y, Any, a name given as text} for
    # each operator, compared with the construction algebra: duplicates are skipped (first occurrence kept, order kept),
    # Any absorbs | and ^, Any is dropped from &, nothing left gives the universal rule, a single remaining argument is
    # returned as it is (except for ~), otherwise a new combinator type carries the arguments and the operator
    import itertools
    from ..absint import Interp, Obj, Raised
    g = run.repo.func("utype.parser.rule", "LogicalType.combine")
    ANY, RULE, X, Y = Obj("Any"), Obj("Rule"), Obj("X"), Obj("Y")
    built = []

    def make_type(name, bases, ns):
        t_ = Obj("combined", name=name, ns=ns)
        built.append(t_)
        return t_
    wrong = {}
    total = 0
    for op in ("&", "|", "^", "~"):
        for n_ in range(0, 5 if run.thorough else 4):         # thorough: argument lists of up to four
            for args in itertools.product((X, Y, ANY), repeat=n_):
                if op == "~" and n_ != 1:
                    continue
                mcs = Obj("LogicalType", _parse_arg=lambda a_: a_, _call=make_type)
                ip = Interp(globals_={"Any": ANY, "Rule": RULE, "ForwardRef": lambda s_: Obj("ForwardRef", arg=s_)},
                            module=g.module)
                try:
                    got = ip.call_function(g.node, (mcs, op) + args, {})
                except Raised as r:
                    got = f"raises {r.cls}"
                total += 1
                kept = []
                absorbed = False
                for a_ in args:
                    if a_ is ANY:
                        if op in ("|", "^"):
                            absorbed = True
                            break
                        if op == "&":
                            continue
                    if not any(a_ is k for k in kept):
                        kept.append(a_)
                if absorbed or not kept:
                    want = RULE
                elif op != "~" and len(kept) == 1:
                    want = kept[0]
                else:
                    want = ("type", op, kept)
                names = [x._cls for x in args]
                if isinstance(want, tuple):
                    ok = isinstance(got, Obj) and got._cls == "combined" and list(got.ns.get("__args__", [])) == kept \
                        and got.ns.get("__combinator__") == op
                else:
                    ok = got is want
                if not ok:
                    clause = ("Any absorbs a union / exclusive-or" if absorbed else
                              "nothing left gives the universal rule" if not kept else
                              "a single remaining argument collapses to itself (except for ~)" if not isinstance(want, tuple) else
                              "duplicates are skipped, order kept, Any dropped from a conjunction")
                    wrong.setdefault(clause, (f"{op} over {names}", repr(got)[:60],
                                              [k._cls for k in kept] if isinstance(want, tuple) else want._cls))
    for clause, nec in (("Any absorbs a union / exclusive-or", "T | Any would still convert to T"),
                        ("nothing left gives the universal rule", "AllOf(Any) would be an empty conjunction type"),
                        ("a single remaining argument collapses to itself (except for ~)", "T | T would be a one-argument union type instead of T"),
                        ("duplicates are skipped, order kept, Any dropped from a conjunction", "T | T would keep two arguments; T & Any would carry a useless argument")):
        w = wrong.get(clause)
        run.check("R09d", g, f"combine: {clause}", w is None, construct=f"combine: {clause}",
                  message=f"LogicalType.combine no longer implements: {clause} - for `{w[0] if w else ''}` it builds "
                          f"{w[1] if w else ''} instead of {w[2] if w else ''}", necessity=nec)
    run.floor("R09d", "argument lists evaluated for combine", total, 100)
    # flattening in combine_by, as a decision table: the receiver is / is not a combinator of the same kind, the other
    # operand is a same-kind combinator / another combinator / a plain type / a tuple of types, reverse on / off: the
    # arguments handed to combine() are the spliced arguments of same-kind operands, in operand order
    h = run.repo.func("utype.parser.rule", "LogicalType.combine_by")
    P, Q, R_, S_ = Obj("P"), Obj("Q"), Obj("R"), Obj("S")
    bad = {}
    n_cases = 0
    for comb in ("|", "&"):
        for recv_kind in ("same", "other", "plain"):
            for other_kind in ("same", "other-comb", "plain", "tuple"):
                for reverse in (False, True):
                    calls = []
                    recv = Obj("LogicalType-instance", combinator=comb if recv_kind == "same" else ("^" if recv_kind == "other" else None),
                               args=[P, Q], _bases=("LogicalType",),
                               combine=lambda c_, *a_: calls.append((c_, list(a_))) or "built")
                    if other_kind == "same":
                        other = Obj("LogicalType-instance", combinator=comb, args=[R_, S_], _bases=("LogicalType",))
                    elif other_kind == "other-comb":
                        other = Obj("LogicalType-instance", combinator="^", args=[R_, S_], _bases=("LogicalType",))
                    elif other_kind == "tuple":
                        other = (R_, S_)
                    else:
                        other = R_
                    ip = Interp(globals_={"LogicalType": "LogicalType"}, module=h.module)
                    try:
                        ip.call_function(h.node, (recv, comb, other), {"reverse": reverse})
                    except Raised as r:
                        calls.append(("raises", r.cls))
                    n_cases += 1
                    left = [P, Q] if recv_kind == "same" else [recv]
                    right = [R_, S_] if other_kind in ("same", "tuple") else [other]
                    want = (comb, (right + left) if reverse else (left + right))
                    got = calls[0] if calls else None
                    ok = got is not None and got[0] == want[0] and len(got[1]) == len(want[1]) and all(
                        x is y for x, y in zip(got[1], want[1]))
                    if not ok:
                        bad.setdefault(f"receiver {recv_kind}, other {other_kind}, reverse={reverse}",
                                       (comb, [getattr(x, "_cls", x) for x in (got[1] if got and isinstance(got[1], list) else [])],
                                        [getattr(x, "_cls", x) for x in want[1]]))
    run.check("R09d", h, "nested combinators of the same kind flatten (both operands), operand order kept", not bad,
              construct="flattening", message="LogicalType.combine_by does not splice the arguments of an operand that "
              "already is the same combinator (or changes the operand order): " + "; ".join(
                  f"[{k}] combines {v[1]} instead of {v[2]}" for k, v in sorted(bad.items())[:2]),
              necessity="(A | B) | C would nest instead of flatten; a reflected operator would swap the conjunction order")
    run.floor("R09d", "operand shapes evaluated for combine_by", n_cases, 40)


OPERATOR_METHODS = ("__and__", "__rand__", "__or__", "__ror__", "__xor__", "__rxor__", "__invert__", "combine_by",
                    "all_of", "any_of", "one_of", "not_of")


def r09e(run):
    """the union always ends with an attempt under exactly the caller's options (read off the stage table)"""
    from . import logic_table as lt
    f = run.repo.func("utype.parser.rule", "LogicalType.logical_parse")
    table = lt.stage_table(run)
    wrong = [(k, [lt.stage_name(x) for x in v]) for k, v in sorted(table.items()) if not v or v[-1] is not None]
    run.check("R09e", f, "the union's last stage converts with the caller's own options, unconditionally", not wrong,
              construct="no unconditional common stage in the union",
              message="the `|` branch does not end with an attempt under exactly the caller's options: "
                      + "; ".join(f"(no_data_loss, no_explicit_cast)={k}: stages {v}" for k, v in wrong[:2]),
              necessity="with only one of no_data_loss / no_explicit_cast set the union rejects values one of its "
                        "arguments accepts under the same options: (int | None)('3') under Options(no_data_loss=True)")


def r09f(run):
    """building a combinator never modifies its operands (types are shared: a widened copy must not alter the original,
    and nothing may be memoised on a class where subclasses inherit it)"""
    L = run.repo.cls("utype.parser.rule", "LogicalType")
    total = 0
    for name in OPERATOR_METHODS:
        f = L.methods.get(name)
        if f is None:
            continue
        total += 1
        fa = analysis(f)
        P = prov(fa)
        bad = []
        operands = {p for p in f.params}
        for n in fa.cfg.nodes:
            if n.kind != "stmt" or n.ast is None:
                continue
            st = n.ast
            tg = st.targets if isinstance(st, ast.Assign) else [st.target] if isinstance(st, (ast.AugAssign, ast.AnnAssign)) else []
            for t in tg:
                if isinstance(t, (ast.Attribute, ast.Subscript)):
                    root = t
                    while isinstance(root, (ast.Attribute, ast.Subscript)):
                        root = root.value
                    if isinstance(root, ast.Name) and root.id in operands:
                        bad.append(f"`{norm_stmt(st)[:50]}` stores into the operand `{root.id}`")
                if isinstance(st, ast.AugAssign) and isinstance(t, ast.Name) and t.id in fa.rd.locals:
                    # `parts += x` extends a list in place: harmful when parts aliases an attribute of an operand
                    for o in P.of_name(n, t.id):
                        if o.kind == "attr" and o.text.split(".")[0] in operands:
                            bad.append(f"`{norm_stmt(st)[:50]}` extends `{o.text}` in place")
            for c in fa.calls_at(n):
                if isinstance(c.func, ast.Name) and c.func.id in ("setattr", "delattr") and c.args \
                        and isinstance(c.args[0], ast.Name) and c.args[0].id in operands:
                    bad.append(f"`{unparse(c)[:50]}` sets an attribute on the operand")
                if isinstance(c.func, ast.Attribute) and c.func.attr in ("append", "extend", "insert", "remove", "pop", "sort",
                                                                          "reverse", "clear", "update", "add"):
                    recv = c.func.value
                    srcs = []
                    if isinstance(recv, ast.Attribute):
                        r0 = recv
                        while isinstance(r0, ast.Attribute):
                            r0 = r0.value
                        if isinstance(r0, ast.Name) and r0.id in operands:
                            srcs.append(unparse(recv))
                    elif isinstance(recv, ast.Name) and recv.id in fa.rd.locals:
                        for o in P.of_name(n, recv.id):
                            if o.kind == "attr" and o.text.split(".")[0] in operands:
                                srcs.append(o.text)
                    if srcs:
                        bad.append(f"`{unparse(c)[:50]}` mutates `{srcs[0]}`")
        run.check("R09f", f, f"LogicalType.{name} does not modify its operands", not bad,
                  construct=f"{name} modifies an operand",
                  message=f"LogicalType.{name}: " + "; ".join(bad[:3]),
                  necessity="types are shared objects: `base | str` extending base's own argument list makes the earlier "
                            "built `base` accept strings; a result memoised on a class is inherited by its subclasses, so "
                            "~Sub returns Not(Base) once ~Base was evaluated")
    run.floor("R09f", "combinator construction methods", total, 9)


def check(run):
    run.rules_run += ["R09a", "R09b", "R09c", "R09d", "R09e", "R09f"]
    run.explain("C09: the branches of logical_parse are discovered from the combinator literal they test; (R09a) in "
                "| ^ ~ every conversion receives the original input (reaching definitions = the parameter only), & "
                "threads the running value; (R09b) ~ never reassigns the input, | and ^ return either the exact-type "
                "guarded input or the result of a conversion of the original input; (R09c) error discipline of each "
                "branch; (R09d) operator methods build the combinator they denote and the construction algebra "
                "(double negation, dedupe, Any, collapse, flatten) is present.")
    run.rule(r09, run)
    run.rule(r09d, run)
    run.rule(r09e, run)
    run.rule(r09f, run)
    # shared with C10: each argument is tried in a layer of its own only if enter() really opens one
    from . import c10
    run.rules_run += ["R10g", "R10c"]
    run.rule(c10.r10g, run)
    # the ~ and ^ branches raise their violation inside the try that swallows argument failures: only the entry that
    # handle_error records before raising makes the final raise_error() reject
    run.rule(c10.r10c, run)
    # an error is handed to the context whose owner flushes it (a violation reported on a throw-away child layer is lost)
    from . import c04
    run.rules_run.append("R10e")
    run.rule(c10.r10e, run, c04.in_scope_functions(run))
