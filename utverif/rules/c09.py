"""C09 - logical type combinators mean what they say.

R09a subject invariance   R09b result provenance   R09c exits of the conversion loops   R09d construction algebra
"""
import ast
from typing import Dict, List, Optional

from ..cfg import analysis, FuncAnalysis, Node, N, E, is_handle_error_call
from ..lib import prov, is_convert_call, convert_value_arg, exc_class_of_ctor
from ..model import AnalysisError, call_attr, kwarg, unparse, walk_shallow, norm_stmt, names_in, kwarg_given

COMBS = ["&", "|", "^", "~"]


def branch_of(fa: FuncAnalysis, n: Node) -> Optional[str]:
    for a, p in fa.facts.atoms_at(n):
        if p and isinstance(a, ast.Compare) and len(a.ops) == 1 and isinstance(a.ops[0], ast.Eq):
            l, r = a.left, a.comparators[0]
            if unparse(l).endswith(".combinator") and isinstance(r, ast.Constant) and r.value in COMBS:
                return r.value
    return None


def r09(run):
    f = run.repo.func("utype.parser.rule", "LogicalType.logical_parse")
    fa = analysis(f)
    subj = f.params[1] if len(f.params) > 1 else "value"
    converts = [(n, c) for n, c in fa.all_calls() if is_convert_call(fa, n, c)]
    per: Dict[str, list] = {k: [] for k in COMBS}
    for n, c in converts:
        b = branch_of(fa, n)
        if b is None:
            raise AnalysisError(f"R09: convert call at {f.loc(c)} is in no combinator branch")
        per[b].append((n, c))
    for k in COMBS:
        run.floor("R09a", f"convert calls in the `{k}` branch", len(per[k]), 1)
    # R09a
    for k in ("|", "^", "~"):
        for n, c in per[k]:
            arg = convert_value_arg(c)
            is_subj = isinstance(arg, ast.Name) and arg.id == subj
            only_param = is_subj and fa.rd.is_param_only(n, subj)
            run.check("R09a", f, f"`{k}` branch: `{unparse(c)[:60]}` converts the original input", bool(only_param),
                      construct=f"`{k}` branch converts a threaded value",
                      message=f"in the `{k}` branch `{unparse(c)}` receives `{unparse(arg)}` whose reaching definitions "
                              f"include a reassignment inside the branch (the result of an earlier argument's "
                              f"conversion leaks into the next one)",
                      necessity="whether a later argument accepts then depends on what an earlier argument turned "
                                "the input into: (int ^ R)('3.0') and (R ^ int)('3.0') give different verdicts",
                      node=c)
    for n, c in per["&"]:
        arg = convert_value_arg(c)
        target_ok = n.kind == "stmt" and isinstance(n.ast, ast.Assign) and len(n.ast.targets) == 1 \
            and isinstance(n.ast.targets[0], ast.Name) and isinstance(arg, ast.Name) and n.ast.targets[0].id == arg.id
        run.check("R09a", f, "`&` branch threads the running value through its arguments", target_ok,
                  construct="`&` branch does not thread", message=f"in the `&` branch `{norm_stmt(n.ast)}` does not "
                  f"assign the conversion result back to the value it converts",
                  necessity="conjunction must apply each argument to the running value", node=c)
    # R09b: assignments to the returned variable, and returns, per branch
    branch_nodes: Dict[str, List[Node]] = {k: [] for k in COMBS}
    for n in fa.cfg.nodes:
        if n.kind in ("stmt", "test", "iter", "with") and fa.cfg.is_live(n):
            b = branch_of(fa, n)
            if b:
                branch_nodes[b].append(n)

    def is_convert_result(n: Node, e, depth=0, allow_subject=False) -> bool:
        if depth > 4:
            return False
        os_ = prov(fa).of_expr(n, e)
        if not os_:
            return False
        for o in os_:
            if o.kind == "call" and any(o.node is c for _, c in converts):
                continue
            if allow_subject and o.kind == "param" and o.text == subj:
                continue      # the unchanged input itself (e.g. the initial value of the result variable)
            return False
        return True

    # definitions of the subject made inside a branch that reach a `return <subject>` (a dead store is harmless)
    ret_subj = [n for n in fa.cfg.nodes if n.kind == "stmt" and isinstance(n.ast, ast.Return) and fa.cfg.is_live(n)
                and isinstance(n.ast.value, ast.Name) and n.ast.value.id == subj]
    run.floor("R09b", "returns of the subject in logical_parse", len(ret_subj), 1)
    for k in ("|", "^", "~"):
        inside = set(branch_nodes[k])
        seen = set()
        for r in ret_subj:
            for d in fa.rd.defs_of(r, subj):
                if d in inside and d.kind == "stmt" and isinstance(d.ast, (ast.Assign, ast.AugAssign)) and d not in seen:
                    seen.add(d)
                    a = d.ast
                    if k == "^":
                        ok = isinstance(a, ast.Assign) and is_convert_result(d, a.value, allow_subject=True) \
                            and not any(c for nn, c in converts if nn is d)
                        msg = "is not the recorded result of the single accepting conversion of the original input"
                    else:
                        ok = False
                        msg = ("reassigns the input, and that value reaches `return " + subj + "`: the branch must "
                               "return the input unchanged / a conversion result of the original input")
                    run.check("R09b", f, f"`{k}` branch: `{norm_stmt(a)[:60]}` keeps the result provenance", ok,
                              construct=f"`{k}` branch reassigns the subject",
                              message=f"in the `{k}` branch `{norm_stmt(a)}` {msg}",
                              necessity="negation must return the input unchanged; a union / exclusive-or must return "
                                        "the conversion of the *original* input by an accepting argument", node=a)
        run.ob("R09b", f, f"`{k}` branch: {len(seen)} definition(s) of the subject reach a return", True)
    for k in ("|", "^", "~"):
        for n in branch_nodes[k]:
            if n.kind != "stmt":
                continue
            a = n.ast
            if isinstance(a, ast.Return):
                v = a.value
                facts = {(unparse(x), p) for x, p in fa.facts.atoms_at(n)}
                # the guard is the bare exact-type comparison, not a disjunction that also admits subclass instances
                exact = any(p and isinstance(x, ast.Compare) and len(x.ops) == 1 and isinstance(x.ops[0], ast.Eq)
                            and unparse(x.left) == f"type({subj})" for x, p in fa.facts.atoms_at(n))
                if isinstance(v, ast.Name) and v.id == subj:
                    ok = exact and fa.rd.is_param_only(n, subj)
                    why = "returns the input without the exact-type guard"
                else:
                    ok = k != "~" and is_convert_result(n, v)
                    why = "returns something that is neither the guarded input nor a conversion result"
                run.check("R09b", f, f"`{k}` branch: `{norm_stmt(a)[:50]}` returns the guarded input or a conversion "
                                     f"result", ok, construct=f"`{k}` branch early return",
                          message=f"in the `{k}` branch `{norm_stmt(a)}` {why}",
                          necessity="a value no argument accepted (or a half-converted value) is handed back", node=a)
    # exact-type shortcut precedes the conversions of `|` and `^`
    for k in ("|", "^"):
        shortcuts = [n for n in branch_nodes[k] if n.kind == "test" and unparse(n.ast).startswith(f"type({subj}) ==")]
        # the shortcut test sits in a loop over the arguments: that loop (its header) must dominate the conversions
        heads = []
        for s_ in shortcuts:
            loops = [m for m in branch_nodes[k] if m.kind == "iter" and any(x is s_.stmt for x in walk_shallow(m.stmt))]
            heads += loops or [s_]
        ok = bool(shortcuts) and all(any(fa.cfg.dominates(h_, n) for h_ in heads) for n, c in per[k])
        run.check("R09b", f, f"`{k}` branch: the exact-type shortcut dominates every conversion", ok,
                  construct=f"`{k}` branch exact-type shortcut",
                  message=f"the `{k}` branch converts before (or without) testing `type({subj}) == con`",
                  necessity="a value that already has exactly one of the argument types must be returned unchanged")
    # R09c: `~`: success of the conversion leads to a NegateViolatedError, the handler accepts silently
    for n, c in per["~"]:
        succ = fa.cfg.reach_from_succ(n, kinds=(N,))
        viol = [m for m in succ if m.kind == "stmt" and any(
            is_handle_error_call(x) and x.args and exc_class_of_ctor(x.args[0]) == "NegateViolatedError"
            for x in fa.calls_at(m)) and branch_of(fa, m) == "~"]
        run.check("R09c", f, "`~` branch: a successful conversion is reported as NegateViolatedError", bool(viol)
                  and all(fa.cfg.dominates(n, m) for m in viol),
                  construct="`~` branch does not reject on success",
                  message="in the `~` branch a successful conversion of the argument is not followed by "
                          "handle_error(NegateViolatedError)",
                  necessity="negation would accept values its argument accepts", node=c)
        hs = [s for s, kk in n.succ if kk == E and s.kind == "handler"]
        for h in hs:
            body_calls = [x for st in h.handler.body for x in walk_shallow(st) if isinstance(x, ast.Call)]
            bad = [x for x in body_calls if call_attr(x) in ("handle_error", "collect_tmp_error")]
            reraises = [st for st in h.handler.body for x in walk_shallow(st) if isinstance(x, ast.Raise)]
            run.check("R09c", f, "`~` branch: a failing conversion is accepted (no error recorded)", not bad and not reraises,
                      construct="`~` branch rejects on failure",
                      message="in the `~` branch the handler of a failed conversion records or raises an error",
                      necessity="negation would reject values its argument rejects", node=h.handler)
    # `^`: the conversion loop runs over every argument: no return inside it
    for n, c in per["^"]:
        loops = [m for m in branch_nodes["^"] if m.kind == "iter" and any(x is c for x in walk_shallow(m.stmt))]
        for lp in loops:
            viol_nodes = [m for m, cc in fa.all_calls() if call_attr(cc) == "handle_error" and cc.args
                          and "OneOfViolatedError" in unparse(cc.args[0])]
            rets = []
            for x in walk_shallow(lp.stmt):
                if isinstance(x, ast.Return):
                    rets.append(x)
                elif isinstance(x, ast.Break):
                    bn = fa.cfg.stmt_nodes.get(id(x))
                    # leaving the loop early is fine once the violation has been reported, never on the accepting path
                    if bn is None or not any(fa.cfg.dominates(v, bn) for v in viol_nodes):
                        rets.append(x)
            run.check("R09c", f, "`^` branch: the conversion loop visits every argument (no return / break on the "
                                 "accepting path)", not rets,
                      construct="`^` branch returns inside the conversion loop",
                      message="the `^` branch returns from inside its conversion loop: later arguments are never "
                              "tested against the input", necessity="an input accepted by two arguments is accepted "
                              "(with the first one's result) instead of being rejected",
                      node=rets[0] if rets else None)
    # `^`: second acceptance -> OneOfViolatedError; the accepting flag is reset/recorded
    one = [m for m in branch_nodes["^"] if m.kind == "stmt" and any(
        is_handle_error_call(x) and x.args and exc_class_of_ctor(x.args[0]) == "OneOfViolatedError"
        for x in fa.calls_at(m))]
    run.check("R09c", f, "`^` branch: a second accepting argument is reported as OneOfViolatedError", bool(one),
              construct="`^` branch lacks OneOfViolatedError", message="the `^` branch never reports OneOfViolatedError",
              necessity="exclusive-or would accept inputs that several arguments accept")
    for m in one:
        facts = {(unparse(x), p) for x, p in fa.facts.atoms_at(m)}
        ok = any(("is None" in t and not p) or ("is not None" in t and p) for t, p in facts)
        run.check("R09c", f, "the OneOfViolatedError is raised exactly when an earlier argument already accepted", ok,
                  construct="`^` violation guard", message=f"`{norm_stmt(m.ast)[:60]}` is not guarded by the "
                  f"'an argument already accepted' flag", node=m.ast)
    # `|`/`^`: a failed conversion is kept as a temporary error (raised only if nothing accepts)
    for k in ("|", "^"):
        for n, c in per[k]:
            hs = [s for s, kk in n.succ if kk == E and s.kind == "handler"]
            ok = bool(hs) and all(any(isinstance(x, ast.Call) and call_attr(x) == "collect_tmp_error"
                                      for st in h.handler.body for x in walk_shallow(st)) for h in hs)
            run.check("R09c", f, f"`{k}` branch: a failing argument is recorded as temporary error", ok,
                      construct=f"`{k}` branch handler", message=f"in the `{k}` branch the handler around "
                      f"`{unparse(c)[:50]}` does not collect_tmp_error",
                      necessity="if every argument fails nothing would be raised: the raw input is returned", node=c)
    # `|`: success clears the temporary errors before returning
    for n in branch_nodes["|"]:
        if n.kind == "stmt" and isinstance(n.ast, ast.Return) and not (
                isinstance(n.ast.value, ast.Name) and n.ast.value.id == subj):
            clears = [m for m in branch_nodes["|"] if m.kind == "stmt" and any(
                call_attr(x) == "clear_tmp_error" for x in fa.calls_at(m)) and fa.cfg.dominates(m, n)]
            # the clear must happen after the conversion that produced the value
            run.check("R09c", f, "`|` branch: temporary errors of earlier arguments are cleared on success", bool(clears),
                      construct="`|` success without clear_tmp_error",
                      message=f"`{norm_stmt(n.ast)}` returns a conversion result without clearing temporary errors",
                      node=n.ast)


OP_TABLE = {"__and__": "&", "__rand__": "&", "__or__": "|", "__ror__": "|", "__xor__": "^", "__rxor__": "^",
            "__invert__": "~", "all_of": "&", "any_of": "|", "one_of": "^", "not_of": "~"}


def r09d(run):
    n_ops = 0
    for mod, clsname in (("utype.parser.rule", "LogicalType"), ("utype.schema", "LogicalMeta")):
        C = run.repo.cls(mod, clsname)
        for m, lit in OP_TABLE.items():
            f = C.methods.get(m)
            if f is None:
                continue
            lits = set()
            for sub in walk_shallow(f.node):
                if isinstance(sub, ast.Call) and call_attr(sub) in ("combine", "combine_by") and sub.args \
                        and isinstance(sub.args[0], ast.Constant):
                    lits.add(sub.args[0].value)
            if not lits:
                # delegation to the other operand's reflected method only
                continue
            n_ops += 1
            run.check("R09d", f, f"{clsname}.{m} builds the `{lit}` combinator", lits == {lit},
                      construct=f"operator {m} builds {sorted(lits)}",
                      message=f"{clsname}.{m} combines with {sorted(lits)} instead of `{lit}`",
                      necessity="the operator would build a different combinator than it denotes")
            if m.startswith("__r") and clsname == "LogicalType":
                rev = any(isinstance(sub, ast.Call) and call_attr(sub) == "combine_by" and
                          isinstance(kwarg(sub, "reverse"), ast.Constant) and kwarg(sub, "reverse").value is True
                          for sub in walk_shallow(f.node))
                run.check("R09d", f, f"reflected operator {m} keeps the operand order (reverse=True)", rev,
                          construct=f"{m} operand order", message=f"{m} does not pass reverse=True",
                          necessity="conjunction applies its arguments in order; a swapped order changes the result")
    run.floor("R09d", "operator methods building combinators", n_ops, 10)
    # double negation cancels
    f = run.repo.func("utype.parser.rule", "LogicalType.__invert__")
    fa = analysis(f)
    ok = False
    for n in fa.cfg.nodes:
        if n.kind == "stmt" and isinstance(n.ast, ast.Return) and unparse(n.ast.value) in ("cls.args[0]",):
            if any(unparse(a) == "cls.combinator == '~'" and p for a, p in fa.facts.atoms_at(n)):
                ok = True
    run.check("R09d", f, "double negation cancels (~(~T) returns T)", ok, construct="double negation",
              message="LogicalType.__invert__ does not return the argument of an existing negation",
              necessity="~~T would be a Not(Not(T)) type: 'double negation cancels' fails")
    # combine as a decision table (absint.py): every argument list of length 0..3 over {X, Y, Any, a name given as text} for
    # each operator, compared with the construction algebra: duplicates are skipped (first occurrence kept, order kept),
    # Any absorbs | and ^, Any is dropped from &, nothing left gives the universal rule, a single remaining argument is
    # returned as it is (except for ~), otherwise a new combinator type carries the arguments and the operator
    import itertools
    from ..absint import Interp, Obj, Raised
    g = run.repo.func("utype.parser.rule", "LogicalType.combine")
    ANY, RULE, X, Y = Obj("Any"), Obj("Rule"), Obj("X"), Obj("Y")
    built = []

    def make_type(name, bases, ns):
        t_ = Obj("combined", name=name, ns=ns)
        built.append(t_)
        return t_
    wrong = {}
    total = 0
    for op in ("&", "|", "^", "~"):
        for n_ in range(0, 5 if run.thorough else 4):         # thorough: argument lists of up to four
            for args in itertools.product((X, Y, ANY), repeat=n_):
                if op == "~" and n_ != 1:
                    continue
                mcs = Obj("LogicalType", _parse_arg=lambda a_: a_, _call=make_type)
                ip = Interp(globals_={"Any": ANY, "Rule": RULE, "ForwardRef": lambda s_: Obj("ForwardRef", arg=s_)},
                            module=g.module)
                try:
                    got = ip.call_function(g.node, (mcs, op) + args, {})
                except Raised as r:
                    got = f"raises {r.cls}"
                total += 1
                kept = []
                absorbed = False
                for a_ in args:
                    if a_ is ANY:
                        if op in ("|", "^"):
                            absorbed = True
                            break
                        if op == "&":
                            continue
                    if not any(a_ is k for k in kept):
                        kept.append(a_)
                if absorbed or not kept:
                    want = RULE
                elif op != "~" and len(kept) == 1:
                    want = kept[0]
                else:
                    want = ("type", op, kept)
                names = [x._cls for x in args]
                if isinstance(want, tuple):
                    ok = isinstance(got, Obj) and got._cls == "combined" and list(got.ns.get("__args__", [])) == kept \
                        and got.ns.get("__combinator__") == op
                else:
                    ok = got is want
                if not ok:
                    clause = ("Any absorbs a union / exclusive-or" if absorbed else
                              "nothing left gives the universal rule" if not kept else
                              "a single remaining argument collapses to itself (except for ~)" if not isinstance(want, tuple) else
                              "duplicates are skipped, order kept, Any dropped from a conjunction")
                    wrong.setdefault(clause, (f"{op} over {names}", repr(got)[:60],
                                              [k._cls for k in kept] if isinstance(want, tuple) else want._cls))
    for clause, nec in (("Any absorbs a union / exclusive-or", "T | Any would still convert to T"),
                        ("nothing left gives the universal rule", "AllOf(Any) would be an empty conjunction type"),
                        ("a single remaining argument collapses to itself (except for ~)", "T | T would be a one-argument union type instead of T"),
                        ("duplicates are skipped, order kept, Any dropped from a conjunction", "T | T would keep two arguments; T & Any would carry a useless argument")):
        w = wrong.get(clause)
        run.check("R09d", g, f"combine: {clause}", w is None, construct=f"combine: {clause}",
                  message=f"LogicalType.combine no longer implements: {clause} - for `{w[0] if w else ''}` it builds "
                          f"{w[1] if w else ''} instead of {w[2] if w else ''}", necessity=nec)
    run.floor("R09d", "argument lists evaluated for combine", total, 100)
    # flattening in combine_by, as a decision table: the receiver is / is not a combinator of the same kind, the other
    # operand is a same-kind combinator / another combinator / a plain type / a tuple of types, reverse on / off: the
    # arguments handed to combine() are the spliced arguments of same-kind operands, in operand order
    h = run.repo.func("utype.parser.rule", "LogicalType.combine_by")
    P, Q, R_, S_ = Obj("P"), Obj("Q"), Obj("R"), Obj("S")
    bad = {}
    n_cases = 0
    for comb in ("|", "&"):
        for recv_kind in ("same", "other", "plain"):
            for other_kind in ("same", "other-comb", "plain", "tuple"):
                for reverse in (False, True):
                    calls = []
                    recv = Obj("LogicalType-instance", combinator=comb if recv_kind == "same" else ("^" if recv_kind == "other" else None),
                               args=[P, Q], _bases=("LogicalType",),
                               combine=lambda c_, *a_: calls.append((c_, list(a_))) or "built")
                    if other_kind == "same":
                        other = Obj("LogicalType-instance", combinator=comb, args=[R_, S_], _bases=("LogicalType",))
                    elif other_kind == "other-comb":
                        other = Obj("LogicalType-instance", combinator="^", args=[R_, S_], _bases=("LogicalType",))
                    elif other_kind == "tuple":
                        other = (R_, S_)
                    else:
                        other = R_
                    ip = Interp(globals_={"LogicalType": "LogicalType"}, module=h.module)
                    try:
                        ip.call_function(h.node, (recv, comb, other), {"reverse": reverse})
                    except Raised as r:
                        calls.append(("raises", r.cls))
                    n_cases += 1
                    left = [P, Q] if recv_kind == "same" else [recv]
                    right = [R_, S_] if other_kind in ("same", "tuple") else [other]
                    want = (comb, (right + left) if reverse else (left + right))
                    got = calls[0] if calls else None
                    ok = got is not None and got[0] == want[0] and len(got[1]) == len(want[1]) and all(
                        x is y for x, y in zip(got[1], want[1]))
                    if not ok:
                        bad.setdefault(f"receiver {recv_kind}, other {other_kind}, reverse={reverse}",
                                       (comb, [getattr(x, "_cls", x) for x in (got[1] if got and isinstance(got[1], list) else [])],
                                        [getattr(x, "_cls", x) for x in want[1]]))
    run.check("R09d", h, "nested combinators of the same kind flatten (both operands), operand order kept", not bad,
              construct="flattening", message="LogicalType.combine_by does not splice the arguments of an operand that "
              "already is the same combinator (or changes the operand order): " + "; ".join(
                  f"[{k}] combines {v[1]} instead of {v[2]}" for k, v in sorted(bad.items())[:2]),
              necessity="(A | B) | C would nest instead of flatten; a reflected operator would swap the conjunction order")
    run.floor("R09d", "operand shapes evaluated for combine_by", n_cases, 40)


OPERATOR_METHODS = ("__and__", "__rand__", "__or__", "__ror__", "__xor__", "__rxor__", "__invert__", "combine_by",
                    "all_of", "any_of", "one_of", "not_of")


def r09e(run):
    """the union always ends with an attempt under exactly the caller's options"""
    from . import c18
    f = run.repo.func("utype.parser.rule", "LogicalType.logical_parse")
    fa = analysis(f)
    FLAGS = ("no_data_loss", "no_explicit_cast")
    conv = [(n, c) for n, c in fa.all_calls() if is_convert_call(fa, n, c) and branch_of(fa, n) == "|"]
    free = [n for n, c in conv if not c18.flag_guards(fa, n, FLAGS)
            and not any(call_attr(x) == "enter" and kwarg_given(x, "options") is not None
                        for m in fa.cfg.dominators()[n] if m.kind == "with" for x in fa.calls_at(m))]
    run.check("R09e", f, "the union's last stage converts with the caller's own options, unconditionally", bool(free),
              construct="no unconditional common stage in the union",
              message="every conversion attempt of the `|` branch is guarded by the strictness flags or runs under stage "
                      "options: no attempt uses exactly the caller's options",
              necessity="with only one of no_data_loss / no_explicit_cast set the union rejects values one of its "
                        "arguments accepts under the same options: (int | None)('3') under Options(no_data_loss=True)")


def r09f(run):
    """building a combinator never modifies its operands (types are shared: a widened copy must not alter the original,
    and nothing may be memoised on a class where subclasses inherit it)"""
    L = run.repo.cls("utype.parser.rule", "LogicalType")
    total = 0
    for name in OPERATOR_METHODS:
        f = L.methods.get(name)
        if f is None:
            continue
        total += 1
        fa = analysis(f)
        P = prov(fa)
        bad = []
        operands = {p for p in f.params}
        for n in fa.cfg.nodes:
            if n.kind != "stmt" or n.ast is None:
                continue
            st = n.ast
            tg = st.targets if isinstance(st, ast.Assign) else [st.target] if isinstance(st, (ast.AugAssign, ast.AnnAssign)) else []
            for t in tg:
                if isinstance(t, (ast.Attribute, ast.Subscript)):
                    root = t
                    while isinstance(root, (ast.Attribute, ast.Subscript)):
                        root = root.value
                    if isinstance(root, ast.Name) and root.id in operands:
                        bad.append(f"`{norm_stmt(st)[:50]}` stores into the operand `{root.id}`")
                if isinstance(st, ast.AugAssign) and isinstance(t, ast.Name) and t.id in fa.rd.locals:
                    # `parts += x` extends a list in place: harmful when parts aliases an attribute of an operand
                    for o in P.of_name(n, t.id):
                        if o.kind == "attr" and o.text.split(".")[0] in operands:
                            bad.append(f"`{norm_stmt(st)[:50]}` extends `{o.text}` in place")
            for c in fa.calls_at(n):
                if isinstance(c.func, ast.Name) and c.func.id in ("setattr", "delattr") and c.args \
                        and isinstance(c.args[0], ast.Name) and c.args[0].id in operands:
                    bad.append(f"`{unparse(c)[:50]}` sets an attribute on the operand")
                if isinstance(c.func, ast.Attribute) and c.func.attr in ("append", "extend", "insert", "remove", "pop", "sort",
                                                                          "reverse", "clear", "update", "add"):
                    recv = c.func.value
                    srcs = []
                    if isinstance(recv, ast.Attribute):
                        r0 = recv
                        while isinstance(r0, ast.Attribute):
                            r0 = r0.value
                        if isinstance(r0, ast.Name) and r0.id in operands:
                            srcs.append(unparse(recv))
                    elif isinstance(recv, ast.Name) and recv.id in fa.rd.locals:
                        for o in P.of_name(n, recv.id):
                            if o.kind == "attr" and o.text.split(".")[0] in operands:
                                srcs.append(o.text)
                    if srcs:
                        bad.append(f"`{unparse(c)[:50]}` mutates `{srcs[0]}`")
        run.check("R09f", f, f"LogicalType.{name} does not modify its operands", not bad,
                  construct=f"{name} modifies an operand",
                  message=f"LogicalType.{name}: " + "; ".join(bad[:3]),
                  necessity="types are shared objects: `base | str` extending base's own argument list makes the earlier "
                            "built `base` accept strings; a result memoised on a class is inherited by its subclasses, so "
                            "~Sub returns Not(Base) once ~Base was evaluated")
    run.floor("R09f", "combinator construction methods", total, 9)


def check(run):
    run.rules_run += ["R09a", "R09b", "R09c", "R09d", "R09e", "R09f"]
    run.explain("C09: the branches of logical_parse are discovered from the combinator literal they test; (R09a) in "
                "| ^ ~ every conversion receives the original input (reaching definitions = the parameter only), & "
                "threads the running value; (R09b) ~ never reassigns the input, | and ^ return either the exact-type "
                "guarded input or the result of a conversion of the original input; (R09c) error discipline of each "
                "branch; (R09d) operator methods build the combinator they denote and the construction algebra "
                "(double negation, dedupe, Any, collapse, flatten) is present.")
    run.rule(r09, run)
    run.rule(r09d, run)
    run.rule(r09e, run)
    run.rule(r09f, run)
    # shared with C10: each argument is tried in a layer of its own only if enter() really opens one
    from . import c10
    run.rules_run += ["R10g", "R10c"]
    run.rule(c10.r10g, run)
    # the ~ and ^ branches raise their violation inside the try that swallows argument failures: only the entry that
    # handle_error records before raising makes the final raise_error() reject
    run.rule(c10.r10c, run)
    # an error is handed to the context whose owner flushes it (a violation reported on a throw-away child layer is lost)
    from . import c04
    run.rules_run.append("R10e")
    run.rule(c10.r10e, run, c04.in_scope_functions(run))
