"""C14 - JSON encoding round-trips through the parser (table / shape agreement only).

R14a every non-JSON-native type family of the C14 domain has a registered encoder and a registered converter
R14b every encoder is total on its type and returns a JSON-native value (by provenance)
R14c sign symmetry: a gate in front of a UTC-offset parse accepts '-' wherever it accepts '+'
R14d the sign of a textual duration multiplies the value built from *all* its components
R14e a stripped UTC marker creates the obligation to re-attach UTC on every return that parses the stripped text
R14f byte codecs of encoder and converter agree; decimals are rebuilt from their shortest text, not from the float

Undecided (the core): equality after the round trip for every value; format-language inclusion between
isoformat()/duration_iso_string and the strptime formats / DURATION_REGS.
"""
import ast
import re
from typing import Dict, List, Optional, Set

from ..cfg import analysis, decompose, N, E
from ..lib import fold_str, prov
from ..model import AnalysisError, call_attr, dotted, kwarg, unparse, walk_shallow, norm_stmt, names_in
from .c13 import _ret_kind, _facts

ENC = "utype.utils.encode"
TR = "utype.utils.transform"

# K-C14: non-JSON-native families of the property's domain -> names accepted in a registration (subclass-aware)
DOMAIN = {
    "datetime": {"datetime", "date"}, "date": {"date"}, "time": {"time"}, "timedelta": {"timedelta"},
    "Decimal": {"Decimal"}, "UUID": {"UUID"}, "Enum": {"Enum"}, "bytes": {"bytes"},
    "set": {"set"}, "tuple": {"tuple"}, "Mapping": {"Mapping", "dict"},
}
CONVERTER_FOR = {
    "datetime": {"datetime"}, "date": {"date"}, "time": {"time"}, "timedelta": {"timedelta"}, "Decimal": {"Decimal"},
    "UUID": {"UUID"}, "Enum": {"Enum"}, "bytes": {"bytes"}, "set": {"set"}, "tuple": {"tuple"},
    "Mapping": {"dict", "Mapping"},
}
# operations that need a total order / hashing of the elements: partial on JSON-faithful data (None with int, Enum members)
PARTIAL_OPS = {"sorted", "min", "max", "sort"}
JSON_KINDS = {"string", "integer", "number", "array", "object", "null", "boolean", "enum-value"}


def _registrations(mod, deco_prefixes):
    out = []
    for f in mod.functions.values():
        for d in f.node.decorator_list:
            if isinstance(d, ast.Call):
                nm = unparse(d.func)
                if any(nm.endswith(p) for p in deco_prefixes):
                    out.append((f, [unparse(a).split(".")[-1] for a in d.args]))
    return out


def r14a(run):
    enc = _registrations(run.repo.module(ENC), ("register_encoder",))
    conv = _registrations(run.repo.module(TR), ("registry.register",))
    run.floor("R14a", "encoder registrations", len(enc), 12)
    run.floor("R14a", "converter registrations", len(conv), 18)
    enc_types = {t for f, ts in enc for t in ts}
    conv_types = {t for f, ts in conv for t in ts}
    for fam, names in DOMAIN.items():
        run.check("R14a", f"{ENC}:encoder_registry", f"an encoder is registered for {fam}", bool(names & enc_types),
                  construct=f"no encoder for {fam}", message=f"no @register_encoder covers {fam} (needs one of {sorted(names)})",
                  necessity=f"json.dumps of an instance holding a {fam} raises TypeError: not JSON serializable")
    for fam, names in CONVERTER_FOR.items():
        run.check("R14a", f"{TR}:TypeTransformer.registry", f"a converter is registered for {fam}",
                  bool(names & conv_types), construct=f"no converter for {fam}",
                  message=f"no @registry.register covers {fam} (needs one of {sorted(names)})",
                  necessity=f"the encoded form of a {fam} field cannot be parsed back: the type is unresolved")
    # the encoder hook hands every non-native object to the registry
    d = run.repo.func(ENC, "JSONEncoder.default")
    da = analysis(d)
    res = [c for n, c in da.all_calls() if call_attr(c) == "resolve"]
    O = d.params[1] if len(d.params) > 1 else "o"
    ok = bool(res) and all(unparse(c.args[0]) == f"type({O})" for c in res if c.args)
    rets = [n for n in da.cfg.nodes if n.kind == "stmt" and isinstance(n.ast, ast.Return)]

    def is_resolved_encoder(n, fn) -> bool:
        # the callee is the resolve(...) result itself or a local bound to it (whatever the local is called)
        if isinstance(fn, ast.Call) and any(fn is c for c in res):
            return True
        if isinstance(fn, ast.Name):
            defs = da.rd.defs_of(n, fn.id)
            return bool(defs) and all(x.kind == "stmt" and isinstance(x.ast, ast.Assign) and any(x.ast.value is c for c in res)
                                      for x in defs)
        return False
    ok2 = any(isinstance(n.ast.value, ast.Call) and is_resolved_encoder(n, n.ast.value.func) and n.ast.value.args
              and unparse(n.ast.value.args[0]) == O for n in rets)
    run.check("R14a", d, "JSONEncoder.default resolves the encoder by the object's type and applies it to the object",
              ok and ok2, construct="JSONEncoder.default", message="JSONEncoder.default no longer returns "
              "encoder_registry.resolve(type(o))(o)", necessity="no registered encoder is ever applied")


def r14b(run):
    enc = _registrations(run.repo.module(ENC), ("register_encoder",))
    total = 0
    for f, types in enc:
        fa = analysis(f)
        param = f.params[0] if f.params else None
        for n in fa.cfg.nodes:
            if n.kind == "stmt" and isinstance(n.ast, ast.Return) and fa.cfg.is_live(n):
                total += 1
                v = n.ast.value
                if isinstance(v, ast.Name) and param and v.id == param and fa.rd.is_param_only(n, v.id):
                    kinds = {"the object itself"}
                else:
                    kinds = _ret_kind(fa, n, v)
                ok = kinds <= JSON_KINDS
                run.check("R14b", f, f"`{norm_stmt(n.ast)[:45]}` is JSON-native ({'/'.join(sorted(kinds))})", ok,
                          construct=f"encoder returns {'/'.join(sorted(kinds))}",
                          message=f"{f.name}: `{norm_stmt(n.ast)}` hands json a {'/'.join(sorted(kinds))}, not a "
                                  f"JSON-native value",
                          necessity="json.dumps calls default() again on the result: TypeError (not serializable) or "
                                    "unbounded recursion for values of " + ", ".join(types), node=n.ast)
        for n, c in fa.all_calls():
            nm = call_attr(c)
            if nm in PARTIAL_OPS:
                run.check("R14b", f, f"`{unparse(c)[:40]}` is total on the encoded type", False,
                          construct=f"partial operation {nm} in encoder",
                          message=f"{f.name} applies `{nm}` to the value: it needs a total order on the elements",
                          necessity="a set holding None and an int, or two members of a plain Enum, raises TypeError "
                                    "inside json.dumps: encoding fails for values of the domain", node=c)
    run.floor("R14b", "encoder returns", total, 14)


def r14c(run):
    """one-sided sign handling in front of a %z parse"""
    f = run.repo.func(TR, "TypeTransformer.to_datetime")
    fa = analysis(f)
    def _has_z(n, c) -> bool:
        """the format handed to strptime contains %z, written in the call or in a definition of a name it uses"""
        if "%z" in unparse(c):
            return True
        for a in c.args[1:] + [k.value for k in c.keywords]:
            for nm in names_in(a):
                for d in fa.rd.defs_of(n, nm):
                    if d.kind == "stmt" and isinstance(d.ast, ast.Assign) and any(
                            isinstance(x, ast.Constant) and isinstance(x.value, str) and "%z" in x.value
                            for x in ast.walk(d.ast.value)):
                        return True
        return False
    zs = [(n, c) for n, c in fa.all_calls() if call_attr(c) == "strptime" and _has_z(n, c)]
    manual = [(n, c) for n, c in fa.all_calls() if call_attr(c) == "timezone" and c.args
              and isinstance(c.args[0], ast.Call) and call_attr(c.args[0]) == "timedelta"]
    run.floor("R14c", "UTC-offset parses (%z attempts or hand-built offsets) in to_datetime", len(zs) + len(manual), 1)
    for n, c in manual:
        td = c.args[0]
        comps = [k.arg for k in td.keywords if k.arg in ("hours", "minutes", "seconds")]
        # a hand-built offset: one sign for all components?  accept `sign * timedelta(...)` / a sign factor per component
        signed_whole = False
        for sub in walk_shallow(n.ast):
            if isinstance(sub, ast.BinOp) and isinstance(sub.op, ast.Mult) and (sub.left is td or sub.right is td):
                signed_whole = True
            if isinstance(sub, ast.UnaryOp) and isinstance(sub.op, ast.USub) and sub.operand is td:
                signed_whole = True
        pats = [x.value for m in fa.cfg.nodes if m.ast is not None for x in ast.walk(m.ast)
                if isinstance(x, ast.Constant) and isinstance(x.value, str) and "[+-]" in x.value.replace("[-+]", "[+-]")]
        sign_in_component = any(re.search(r"\(\[[+-]{2}\]\\d", p_.replace("[-+]", "[+-]")) for p_ in pats)
        ok = len(comps) <= 1 or signed_whole or not sign_in_component
        run.check("R14c", f, "a hand-built UTC offset applies its sign to every component", ok,
                  construct="offset sign bound to the hours only",
                  message=f"`{unparse(c)[:70]}` builds the offset from separately captured groups; the sign is captured "
                          f"inside the hours group ({[p_[:40] for p_ in pats]}) and the other components are added unsigned",
                  necessity="'-03:30' is read back as -02:30 (hours -3, minutes +30): datetimes in zones west of UTC with "
                            "a fractional-hour offset do not round-trip", node=c)

    def sign_literals(e):
        return [s.value for s in ast.walk(e) if isinstance(s, ast.Constant) and isinstance(s.value, str)
                and ("+" in s.value or "-" in s.value)]

    def one_sided(e) -> Optional[str]:
        """text of a sign test that mentions '+' without an equivalent '-' alternative"""
        for sub in ast.walk(e):
            if isinstance(sub, ast.Compare) and len(sub.ops) == 1 and isinstance(sub.ops[0], (ast.In, ast.NotIn)) \
                    and isinstance(sub.left, ast.Constant) and isinstance(sub.left.value, str):
                lit = sub.left.value
                if "+" in lit and not any(ch.isalnum() for ch in lit):
                    twin = lit.replace("+", "-")
                    if not any(isinstance(o, ast.Constant) and o.value == twin for o in ast.walk(e)):
                        return unparse(sub)
            if isinstance(sub, ast.Call) and call_attr(sub) in ("startswith", "endswith", "find", "index", "count") \
                    and sub.args and isinstance(sub.args[0], ast.Constant) and sub.args[0].value in ("+", " +"):
                twin = sub.args[0].value.replace("+", "-")
                if not any(isinstance(o, ast.Constant) and o.value == twin for o in ast.walk(e)):
                    return unparse(sub)
            if isinstance(sub, ast.Call) and call_attr(sub) in ("search", "match", "fullmatch", "compile") and sub.args \
                    and isinstance(sub.args[0], ast.Constant) and isinstance(sub.args[0].value, str):
                pat = sub.args[0].value
                if ("\\+" in pat or "[+]" in pat) and not ("[+-]" in pat or "[-+]" in pat or "\\-" in pat
                                                           or re.search(r"\(\?:\\\+\|-\)|\(\\\+\|-\)", pat)):
                    return unparse(sub)
        return None

    for n, c in zs:
        # gates: branch conditions dominating the attempt, with the definitions of the names they test
        bad = None
        for b in fa.facts.branch_facts(n):
            exprs = [b.test]
            for nm in names_in(b.test):
                for o in prov(fa).of_name(b.pred[0][0], nm):
                    if o.node is not None and o.kind in ("call", "expr", "sub", "attr"):
                        exprs.append(o.node)
            for e in exprs:
                bad = bad or one_sided(e)
        run.check("R14c", f, "the gate of the UTC-offset attempt accepts negative offsets as well", bad is None,
                  construct="one-sided sign gate before %z",
                  message=f"the `%z` attempt `{unparse(c)[:60]}` is only reached when `{bad}` holds: text with a "
                          f"negative offset never gets there",
                  necessity="datetime.isoformat() writes '-05:00' for zones west of UTC: such a value is encoded but "
                            "parsing it back raises 'invalid datetime'", node=c)
        # the format suffix choice must not be one-sided either
        arg = c.args[1] if len(c.args) > 1 else None
        bad2 = one_sided(arg) if arg is not None else None
        run.check("R14c", f, "the choice between ' %z' and '%z' does not depend on a '+' only test", bad2 is None,
                  construct="one-sided sign test in %z format choice",
                  message=f"`{unparse(arg)[:70] if arg is not None else ''}` picks the separator by `{bad2}`",
                  necessity="'... -0500' (space before a negative offset) is parsed with the wrong format", node=c)


def r14d(run):
    f = run.repo.func(TR, "TypeTransformer.to_timedelta")
    fa = analysis(f)
    # the sign local is found by role: bound to an expression that pops the 'sign' group of the match
    signs = [n for n in fa.cfg.nodes if n.kind == "stmt" and isinstance(n.ast, ast.Assign) and len(n.ast.targets) == 1
             and isinstance(n.ast.targets[0], ast.Name) and "pop('sign'" in unparse(n.ast.value).replace('"', "'")]
    run.floor("R14d", "sign extraction in to_timedelta", len(signs), 1)
    sgn = signs[0]
    SIGN = sgn.ast.targets[0].id
    ok_src = isinstance(sgn.ast.value, ast.IfExp) and "pop('sign'" in unparse(sgn.ast.value).replace('"', "'")
    run.check("R14d", f, "the sign group is taken out of the components", ok_src, construct="sign extraction",
              message=f"`{norm_stmt(sgn.ast)}` does not pop the sign group from the matched components",
              necessity="the sign would be passed to the timedelta constructor as a component")
    rets = [n for n in fa.cfg.nodes if n.kind == "stmt" and isinstance(n.ast, ast.Return) and fa.cfg.is_live(n)
            and fa.cfg.dominates(sgn, n)]
    run.floor("R14d", "returns of a signed duration", len(rets), 1)
    for r in rets:
        v = r.ast.value
        whole = None
        if isinstance(v, ast.BinOp) and isinstance(v.op, ast.Mult):
            a, b = v.left, v.right
            if unparse(a) == SIGN:
                whole = b
            elif unparse(b) == SIGN:
                whole = a
        elif isinstance(v, ast.IfExp):
            # `-x if neg else x`
            if isinstance(v.body, ast.UnaryOp) and isinstance(v.body.op, ast.USub) and unparse(v.body.operand) == unparse(v.orelse):
                whole = v.orelse
        elif isinstance(v, ast.Name):
            for o in prov(fa).of_name(r, v.id):
                if o.kind == "expr" and isinstance(o.node, ast.BinOp) and isinstance(o.node.op, ast.Mult) \
                        and SIGN in (unparse(o.node.left), unparse(o.node.right)):
                    whole = o.node.right if unparse(o.node.left) == SIGN else o.node.left
        def sign_in_every_component(call) -> bool:
            # `t(**{k: sign * float(v) for k, v in kw.items() ...})`: the sign multiplies every component
            if not (isinstance(call, ast.Call) and not call.args and len(call.keywords) == 1 and call.keywords[0].arg is None):
                return False
            sp = call.keywords[0].value
            comps = [sp] if isinstance(sp, ast.DictComp) else []
            if isinstance(sp, ast.Name):
                comps = [o.node for o in prov(fa).of_name(r, sp.id) if isinstance(o.node, ast.DictComp)]
                if len(comps) != len(prov(fa).of_name(r, sp.id)):
                    return False
            return bool(comps) and all(
                isinstance(c.value, ast.BinOp) and isinstance(c.value.op, ast.Mult)
                and SIGN in (unparse(c.value.left), unparse(c.value.right)) for c in comps)
        distributed = False
        if whole is None:
            cand = v
            if isinstance(cand, ast.Name):
                os_ = [o for o in prov(fa).of_name(r, cand.id) if o.kind == "call"]
                cand = os_[0].node if len(os_) == 1 else cand
            if sign_in_every_component(cand):
                whole, distributed = cand, True
        ok = False
        why = "the returned value is not `sign * <duration>` (nor a duration whose every component carries the sign)"
        if whole is not None:
            if isinstance(whole, ast.Name):
                os_ = [o for o in prov(fa).of_name(r, whole.id) if o.kind == "call"]
                whole = os_[0].node if len(os_) == 1 else whole
            if isinstance(whole, ast.Call) and any(k.arg is None for k in whole.keywords):
                spread = [k.value for k in whole.keywords if k.arg is None][0]
                # the spread mapping must carry every component: no removal between its construction and the call
                removed = []
                if isinstance(spread, ast.Name):
                    for n, c in fa.all_calls():
                        if call_attr(c) in ("pop", "popitem", "clear") and isinstance(c.func, ast.Attribute) \
                                and unparse(c.func.value) == spread.id and fa.cfg.can_reach(n, r, kinds=(N,)):
                            removed.append(unparse(c))
                    for n in fa.cfg.nodes:
                        if n.kind == "stmt" and isinstance(n.ast, ast.Delete) and spread.id in unparse(n.ast) \
                                and fa.cfg.can_reach(n, r, kinds=(N,)):
                            removed.append(unparse(n.ast))
                ok = not removed and not whole.args and len(whole.keywords) == 1
                why = f"components are taken out before the signed value is built: {removed}" if removed else \
                    "the signed constructor call receives more than the matched components"
            else:
                why = "the signed operand is not the duration built from the matched components"
        run.check("R14d", f, f"`{norm_stmt(r.ast)[:50]}` applies the sign to the whole duration", ok,
                  construct="sign applied to part of the duration",
                  message=f"to_timedelta: `{norm_stmt(r.ast)}`: {why}",
                  necessity="duration_iso_string writes one leading '-' for the whole value ('-P1DT12H...'): applying it "
                            "to some components only parses timedelta(hours=-36) back as +12h", node=r.ast)
    # encoder side: exactly one sign, negating the whole value
    g = run.repo.func(ENC, "duration_iso_string")
    ga = analysis(g)
    neg = [n for n in ga.cfg.nodes if n.kind == "stmt" and isinstance(n.ast, (ast.AugAssign, ast.Assign))
           and "duration" in unparse(n.ast).split("=")[0] and ("-1" in unparse(n.ast) or "-duration" in unparse(n.ast))]
    ok = bool(neg) and all(any(t.startswith("duration <") and p for t, p in _facts(ga, n)) for n in neg)
    run.check("R14d", g, "duration_iso_string negates the whole value exactly when it writes the '-' sign", ok,
              construct="encoder sign", message="duration_iso_string no longer negates the duration under `duration < 0`",
              necessity="components of a negative timedelta (days=-1, seconds=86395) would be written as they are")


def r14e(run):
    f = run.repo.func(TR, "TypeTransformer.to_datetime")
    fa = analysis(f)
    # the flag is found by role: a local assigned from membership / suffix tests for the UTC markers on the text
    flag = [n for n in fa.cfg.nodes if n.kind == "stmt" and isinstance(n.ast, ast.Assign)
            and isinstance(n.ast.targets[0], ast.Name) and isinstance(n.ast.value, (ast.BoolOp, ast.Compare, ast.Call))
            and any(isinstance(x, ast.Constant) and x.value in ("GMT", "UTC", "Z") for x in ast.walk(n.ast.value))
            and not any(isinstance(x, ast.Call) and call_attr(x) in ("replace", "rstrip", "strip") for x in ast.walk(n.ast.value))]
    strip = [n for n in fa.cfg.nodes if n.kind == "stmt" and isinstance(n.ast, ast.Assign)
             and unparse(n.ast.targets[0]) == "data" and ("rstrip('Z')" in unparse(n.ast.value).replace('"', "'")
                                                           or "replace('UTC'" in unparse(n.ast.value).replace('"', "'"))]
    if not flag and not strip:
        run.ob("R14e", f, "no UTC marker is stripped from the text", True, nontrivial=False)
        return
    if strip and not flag:
        run.check("R14e", f, "a stripped UTC marker is remembered", False, construct="UTC marker dropped",
                  message="to_datetime strips 'Z'/'UTC'/'GMT' from the text without recording that the value is UTC",
                  necessity="'2020-01-02T03:04:05Z' parses to a naive datetime")
        return
    fl = flag[0]
    U = fl.ast.targets[0].id
    total = 0
    for r in fa.cfg.nodes:
        if r.kind != "stmt" or not isinstance(r.ast, ast.Return) or not fa.cfg.is_live(r):
            continue
        if not strip or not fa.cfg.can_reach(strip[0], r):
            continue
        v = r.ast.value
        # value parsed from the stripped text?
        srcs = []
        if isinstance(v, ast.Name):
            srcs = [o.node for o in prov(fa).of_name(r, v.id) if o.kind == "call"]
        elif isinstance(v, ast.Call):
            srcs = [v]
        inner = []
        for c0 in srcs:
            inner += [x for x in ast.walk(c0) if isinstance(x, ast.Call)]
        parsed = [c for c in inner if call_attr(c) in ("strptime", "fromisoformat", "fromtimestamp", "parse")
                  and any(isinstance(a, ast.Name) and a.id == "data" for a in c.args)]
        if not parsed:
            continue
        total += 1
        ok = False
        # `<parse>(data, ...).replace(tzinfo=E)` with E chosen by the flag
        if isinstance(v, ast.Call) and call_attr(v) == "replace" and kwarg(v, "tzinfo") is not None:
            e = kwarg(v, "tzinfo")
            exprs = [e]
            if isinstance(e, ast.Name):
                exprs += [o.at.ast.value for o in prov(fa).of_name(r, e.id)
                          if o.at is not None and isinstance(o.at.ast, ast.Assign)]
            ok = any(isinstance(x, ast.IfExp) and unparse(x.test) == U and "utc" in unparse(x.body)
                     for ex in exprs for x in ast.walk(ex))
        if isinstance(v, ast.Name):
            # some definition of v reaching the return (followed through plain copies) re-attaches UTC under the flag
            seen_d = set()
            work = [(r, v.id)]
            while work:
                at, nm = work.pop()
                for d in fa.rd.defs_of(at, nm):
                    if d in seen_d or d.kind != "stmt" or not isinstance(d.ast, ast.Assign):
                        continue
                    seen_d.add(d)
                    if isinstance(d.ast.value, ast.Name):
                        work.append((d, d.ast.value.id))
                    elif "tzinfo" in unparse(d.ast.value) and (U, True) in _facts(fa, d):
                        ok = True
        run.check("R14e", f, f"`{norm_stmt(r.ast)}` (parsed from the stripped text) re-attaches UTC when the marker was seen",
                  ok, construct=f"UTC flag ignored on a return of {call_attr(parsed[0])}(data)",
                  message=f"to_datetime returns `{unparse(parsed[0])[:50]}` of the text whose 'Z'/'UTC'/'GMT' marker was "
                          f"stripped without applying `{U}`",
                  necessity="a value encoded with a UTC marker comes back naive: the parsed instance is not equal to the "
                            "original (aware vs naive)", node=r.ast)
    run.floor("R14e", "returns parsed from the stripped text", total, 1)


def r14f(run):
    fb = run.repo.func(ENC, "from_bytes")
    tb = run.repo.func(TR, "TypeTransformer.to_bytes")

    def codecs(f, meth):
        out = set()
        for n, c in analysis(f).all_calls():
            if call_attr(c) == meth and isinstance(c.func, ast.Attribute):
                a = c.args[0] if c.args else kwarg(c, "encoding")
                out.add((a.value if isinstance(a, ast.Constant) else unparse(a)) if a is not None else "utf-8")
        return {str(x).lower().replace("_", "-").replace("utf8", "utf-8") for x in out}

    dec, enc = codecs(fb, "decode"), codecs(tb, "encode")
    run.check("R14f", fb, "bytes are published with the codec the converter encodes with (UTF-8)",
              dec == {"utf-8"} and enc == {"utf-8"}, construct="byte codec mismatch",
              message=f"from_bytes decodes with {sorted(dec)}, to_bytes encodes with {sorted(enc)}",
              necessity="non-ASCII UTF-8 bytes come back as different bytes")
    td = run.repo.func(TR, "TypeTransformer.to_decimal")
    ta = analysis(td)
    ctor = [n for n in ta.cfg.nodes if n.kind == "stmt" and isinstance(n.ast, ast.Return) and ta.cfg.is_live(n)
            and isinstance(n.ast.value, ast.Call) and unparse(n.ast.value.func) == "t"]
    run.floor("R14f", "Decimal constructions in to_decimal", len(ctor), 2)
    for n in ctor:
        a = n.ast.value.args[0]
        fs = _facts(ta, n)
        from_decimal_inst = ("isinstance(data, Decimal)", True) in fs
        txt = unparse(a)
        ok = from_decimal_inst or txt.startswith("str(")
        run.check("R14f", td, f"`{norm_stmt(n.ast)}` rebuilds the decimal from text", ok,
                  construct="Decimal built from a float",
                  message=f"to_decimal: `{norm_stmt(n.ast)}` passes the number itself to Decimal()",
                  necessity="from_decimal publishes 0.1 as the JSON number 0.1; Decimal(0.1) is "
                            "0.1000000000000000055511151231257827..., not Decimal('0.1')", node=n.ast)


def r14g(run):
    """the JSON text of a data class is decoded with the standard number / object decoding"""
    T = run.repo.cls(TR, "TypeTransformer")
    allowed = {"strict"}
    total = 0
    for f in T.methods.values():
        for c in walk_shallow(f.node):
            if isinstance(c, ast.Call) and unparse(c.func) in ("json.loads", "json.load"):
                total += 1
                extra = sorted(k.arg for k in c.keywords if k.arg not in allowed)
                run.check("R14g", f, f"`{unparse(c)[:50]}` uses the default JSON decoding", not extra,
                          construct=f"json decoding customised: {extra}",
                          message=f"{f.qualname}: `{unparse(c)[:80]}` customises the decoder with {extra}",
                          necessity="parse_float=Decimal (or an object hook) changes the Python type of values in loosely "
                                    "typed positions (dict, list, Any): 0.1 comes back as Decimal('0.1') and the "
                                    "re-parsed instance is not equal to the original", node=c)
    run.floor("R14g", "json.loads calls in the converters", total, 2)


def _fold_str(e) -> Optional[str]:
    if isinstance(e, ast.Constant) and isinstance(e.value, str):
        return e.value
    if isinstance(e, ast.JoinedStr):
        return None
    if isinstance(e, ast.BinOp) and isinstance(e.op, ast.Add):
        a, b = _fold_str(e.left), _fold_str(e.right)
        return a + b if a is not None and b is not None else None
    return None


def _regex_literals(pattern: str) -> str:
    """upper-case designator letters a regex requires / allows, in order (through groups and optional parts)"""
    import re._parser as sre   # the regex *parser* only: the pattern is data, nothing is matched
    out = []

    def walk(items):
        for op, arg in items:
            name = str(op)
            if name == "LITERAL":
                ch = chr(arg)
                if ch.isalpha() and ch.isupper():
                    out.append(ch)
            elif name == "SUBPATTERN":
                walk(arg[3])
            elif name in ("MAX_REPEAT", "MIN_REPEAT", "POSSESSIVE_REPEAT"):
                walk(arg[2])
            elif name == "BRANCH":
                for alt in arg[1]:
                    walk(alt)
            elif name in ("ASSERT", "ASSERT_NOT"):
                pass
    walk(sre.parse(pattern))
    return "".join(out)


def r14h(run):
    """the designators the duration encoder writes, in its order, are the ones the ISO duration regex reads"""
    g = run.repo.func(ENC, "duration_iso_string")
    fmt = None
    for c in walk_shallow(g.node):
        cand = None
        if isinstance(c, ast.Call) and isinstance(c.func, ast.Attribute) and c.func.attr == "format":
            cand = _fold_str(c.func.value)
        if isinstance(c, ast.JoinedStr):
            cand = "".join(v.value for v in c.values if isinstance(v, ast.Constant))
        if cand and "P" in cand:
            fmt = cand
    if not fmt or "P" not in fmt:
        raise AnalysisError("duration_iso_string: format template not found")
    enc = "".join(ch for ch in fmt if ch.isalpha() and ch.isupper())
    T = run.repo.cls(TR, "TypeTransformer")
    regs = T.assigns.get("DURATION_REGS")
    pats = []
    if isinstance(regs, (ast.List, ast.Tuple)):
        for e in regs.elts:
            if isinstance(e, ast.Call) and e.args:
                p_ = fold_str(e.args[0], T.assigns, run.repo.module(TR).assigns)
                if p_:
                    pats.append(p_)
    iso = [p_ for p_ in pats if "P" in _regex_literals(p_)]
    run.floor("R14h", "ISO duration patterns in DURATION_REGS", len(iso), 1)
    ok = any(_regex_literals(p_) == enc for p_ in iso)
    run.check("R14h", g, f"the encoder's designators `{enc}` are read back in the same order", ok,
              construct="duration designators differ between encoder and converter",
              message=f"duration_iso_string writes the designators `{enc}`; the ISO pattern(s) of DURATION_REGS read "
                      f"{[_regex_literals(p_) for p_ in iso]}",
              necessity="a designator the pattern does not know (or another order) makes every encoded timedelta fail "
                        "to parse back (or parse to another value)")
    signed = any("(?P<sign>" in p_ and ("[-+]" in p_ or "[+-]" in p_) for p_ in iso)
    emits_minus = any(isinstance(x, ast.Constant) and x.value == "-" for x in ast.walk(g.node))
    run.check("R14h", g, "the leading '-' the encoder writes is a named sign group of the pattern", signed or not emits_minus,
              construct="duration sign not readable", message="duration_iso_string writes a leading '-' but the ISO "
              "pattern has no sign group accepting it", necessity="negative durations do not parse back")


def check(run):
    run.rules_run += ["R14a", "R14b", "R14c", "R14d", "R14e", "R14f", "R14g", "R14h"]
    run.explain("Static agreement between the encoder table (utils/encode.py) and the converter table "
                "(utils/transform.py): coverage of the C14 domain on both sides, JSON-native and total encoders, sign "
                "symmetry of the UTC-offset gate, the duration sign applied to the whole value, the UTC marker "
                "re-attached on every parse of the stripped text, byte codec and decimal text agreement. Equality after "
                "the round trip is value-level and undecided.")
    run.rule(r14a, run)
    run.rule(r14b, run)
    run.rule(r14c, run)
    run.rule(r14d, run)
    run.rule(r14e, run)
    run.rule(r14f, run)
    run.rule(r14g, run)
    run.rule(r14h, run)
