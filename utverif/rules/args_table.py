"""The element parsers of constrained generics (Rule._parse_seq_args / _parse_map_args / _parse_tuple_args) as decision tables.

Each function (with whatever helpers it was split into) is interpreted by the checker's own interpreter (absint.py) over
modelled objects - nothing of the library runs - for every combination of: which elements / keys / values convert and which
fail, the three error policies (throw / exclude / preserve), errors raised at once or collected, and for fixed-length tuples
the length of the input against the declared prefix and the addition / no_data_loss options.  The outcome - the returned
container's contents as tokens (converted / raw), the errors, the warnings - is compared with the documented meaning of the
policies (C11) and with "the result holds conversion results only, raw elements only under preserve" (C01).
"""
import itertools
from typing import Dict, List, Tuple

from ..absint import Interp, Obj, Raised
from ..model import AnalysisError

POLS = ("throw", "exclude", "preserve")


class _St:
    def __init__(self, collect):
        self.collect = collect
        self.errors: List[Tuple[str, object]] = []
        self.warnings = 0
        self.converted: List[object] = []


def _exc():
    def ctor(name):
        def make(*a, **k):
            item = k.get("item")
            item = item if isinstance(item, (str, int)) else repr(item)
            return Obj(name, _exc=True, _bases=("ParseError", "Exception"), args=((("item", item),),),
                       formatted_message=f"{name}:{item}", item=item)
        return make
    return Obj("module exc", **{n: ctor(n) for n in ("ParseError", "AbsenceError", "TupleExceedError", "ExceedError")})


def _context(st: _St, ok, opts: dict):
    """ok(raw, type) -> bool"""
    def handle_error(e, force_raise=False):
        if isinstance(e, Obj) and e.__dict__.get("_exc"):
            e = Raised(e._cls, e.__dict__.get("args", ()), e.__dict__.get("_bases", ()))
        r = e if isinstance(e, Raised) else Raised("Exception", (repr(e),))
        st.errors.append((r.cls, r.args_[0] if r.args_ else ()))
        if force_raise or not st.collect:
            raise r

    def collect_waring(*a, **k):
        st.warnings += 1
    options = Obj("Options", EXCLUDE="exclude", PRESERVE="preserve", THROW="throw", **opts)

    def enter(route=None, options=None, **k):
        def apply(value, t, func=None, **kk):
            tn = t.__dict__.get("__name__", "?") if isinstance(t, Obj) else str(t)
            if ok(value, tn):
                return ("conv", value, tn)
            raise Raised("TypeError", (f"{value!r} is no {tn}",), bases=("Exception",))
        tr = Obj("TypeTransformer", apply=apply)
        tr.__dict__["_call"] = lambda value, t, *a, **kk: apply(value, t)
        return Obj("RuntimeContext", transformer=tr, options=globals_options[0], handle_error=handle_error,
                   collect_waring=collect_waring)
    globals_options = [options]
    return Obj("RuntimeContext", options=options, enter=enter, handle_error=handle_error, collect_waring=collect_waring)


def _cls(n):
    return Obj(f"class {n}", _is_class=True, _type=type, __name__=n)


def _run(run, fname: str, cls_obj: Obj, value, st: _St, ctx: Obj):
    f = run.repo.func("utype.parser.rule", "Rule." + fname)
    R = f.cls
    methods = {m.name: m.node for m in R.methods.values()}
    ip = Interp(globals_={"exc": _exc()}, methods=methods, module=f.module, max_steps=40000)
    try:
        res = ip.call_function(f.node, (cls_obj, value, ctx), {})
    except Raised as r:
        return ("raise", r.cls, r.args_[0] if r.args_ else ())
    except RecursionError:
        raise AnalysisError(f"args table: {fname} does not terminate on the model")
    return ("return", res)


def _fmt_item(x):
    if isinstance(x, tuple) and x and x[0] == "conv":
        return f"conv({x[1][1] if isinstance(x[1], tuple) else x[1]})"
    if isinstance(x, tuple) and x and x[0] == "raw":
        return f"raw({x[1]})"
    return f"other({x!r})"


def _is_conv(x) -> bool:
    return isinstance(x, tuple) and x[:1] == ("conv",)


def seq_table(run, tier: str) -> Tuple[int, Dict[str, Tuple[str, str, str]]]:
    bad: Dict[str, Tuple[str, str, str]] = {}
    rows = 0
    items = [("raw", "v0"), ("raw", "v1"), ("raw", "v2")]        # raw elements are not strings: str(x) is not x
    for oks in itertools.product((True, False), repeat=3):
        okmap = dict(zip(items, oks))
        for pol in POLS:
            for collect in (False, True):
                rows += 1
                st = _St(collect)
                ctx = _context(st, lambda v, t: okmap[v], dict(invalid_items=pol, invalid_keys="throw", invalid_values="throw",
                                                                  addition=None, no_data_loss=False))
                cls_obj = Obj("Rule", __args__=(_cls("T"),), __arg_transformers__=(None,), __origin__=list, __name__="R")
                out = _run(run, "_parse_seq_args", cls_obj, list(items), st, ctx)
                inp = (f"List[T] given [v0, v1, v2], converting: {[v[1] for v in items if okmap[v]]}, failing: "
                       f"{[v[1] for v in items if not okmap[v]]}; invalid_items={pol!r}, {'collecting' if collect else 'fail-fast'}")
                failing = [v for v in items if not okmap[v]]
                want_items = []
                for v in items:
                    if okmap[v]:
                        want_items.append(("conv", v, "T"))
                    elif pol == "preserve":
                        want_items.append(v)
                want_errors = [i for i, v in enumerate(items) if not okmap[v]] if pol == "throw" else []
                if want_errors and not collect:
                    if out[0] != "raise" or out[1] != "ParseError":
                        bad.setdefault("seq:throw", (inp, str(out)[:150], "a ParseError for the first failing element"))
                    continue
                if out[0] != "return":
                    bad.setdefault(f"seq:{pol}-raises", (inp, str(out)[:150], f"returns {[_fmt_item(x) for x in want_items]}"))
                    continue
                got = list(out[1]) if isinstance(out[1], (list, tuple)) else out[1]
                if got != want_items:
                    raw_leak = [x for x in (got if isinstance(got, list) else []) if not _is_conv(x)]
                    clause = f"seq:{pol}-raw" if (raw_leak and pol != "preserve") else f"seq:{pol}-items"
                    bad.setdefault(clause, (inp, str([_fmt_item(x) for x in got] if isinstance(got, list) else got)[:150],
                                            str([_fmt_item(x) for x in want_items])))
                got_err = sorted(dict(i).get("item") for c, i in st.errors if c == "ParseError")
                if got_err != want_errors:
                    bad.setdefault(f"seq:{pol}-errors", (inp, f"errors for items {got_err}", f"errors for items {want_errors}"))
                want_warn = len(failing) if pol in ("exclude", "preserve") else 0
                if st.warnings != want_warn:
                    bad.setdefault(f"seq:{pol}-warning", (inp, f"{st.warnings} warning(s)", f"{want_warn} (one per offending element)"))
    return rows, bad


def map_table(run, tier: str) -> Tuple[int, Dict[str, Tuple[str, str, str]]]:
    bad: Dict[str, Tuple[str, str, str]] = {}
    rows = 0
    K0, K1, X0, X1 = ("raw", "k0"), ("raw", "k1"), ("raw", "x0"), ("raw", "x1")
    entries = [(K0, X0), (K1, X1)]
    for kok in itertools.product((True, False), repeat=2):
        for vok in itertools.product((True, False), repeat=2):
            okmap = {K0: kok[0], K1: kok[1], X0: vok[0], X1: vok[1]}
            for kp in POLS:
                for vp in POLS:
                    for collect in (False, True):
                        rows += 1
                        st = _St(collect)
                        ctx = _context(st, lambda v, t: okmap[v], dict(invalid_items="throw", invalid_keys=kp, invalid_values=vp,
                                                                          addition=None, no_data_loss=False))
                        cls_obj = Obj("Rule", __args__=(_cls("K"), _cls("V")), __arg_transformers__=(None, None),
                                      __origin__=dict, __name__="R")
                        out = _run(run, "_parse_map_args", cls_obj, dict(entries), st, ctx)
                        inp = (f"Dict[K, V] given {{k0: x0, k1: x1}}, failing keys {[k[1] for k, _ in entries if not okmap[k]]}, "
                               f"failing values {[v[1] for _, v in entries if not okmap[v]]}; invalid_keys={kp!r}, "
                               f"invalid_values={vp!r}, {'collecting' if collect else 'fail-fast'}")
                        want = {}
                        want_err = []
                        for k, v in entries:
                            if okmap[k]:
                                key = ("conv", k, "K")
                            elif kp == "preserve":
                                key = k
                            else:
                                if kp == "throw":
                                    want_err.append(f"{k[1]}<key>")
                                continue
                            if okmap[v]:
                                val = ("conv", v, "V")
                            elif vp == "preserve":
                                val = v
                            else:
                                if vp == "throw":
                                    want_err.append("value of " + k[1])
                                continue
                            want[key] = val
                        if want_err and not collect:
                            if out[0] != "raise" or out[1] != "ParseError":
                                bad.setdefault("map:throw", (inp, str(out)[:150], "a ParseError for the first failing key / value"))
                            continue
                        if out[0] != "return" or not isinstance(out[1], dict):
                            bad.setdefault("map:raises", (inp, str(out)[:150], f"returns {want}"))
                            continue
                        if out[1] != want:
                            raw_k = [k for k in out[1] if not _is_conv(k)]
                            raw_v = [v for v in out[1].values() if not _is_conv(v)]
                            leak = (raw_k and kp != "preserve") or (raw_v and vp != "preserve")
                            bad.setdefault(f"map:{'raw' if leak else 'entries'}[{kp}/{vp}]", (inp, str(out[1])[:170], str(want)[:170]))
                        if len([e for e in st.errors if e[0] == "ParseError"]) != len(want_err):
                            bad.setdefault(f"map:errors[{kp}/{vp}]", (inp, f"{len(st.errors)} error(s)", f"{len(want_err)}: {want_err}"))
    return rows, bad


def tables(run, tier: str):
    cached = getattr(run, "_args_tables", None)
    if cached is not None and cached[0] == tier:
        return cached[1], cached[2]
    import ast as _ast
    bad = {}
    lazy = []
    for fname in TABLE_FUNCS:
        f = run.repo.func("utype.parser.rule", "Rule." + fname)
        if any(isinstance(x, (_ast.Yield, _ast.YieldFrom)) for x in _ast.walk(f.node)):
            lazy.append(fname)
            tag = "seq" if "seq" in fname else "map"
            bad[f"{tag}:lazy-raw"] = (f"Rule.{fname} is a generator", "a lazy iterator: the elements are converted after the "
                                      "element parser has returned", "the converted container")
    r1, b1 = seq_table(run, tier) if "_parse_seq_args" not in lazy else (24, {})
    r2, b2 = map_table(run, tier) if "_parse_map_args" not in lazy else (312, {})
    bad.update(b1)
    bad.update(b2)
    run._args_tables = (tier, r1 + r2, bad)
    return r1 + r2, bad


TABLE_FUNCS = ("_parse_seq_args", "_parse_map_args")


def emit(run, rule: str, only_raw: bool = False):
    """the clauses of the element-parser tables reported under `rule` (R11a: all of them; R01b: raw elements in the result
    outside the preserve policy)"""
    rows, bad = tables(run, run.tier)
    run.floor(rule, "rows of the element-parser decision tables", rows, 300)
    mine = {c: v for c, v in bad.items() if (not only_raw) or "-raw" in c or ":raw" in c}
    for fname in TABLE_FUNCS:
        f = run.repo.func("utype.parser.rule", "Rule." + fname)
        tag = "seq:" if "seq" in fname else "map:"
        sub = {c: v for c, v in mine.items() if c.startswith(tag)}
        title = ("the result holds conversion results; a raw element only under the preserve policy" if only_raw else
                 "exclude drops the offending element with a warning, preserve keeps it raw with a warning, throw reports a "
                 "ParseError; every other element is converted")
        if not sub:
            run.check(rule, f, f"{fname}: {title} (decision table)", True, construct=f"{fname} table")
            continue
        for clause, (inp, got, want) in sorted(sub.items())[:4]:
            run.check(rule, f, f"{fname}: {title} [{clause}]", False, construct=f"{fname}: {clause}",
                      message=f"Rule.{fname}: for [{inp}] the outcome is {got}; expected {want}",
                      necessity="an element policy touches more than the offending elements, or a value that was never "
                                "converted is returned as a member of the declared type")
