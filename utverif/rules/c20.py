"""C20 - concurrent use is safe, including the first use of a type (no unsynchronised compound mutation).

R20a every write to state that other threads read, reachable from a runtime entry, happens inside a lock region
     (lexically, or in a function only ever called from inside one), unless it is an allow-listed atomic publish
R20b double-checked fast path: the state the unlocked test reads is only cleared *after* every other shared write of
     the locked region, by the lock holder itself
R20c lock consistency of the registry: registration (list + memo reset) and memo fill hold the same lock; the
     lock-free memo read is a single atomic operation
R20d the parser memo is published by one store of a completely constructed parser

Decides the absence of unsynchronised compound mutation of the state the property anchors; not the absence of
failures under all schedules.
"""
import ast
from typing import Dict, List, Optional, Set, Tuple

from ..cfg import analysis, N, E
from ..lib import prov
from ..model import AnalysisError, FuncInfo, call_attr, dotted, kwarg, unparse, walk_shallow, norm_stmt, names_in
from ..shared import callgraph, writes_in, class_of, lexically_locked, lock_withs, Write, MUTATORS

# runtime entry points (what threads call concurrently).  (module, qualname, required)
ENTRIES = [
    ("utype.parser.base", "BaseParser.__call__", True),
    ("utype.parser.base", "BaseParser.apply_for", True),
    ("utype.parser.base", "BaseParser.resolve_parser", True),
    ("utype.parser.base", "BaseParser.parse_data", True),
    ("utype.parser.func", "FunctionParser.sync_call", True),
    ("utype.parser.func", "FunctionParser.get_sync_generator.eager_generator", True),
    ("utype.parser.func", "FunctionParser.get_async_generator.eager_generator", True),
    ("utype.parser.func", "FunctionParser.get_async_call.eager_call", True),
    ("utype.parser.func", "FunctionParser.get_params", True),
    ("utype.parser.func", "FunctionParser.parse_params", True),
    ("utype.parser.func", "FunctionParser.parse_result", False),
    ("utype.parser.rule", "Rule.parse", True),
    ("utype.parser.rule", "LogicalType.logical_parse", True),
    ("utype.parser.rule", "LogicalType.__call__", True),
    ("utype.parser.rule", "LogicalType.__instancecheck__", True),
    ("utype.parser.cls", "init_dataclass", True),
    ("utype.utils.base", "TypeRegistry.resolve", True),
    ("utype.utils.transform", "TypeTransformer.__call__", True),
    ("utype.utils.transform", "TypeTransformer.apply", True),
    ("utype.utils.transform", "type_transform", True),
    ("utype.utils.encode", "JSONEncoder.default", True),
]

# classes whose instances (or, for metaclasses, classes) are shared between calls and threads
SHARED_CLASSES = {"BaseParser", "ClassParser", "FunctionParser", "ParserField", "Field", "Param", "Rule", "LogicalType",
                  "LogicalMeta", "TypeRegistry", "Options"}
# classes whose instances live for one call (a write to `self.<attr>` is thread-confined); class-level containers
# reached through them are still shared
PER_CALL_CLASSES = {"RuntimeContext", "TypeTransformer"}
# user data objects under construction / mutation by their owner (concurrent mutation of ONE instance is the
# caller's business and outside the property)
INSTANCE_CLASSES = {"Schema", "DataClass"}
# local variable names that, by the repo's conventions, hold shared objects / per-call objects
SHARED_VARS = {"ref": "ForwardRef", "annotation": "ForwardRef", "field": "ParserField", "parser": "BaseParser",
               "cls": "class object", "t": "type object", "arg": "type object"}
PER_CALL_VARS = {"context", "new_context", "arg_context", "transformer", "instance", "_obj_self", "obj", "self_obj",
                 "values", "result", "data", "kwargs", "e", "error", "exc", "err"}

# allow-list of atomic publishes, keyed by the *state* written (owner class family or module, attribute): reason
ALLOWED_STATE = {
    ("utype.parser.base", "__parsers__"):
        "atomic publish of a completely constructed parser under its class key; two racing first uses build two equal "
        "parsers and the last store wins (checked by R20d)",
    ("cached_property", "__dict__"):
        "idempotent memo of a pure property on the instance (compat shim of functools.cached_property)",
}


def allowed_publish(w) -> str:
    c = class_of(w.f)
    if w.target == "<module>":
        return ALLOWED_STATE.get((w.f.module.name, w.attr), "")
    if c is not None:
        return ALLOWED_STATE.get((c.name, w.attr), "")
    return ""


def _is_fresh(fa, n, name: str) -> bool:
    """every definition of local `name` reaching n is a constructor call / literal made in this function"""
    os_ = prov(fa).of_name(n, name)
    if not os_:
        return False
    for o in os_:
        if o.kind == "literal":
            continue
        if o.kind == "call" and isinstance(o.node, ast.Call):
            fn = o.node.func
            txt = unparse(fn)
            if isinstance(fn, ast.Name) and (fn.id.lstrip("_")[:1].isupper() or fn.id in ("dict", "list", "set", "object", "type")):
                continue
            if txt in ("cls", "self.__class__", "super().__new__", "object.__new__", "cls.__new__") or txt.endswith(".__new__"):
                continue
            if txt.endswith(".copy") or txt in ("copy", "deepcopy", "copy.copy", "copy.deepcopy"):
                continue
        return False
    return True


_PER_CALL_MEMO: Dict[Tuple[int, str], bool] = {}


def _per_call_class(run, c) -> bool:
    """a plain helper class (no bases in the repo's shared families) every instance of which is created inside a function
    and bound to a local there: its instances live for one call"""
    key = (id(run.repo), c.ref if hasattr(c, "ref") else c.name)
    if key in _PER_CALL_MEMO:
        return _PER_CALL_MEMO[key]
    sites = 0
    ok = not [b for b in c.base_names if b not in ("object",)]
    if ok:
        for f in run.repo.all_functions():
            if f.module is not c.module:
                continue
            for st in ast.walk(f.node):
                if not isinstance(st, ast.stmt) or isinstance(st, (ast.FunctionDef, ast.AsyncFunctionDef, ast.ClassDef)):
                    continue
                # the expressions of this statement itself (not of the statements nested in it)
                heads = [v for k, v in ast.iter_fields(st) if k not in ("body", "orelse", "finalbody", "handlers")]
                exprs = []
                for h in heads:
                    for y in (h if isinstance(h, list) else [h]):
                        if isinstance(y, ast.AST):
                            exprs.extend(ast.walk(y))
                for x in exprs:
                    if isinstance(x, ast.Call) and isinstance(x.func, ast.Name) and x.func.id == c.name:
                        sites += 1
                        if not (isinstance(st, ast.Assign) and st.value is x and len(st.targets) == 1
                                and isinstance(st.targets[0], ast.Name)):
                            ok = False
    res = bool(ok and sites)
    _PER_CALL_MEMO[key] = res
    return res


def classify(run, cg, w: Write) -> Tuple[str, str]:
    """('shared'|'confined'|'instance', why)"""
    f = w.f
    c = class_of(f)
    root = w.target.split(".")[0].split("[")[0].split("(")[0]
    if w.target == "<module>":
        return "shared", f"module global {w.attr}"
    if root in ("self", "cls", "mcs"):
        if c is None:
            return "shared", "self outside a class"
        names = {k.name for k in cg.h.up(c)}
        is_meta = "type" in [b for k in cg.h.up(c) for b in k.base_names]
        if names & INSTANCE_CLASSES and not is_meta and root == "self":
            return "instance", "user data object"
        if names & PER_CALL_CLASSES:
            # rebinding an attribute of a per-call object is confined; mutating a container that lives on the class is not
            depth = w.target.count(".")
            if w.how in ("assign", "aug", "del", "setattr") and depth == 0:
                return "confined", "attribute of a per-call object"
            if depth == 0 and w.attr in {a for k in cg.h.up(c) for a in k.assigns}:
                return "shared", f"class-level container {c.name}.{w.attr} mutated through self"
            if depth == 0:
                return "confined", "container created per object"
            return "shared", "object reached through a per-call object"
        if names & SHARED_CLASSES or is_meta or root in ("cls", "mcs"):
            return "shared", f"{'class object' if root != 'self' or is_meta else c.name + ' instance'}"
        if f.name in ("__init__", "__new__", "__set_name__"):
            return "confined", "object under construction"
        if root == "self" and _per_call_class(run, c):
            return "confined", f"{c.name} instances are created per call and bound to a local"
        return "shared", f"instance of {c.name} (not known to be per-call)"
    if root in PER_CALL_VARS:
        return "confined", f"`{root}` is a per-call object by convention"
    fa = analysis(f)
    node = fa.cfg.stmt_nodes.get(id(w.stmt)) if w.stmt is not None else None
    if node is None:
        for n in fa.cfg.nodes:
            if n.ast is not None and any(x is w.node for x in walk_shallow(n.ast)):
                node = n
                break
    if node is not None and root in fa.rd.locals and _is_fresh(fa, node, root):
        return "confined", f"`{root}` is created in this function"
    if root in SHARED_VARS:
        return "shared", f"`{root}` holds a {SHARED_VARS[root]}"
    return "shared", f"`{root}`: object of unknown ownership"


def locked_only(cg, f: FuncInfo, memo: Dict[str, bool], depth=0) -> bool:
    """every call site of f in the repo is inside a lock region or in a function that is itself locked-only"""
    if f.ref in memo:
        return memo[f.ref]
    memo[f.ref] = True      # optimistic for cycles
    inc = [e for e in cg.inc.get(f.ref, []) if e.call is not None]
    if not inc or depth > 6:
        memo[f.ref] = False
        return False
    ok = all(e.lock or locked_only(cg, e.caller, memo, depth + 1) for e in inc)
    memo[f.ref] = ok
    return ok


def entries(run) -> List[FuncInfo]:
    out = []
    for mod, q, req in ENTRIES:
        f = run.repo.maybe_func(mod, q)
        if f is None:
            if req:
                raise AnalysisError(f"runtime entry {mod}:{q} not found")
            continue
        out.append(f)
    # every registered converter runs at parse time
    tr = run.repo.module("utype.utils.transform")
    for f in tr.functions.values():
        if any("register" in unparse(d) for d in f.node.decorator_list):
            out.append(f)
    for modname in ("utype.parser.rule", "utype.parser.cls"):
        for f in run.repo.module(modname).functions.values():
            if any("register_transformer" in unparse(d) for d in f.node.decorator_list):
                out.append(f)
    # the validators (strict and lax) are called indirectly from Rule.parse through the compiled validator list
    cons = run.repo.cls("utype.parser.rule", "Constraints")
    for m in cons.methods.values():
        if len(m.params) >= 2 and m.params[0] == "cls" and m.params[1] == "value":
            out.append(m)
    return out


def shared_writes(run, cg, reach) -> List[Tuple[Write, str, str]]:
    globs_by_mod = {m.name: set(m.assigns) for m in run.repo.modules.values()}
    out = []
    for ref in sorted(reach):
        mod, q = ref.split(":")
        f = run.repo.maybe_func(mod, q)
        if f is None:
            continue
        run.touch(f)
        for w in writes_in(f, globs_by_mod[mod]):
            kind, why = classify(run, cg, w)
            out.append((w, kind, why))
    return out


def r20a(run, cg):
    ents = entries(run)
    run.floor("R20a", "runtime entry points", len(ents), 40)
    reach = cg.reachable(ents, cut_locked=True, cut_ctor=True)      # without passing a lock region
    reach_all = cg.reachable(ents, cut_locked=False, cut_ctor=True)
    run.notes.append(f"R20a: {len(reach_all)} functions reachable from the runtime entries (constructors cut), "
                     f"{len(reach)} of them without passing a lock region; call sites resolved {cg.stats['resolved']}, "
                     f"ambiguous {cg.stats['ambiguous']}, builtin/unknown {cg.stats['unknown']}; locks: {sorted(cg.locks)}")
    if len(reach_all) < 80:
        raise AnalysisError(f"R20a: only {len(reach_all)} functions reachable from the runtime entries (call graph collapsed)")
    sw = shared_writes(run, cg, reach_all)
    n_shared = 0
    for w, kind, why in sw:
        if kind != "shared":
            continue
        n_shared += 1
        lock = lexically_locked(w.f, w.node, cg.locks) or (w.stmt is not None and lexically_locked(w.f, w.stmt, cg.locks))
        if lock:
            run.ob("R20a", w.f, f"`{w.text[:60]}` is inside `with {lock}`", True)
            continue
        if w.f.ref not in reach:
            run.ob("R20a", w.f, f"`{w.text[:60]}`: at run time the function is only reached through a lock region", True,
                   detail=" -> ".join(reach_all[w.f.ref][-5:]))
            continue
        allowed = allowed_publish(w)
        if allowed:
            run.ob("R20a", w.f, f"`{w.text[:60]}` is an allow-listed atomic publish", True, detail=allowed)
            continue
        path = reach.get(w.f.ref, [])
        v = run.violate("R20a", w.f, f"unsynchronised shared write: {w.target}.{w.attr} ({w.how})",
                        f"`{w.text}` writes {why} [{w.target}.{w.attr}] on a path from the runtime entry "
                        f"{path[0] if path else '?'} that holds no lock",
                        necessity="two threads making the first (or a racing) call interleave inside this multi-step "
                                  "update: one of them observes the half-updated state (KeyError / unevaluated reference "
                                  "/ stale memo)", node=w.node, path=[f"call path: {' -> '.join(path[-6:])}"])
        run.ob("R20a", w.f, f"`{w.text[:60]}` ({why}) is synchronised", False)
    run.floor("R20a", "shared-state writes reachable at run time", n_shared, 6)
    return reach


def r20b(run, cg):
    f = run.repo.func("utype.parser.base", "BaseParser.resolve_forward_refs")
    fa = analysis(f)
    withs = lock_withs(f, cg.locks)
    run.check("R20b", f, "first-use resolution runs under a lock", bool(withs), construct="no lock in resolve_forward_refs",
              message="BaseParser.resolve_forward_refs has no `with <lock>` region",
              necessity="two first calls interleave inside the resolution (R20a lists the writes)")
    if not withs:
        return
    w = withs[0]
    lk = dotted(w.items[0].context_expr) or ""
    run.check("R20b", f, "the lock of first-use resolution is shared by all parsers (module level)",
              "." not in lk and lk in cg.locks, construct=f"per-object lock for first-use resolution: {lk}",
              message=f"resolve_forward_refs serialises on `{lk}`, a lock per parser object; the state written in the "
                      f"region (ForwardRef objects cached by typing, Rule class attributes) is shared between parsers",
              necessity="two different classes that mention the same reference (typing memoises List['Item']) resolve "
                        "concurrently under different locks: one clears / rewrites the reference between the other's "
                        "evaluation and its check - 'ForwardRef not evaluated'")
    # the unlocked fast-path test
    tests = [n for n in fa.cfg.nodes if n.kind == "test" and not lexically_locked(f, n.ast, cg.locks)
             and not any(x is n.stmt for st in w.body for x in walk_shallow(st))]
    gate = None
    for n in tests:
        if "self.forward_refs" in unparse(n.ast):
            gate = n
    run.check("R20b", f, "the lock-free fast path tests the pending table", gate is not None, construct="fast path gate",
              message="resolve_forward_refs has no unlocked `if not self.forward_refs` fast path (or tests something else)")
    if gate is None:
        return
    G = "forward_refs"
    # removals from the gate state, anywhere in the package
    globs = {m.name: set(m.assigns) for m in run.repo.modules.values()}
    removers = []
    for g in run.repo.all_functions():
        if not g.module.name.startswith("utype.parser"):
            continue
        for wr in writes_in(g, globs[g.module.name]):
            if wr.attr == G and wr.how in ("pop", "popitem", "clear", "del", "assign", "__delitem__", "remove", "discard"):
                if wr.how == "assign" and g.name == "__init__":
                    continue
                removers.append(wr)
    run.floor("R20b", "removals from the pending table", len(removers), 1)
    for wr in removers:
        own = wr.f is f and lexically_locked(f, wr.node, cg.locks)
        run.check("R20b", wr.f, f"`{wr.text[:50]}` (pending entry dropped) is done by the lock holder", bool(own),
                  construct=f"pending entry removed outside the lock holder: {wr.how}",
                  message=f"`{wr.text}` removes a pending reference in {wr.f.qualname}, not in the locked region of "
                          f"resolve_forward_refs",
                  necessity="the table can be empty while the resolved types are not yet in place: a concurrent first "
                            "call skips the lock and parses against half-resolved fields", node=wr.node)
        if not own:
            continue
        # after the removal nothing else of the shared state is written: no call/store reachable from it except
        # further removals and the return
        n0 = None
        for n in fa.cfg.nodes:
            if n.ast is not None and any(x is wr.node for x in walk_shallow(n.ast)):
                n0 = n
        later = []
        for m in fa.cfg.reach_from_succ(n0, kinds=(N,)):
            if m.ast is None or m.kind not in ("stmt", "with", "iter", "test"):
                continue
            for c in fa.calls_at(m):
                nm = call_attr(c)
                if isinstance(c.func, ast.Attribute) and unparse(c.func.value).endswith(G) and nm in ("pop", "popitem", "clear"):
                    continue
                if nm in ("list", "len", "tuple"):
                    continue
                later.append(unparse(c)[:60])
            if m.kind == "stmt" and isinstance(m.ast, (ast.Assign, ast.AugAssign)) and any(
                    isinstance(t, (ast.Attribute, ast.Subscript)) for t in
                    (m.ast.targets if isinstance(m.ast, ast.Assign) else [m.ast.target])):
                later.append(norm_stmt(m.ast)[:60])
        run.check("R20b", f, "the pending entries are dropped last (nothing is published after them)", not later,
                  construct="publication after the pending entries are dropped",
                  message=f"after `{wr.text[:50]}` the locked region still executes {later[:3]}",
                  necessity="between the removal and those steps the table is empty: a concurrent caller takes the fast "
                            "path and uses types that are not resolved yet", node=wr.node)
    # everything the resolution does happens inside the with
    inner_calls = [c for st in w.body for c in walk_shallow(st) if isinstance(c, ast.Call)]
    worker = [c for c in inner_calls if isinstance(c.func, ast.Attribute) and unparse(c.func.value) == "self"]
    run.check("R20b", f, "the resolution work is called from inside the locked region", bool(worker),
              construct="resolution outside lock", message="the `with` region of resolve_forward_refs does not call the "
              "resolution worker")


def r20c(run, cg):
    C = run.repo.cls("utype.utils.base", "TypeRegistry")
    from .c16 import registration_writer
    reg = registration_writer(run)
    res = run.repo.func("utype.utils.base", "TypeRegistry.resolve")
    globs = set(run.repo.module("utype.utils.base").assigns)
    sites = []
    for f in (reg, res):
        for wr in writes_in(f, globs):
            if wr.attr in ("_registry", "_cache"):
                sites.append(wr)
    run.floor("R20c", "writes to the registration list / memo", len(sites), 3)
    locks = set()
    for wr in sites:
        lk = lexically_locked(wr.f, wr.node, cg.locks)
        locks.add(lk)
        run.check("R20c", wr.f, f"`{wr.text[:50]}` holds the registry lock", bool(lk),
                  construct=f"registry state written without lock: {wr.attr} ({wr.how})",
                  message=f"`{wr.text}` changes {wr.attr} outside a lock region",
                  necessity="a memo fill that straddles a registration stores the outdated converter after the reset: "
                            "every later call keeps using the old converter although register() returned", node=wr.node)
    run.check("R20c", C.ref, "registration and memo fill use one lock", len(locks - {None}) <= 1 and None not in locks,
              construct="registry lock consistency", message=f"registry writes are protected by {sorted(map(str, locks))}",
              necessity="two different locks do not exclude each other")
    # register: list mutation and memo reset in ONE region
    ws = lock_withs(reg, cg.locks)
    if ws:
        body_txt = " ".join(unparse(st) for st in ws[0].body)
        ok = "self._registry" in body_txt and "self._cache" in body_txt
        run.check("R20c", reg, "list change and memo reset form one critical section", ok,
                  construct="registration split over regions", message="register() does not change the list and reset "
                  "the memo inside the same `with` region",
                  necessity="a lookup between the two steps refills the memo from the new list / old list inconsistently")
    # resolve: the scan and the fill are in one region; the lock-free read is a single call
    fa = analysis(res)
    def _is_registry(n):
        if unparse(n.ast) == "self._registry":
            return True
        if isinstance(n.ast, ast.Name) and n.ast.id in fa.rd.locals:
            os_ = prov(fa).of_name(n, n.ast.id)
            return bool(os_) and all(o.kind == "attr" and o.text == "self._registry" for o in os_)
        return False
    scan = [n for n in fa.cfg.nodes if n.kind == "iter" and _is_registry(n)]
    if scan:
        lk = lexically_locked(res, scan[0].stmt, cg.locks)
        run.check("R20c", res, "the registry scan that feeds the memo runs under the lock", bool(lk),
                  construct="scan outside lock", message="resolve() scans self._registry outside the lock that protects "
                  "the memo fill", necessity="the scan result may predate a registration that has already reset the memo")
    reads = []
    for n in fa.cfg.nodes:
        if n.ast is None or n.kind not in ("stmt", "test", "iter"):
            continue
        if lexically_locked(res, n.ast if n.kind == "stmt" else n.stmt, cg.locks):
            continue
        txt = unparse(n.ast)
        if "self._cache" in txt:
            reads.append(n)
        if "self._registry" in txt:
            # the list is mutated in place under the lock (insert, sort): it may not be inspected without it
            run.check("R20c", res, f"`{norm_stmt(n.stmt)[:50]}` does not look at the registration list without the lock",
                      False, construct="lock-free read of the registration list",
                      message=f"`{norm_stmt(n.stmt)}` reads self._registry outside the lock under which register() "
                              f"inserts and sorts it in place",
                      necessity="list.sort empties the list while it runs (the key is a Python lambda, so other threads "
                                "get scheduled): a lookup during a registration sees an empty registry and answers "
                                "'no converter' for a type that has one", node=n.ast)
    for n in reads:
        txt = unparse(n.ast)
        atomic = txt.count("self._cache") == 1 and ("self._cache.get(" in txt) and " in self._cache" not in txt
        # `t in self._cache` followed by `self._cache[t]` is a check-then-act pair
        run.check("R20c", res, f"the lock-free memo read `{norm_stmt(n.stmt)[:50]}` is one atomic operation", atomic,
                  construct="check-then-act memo read",
                  message=f"`{norm_stmt(n.stmt)}` reads the memo without the lock in more than one step (membership test, "
                          f"then subscript)",
                  necessity="a registration clears the memo between the two steps: KeyError escapes from the conversion",
                  node=n.ast)


def r20d(run, cg):
    f = run.repo.func("utype.parser.base", "BaseParser.apply_for")
    fa = analysis(f)
    stores = [n for n in fa.cfg.nodes if n.kind == "stmt" and isinstance(n.ast, ast.Assign)
              and isinstance(n.ast.targets[0], ast.Subscript) and unparse(n.ast.targets[0].value) == "__parsers__"]
    run.floor("R20d", "parser memo stores", len(stores), 1)
    for n in stores:
        v = n.ast.value
        ok = isinstance(v, ast.Name) and _is_fresh(fa, n, v.id)
        run.check("R20d", f, "the memo publishes a completely constructed parser with one store", ok,
                  construct="parser memo publishes an unfinished object",
                  message=f"`{norm_stmt(n.ast)}` does not store the result of the constructor call",
                  necessity="another thread picks a parser from the memo whose setup() has not run", node=n.ast)
        later = [m for m in fa.cfg.reach_from_succ(n, kinds=(N,)) if m.kind == "stmt" and isinstance(m.ast, (ast.Assign, ast.Expr))
                 and isinstance(v, ast.Name) and v.id in names_in(m.ast) and not isinstance(m.ast, ast.Return)]
        run.check("R20d", f, "nothing configures the parser after it is published", not later,
                  construct="parser configured after publication",
                  message=f"after `{norm_stmt(n.ast)}` the parser is still modified: {[norm_stmt(m.ast)[:40] for m in later]}",
                  necessity="a concurrent call uses the published parser before that configuration", node=n.ast)


def check(run):
    run.rules_run += ["R20a", "R20b", "R20c", "R20d"]
    run.explain("Static inventory of writes to state shared between threads (parser objects, fields, rule classes, "
                "ForwardRef objects, registries, module memos) in every function reachable from the runtime entries over "
                "a receiver-aware call graph with lock regions cut out: each such write must be inside a lock region, in "
                "a lock-confined function, or an allow-listed atomic publish; plus the double-checked fast-path order of "
                "first-use resolution, lock consistency of the converter registry and single-store publication of the "
                "parser memo.")
    cg = callgraph(run.repo)
    run.calls.update(cg.stats)
    run.rule(r20a, run, cg)
    run.rule(r20b, run, cg)
    run.rule(r20c, run, cg)
    run.rule(r20d, run, cg)
