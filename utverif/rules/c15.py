"""C15 - types built from a JSON Schema never crash nor emit what the schema forbids.

R15a keyword -> constraint table implies the keyword's meaning (and get_constraints applies it to the values)
R15b TYPE_MAP targets have the keyword's JSON type
R15c / R15f  a possibly-None `.get()` result is never called / dereferenced without a guard
R15d the translator recurses only on strict components of its schema argument
R15e every reason that triggers the name sanitiser is handed to it (the sanitised name cannot collide again)

Decides the shape of the translator (tables, crash shapes, descent); that the built type rejects every instance
the schema forbids is value-level and undecided.
"""
import ast
from typing import Dict, List, Optional, Set

from ..cfg import analysis, decompose, N, E
from ..fold import Folder, Sym
from ..lib import prov, Origin
from ..model import AnalysisError, call_attr, dotted, kwarg, unparse, walk_shallow, norm_stmt, names_in, FuncNode

CONST = "utype.specs.json_schema.constant"
PARSER = "utype.specs.json_schema.parser"

# K-jsonschema (draft 2020-12 validation vocabulary): keyword -> utype constraints whose meaning implies it
K_IMPLIES = {
    "multipleOf": {"multiple_of"},
    "maximum": {"le", "lt"},
    "minimum": {"ge", "gt"},
    "exclusiveMaximum": {"lt"},
    "exclusiveMinimum": {"gt"},
    "enum": {"enum"},
    "const": {"const"},
    "maxItems": {"max_length"},
    "minItems": {"min_length"},
    "uniqueItems": {"unique_items"},
    "maxContains": {"max_contains"},
    "minContains": {"min_contains"},
    "contains": {"contains"},
    "maxProperties": {"max_length"},
    "minProperties": {"min_length"},
    "maxLength": {"max_length"},
    "minLength": {"min_length"},
    "pattern": {"regex"},
}
# keywords of the property's supported fragment that must be translated (dropping one emits forbidden values)
K_REQUIRED = ["multipleOf", "maximum", "minimum", "exclusiveMaximum", "exclusiveMinimum", "enum", "const",
              "maxItems", "minItems", "uniqueItems", "maxLength", "minLength", "pattern", "maxProperties",
              "minProperties"]
# JSON type keyword -> admissible Python targets (value of that JSON type)
K_TYPES = {
    "null": {"NoneType"}, "string": {"str"}, "boolean": {"bool"}, "object": {"dict"}, "array": {"list"},
    "integer": {"int"}, "number": {"float", "Decimal"},
}
K_FORMATS = {"date-time": {"datetime"}, "date": {"date"}, "time": {"time"}, "duration": {"timedelta"},
             "uuid": {"UUID"}, "binary": {"bytes"}, "decimal": {"Decimal"}, "float": {"float"},
             "int": {"int"}, "bigint": {"int"}, "bool": {"bool"}, "ipv4": {"IPv4Address"}, "ipv6": {"IPv6Address"}}

BUILTIN_NAMES = set(dir(__builtins__)) if not isinstance(__builtins__, dict) else set(__builtins__)


def known_constraints(run) -> Set[str]:
    rule = run.repo.cls("utype.parser.rule", "Rule")
    lst = rule.assigns.get("__constraints__")
    names = set()
    if isinstance(lst, (ast.List, ast.Tuple)):
        names = {e.value for e in lst.elts if isinstance(e, ast.Constant)}
    if len(names) < 10:
        raise AnalysisError("Rule.__constraints__ not found / too short")
    cons = run.repo.cls("utype.parser.rule", "Constraints")
    # contains-family constraints are validated separately (Rule._parse_contains)
    for extra in ("contains", "max_contains", "min_contains"):
        if extra in cons.methods or any(extra in unparse(v) for v in [rule.node]):
            names.add(extra)
    return names


def r15a(run, F):
    cm = F.module_value(CONST, "CONSTRAINTS_MAP")
    if not isinstance(cm, dict):
        raise AnalysisError("CONSTRAINTS_MAP does not fold to a dict")
    run.floor("R15a", "entries of CONSTRAINTS_MAP", len(cm), 15)
    cons = known_constraints(run)
    where = f"{CONST}:CONSTRAINTS_MAP"
    for kw in K_REQUIRED:
        run.check("R15a", where, f"schema keyword {kw!r} is translated", kw in cm,
                  construct=f"keyword {kw} not translated",
                  message=f"CONSTRAINTS_MAP has no entry for the validation keyword {kw!r}: it is silently ignored",
                  necessity=f"a type built from a schema with {kw!r} returns values that keyword forbids")
    for kw, c in cm.items():
        if not isinstance(kw, str) or not isinstance(c, str):
            raise AnalysisError(f"CONSTRAINTS_MAP entry {kw!r}: {c!r} is not a pair of string literals")
        if kw in K_IMPLIES:
            ok = c in K_IMPLIES[kw]
            run.check("R15a", where, f"{kw!r} -> {c!r} implies the keyword's meaning", ok,
                      construct=f"keyword {kw} mapped to {c}",
                      message=f"CONSTRAINTS_MAP maps {kw!r} to the constraint {c!r}, which does not imply it "
                              f"(admissible: {sorted(K_IMPLIES[kw])})",
                      necessity=f"the built type accepts instances that {kw!r} forbids (e.g. the boundary value, "
                                f"or a length on the wrong side)")
        else:
            run.ob("R15a", where, f"non-standard keyword {kw!r} -> {c!r}", True, nontrivial=False)
        run.check("R15a", where, f"{c!r} (for {kw!r}) is a constraint the Rule machinery validates", c in cons,
                  construct=f"keyword {kw} mapped to unknown constraint {c}",
                  message=f"CONSTRAINTS_MAP maps {kw!r} to {c!r}, which is not a constraint of Rule",
                  necessity="Rule.annotate rejects or ignores the unknown constraint: building the type fails or the "
                            "keyword is dropped")
    # get_constraints applies exactly this table: constraints[MAP[key]] = <the keyword's value>
    f = run.repo.func(PARSER, "JsonSchemaParser.get_constraints")
    # interpreted (absint.py) over every subset of {two mapped keywords, one unmapped key}: the result must be exactly
    # {MAP[keyword]: the keyword's value} for the mapped ones
    import itertools
    from ..absint import Interp, Obj, Raised
    MAP = {"kwOne": "consOne", "kwTwo": "consTwo"}
    total = 0
    bad = None
    for present in itertools.product((False, True), repeat=3):
        schema = {}
        if present[0]:
            schema["kwOne"] = "value-1"
        if present[2]:
            schema["unmapped"] = "value-u"
        if present[1]:
            schema["kwTwo"] = None
        ip = Interp(globals_={"constant": Obj("module", CONSTRAINTS_MAP=dict(MAP))}, module=f.module)
        try:
            got = ip.call_function(f.node, (Obj("JsonSchemaParser"), schema), {})
        except Raised as r:
            got = f"raises {r.cls}"
        want = {MAP[k]: v for k, v in schema.items() if k in MAP}
        total += 1
        if got != want and bad is None:
            bad = (dict(schema), got, want)
    run.check("R15a", f, "get_constraints stores each mapped keyword's value under the mapped constraint name, nothing else",
              bad is None, construct="get_constraints store",
              message=f"JsonSchemaParser.get_constraints: for the schema {bad[0] if bad else ''} with CONSTRAINTS_MAP {MAP} it "
                      f"returns {bad[1] if bad else ''!r} instead of {bad[2] if bad else ''!r}",
              necessity="a keyword's value stored under another name (or the name stored as value) builds a type "
                        "with a different bound than the schema's")
    run.floor("R15a", "schema shapes evaluated for get_constraints", total, 8)


def r15b(run, F):
    tm = F.module_value(CONST, "TYPE_MAP")
    where = f"{CONST}:TYPE_MAP"
    if not isinstance(tm, dict):
        raise AnalysisError("TYPE_MAP does not fold to a dict")
    for kw, adm in K_TYPES.items():
        v = tm.get(kw)
        ok = isinstance(v, Sym) and v.name in adm
        run.check("R15b", where, f"JSON type {kw!r} maps to {sorted(adm)}", ok, construct=f"type {kw}",
                  message=f"TYPE_MAP[{kw!r}] is {v!r}; a value of JSON type {kw!r} needs one of {sorted(adm)}",
                  necessity=f"a schema of type {kw!r} builds a type whose results are not of that JSON type")
    n = 0
    for kw, v in tm.items():
        if kw in K_FORMATS:
            n += 1
            ok = isinstance(v, Sym) and v.name in K_FORMATS[kw]
            run.check("R15b", where, f"format {kw!r} maps to {sorted(K_FORMATS[kw])}", ok, construct=f"format {kw}",
                      message=f"TYPE_MAP[{kw!r}] is {v!r}, expected one of {sorted(K_FORMATS[kw])}",
                      necessity=f"values of format {kw!r} are converted to a different type than the format names")
        elif kw not in K_TYPES:
            raise AnalysisError(f"TYPE_MAP key {kw!r} is not in the checker's table (K-jsonschema): extend K_FORMATS")
    run.floor("R15b", "format entries of TYPE_MAP", n, 8)
    # parse_type consults the format first and falls back to the type, then to the default
    f = run.repo.func(PARSER, "JsonSchemaParser.parse_type")
    txt = [unparse(n.ast) for n in analysis(f).cfg.nodes if n.kind == "stmt" and isinstance(n.ast, ast.Assign)]
    ok = any("self.type_map.get(type)" in t or "type_map.get(" in t for t in txt)
    run.check("R15b", f, "parse_type resolves primitive types through the type map", ok, construct="type map unused",
              message="parse_type never looks the `type` keyword up in self.type_map")


def _nullable_get(call) -> bool:
    """`X.get(k)` / `X.get(k, None)`: may be None"""
    if not (isinstance(call, ast.Call) and isinstance(call.func, ast.Attribute) and call.func.attr == "get"):
        return False
    if len(call.args) == 1 and not call.keywords:
        return True
    if len(call.args) == 2 and isinstance(call.args[1], ast.Constant) and call.args[1].value is None:
        return True
    return False


def _has_fallback(o) -> bool:
    """the nullable call is a non-last operand of `a or b` in its defining assignment: None is replaced by the fallback"""
    st = o.at.ast if o.at is not None else None
    if isinstance(st, ast.Assign) and isinstance(st.value, ast.BoolOp) and isinstance(st.value.op, ast.Or):
        vals = st.value.values
        return any(v is o.node for v in vals[:-1])
    return False


def _guarded(fa, n, name: str, use: ast.AST) -> bool:
    """the use of `name` at node n is protected by a must-fact (truthy / is not None / isinstance) or by the
    expression context (`name and ...`, `... if name else ...`, `name or default`)"""
    for a, p in fa.facts.atoms_at(n):
        t = unparse(a)
        if t == name and p:
            return True
        if isinstance(a, ast.Compare) and unparse(a.left) == name and len(a.ops) == 1:
            c = a.comparators[0]
            if isinstance(c, ast.Constant) and c.value is None:
                if isinstance(a.ops[0], ast.IsNot) and p or isinstance(a.ops[0], ast.Is) and not p:
                    return True
        if isinstance(a, ast.Call) and call_attr(a) == "isinstance" and a.args and unparse(a.args[0]) == name and p:
            return True
        if isinstance(a, ast.Compare) and unparse(a.left) == name and len(a.ops) == 1 \
                and isinstance(a.ops[0], ast.Eq) and p:
            return True   # compared equal to a literal: not None
    # expression-level guards inside the statement
    root = n.ast
    if root is None:
        return False
    parents = {}
    for x in ast.walk(root):
        for c in ast.iter_child_nodes(x):
            parents[id(c)] = x
    cur = use
    while id(cur) in parents:
        par = parents[id(cur)]
        if isinstance(par, ast.IfExp):
            pol = True if cur is par.body else False if cur is par.orelse else None
            if pol is not None:
                for a, p in decompose(par.test, pol):
                    if unparse(a) == name and p:
                        return True
        if isinstance(par, ast.BoolOp) and isinstance(par.op, ast.And):
            idx = [i for i, v in enumerate(par.values) if v is cur]
            if idx and any(unparse(v) == name for v in par.values[: idx[0]]):
                return True
        if isinstance(par, ast.comprehension) or isinstance(par, (ast.ListComp, ast.GeneratorExp, ast.SetComp,
                                                                   ast.DictComp)):
            pass
        cur = par
    return False


def _definitely_falsy(fa, n, name: str) -> bool:
    return any(unparse(a) == name and not p for a, p in fa.facts.atoms_at(n))


def r15cf(run):
    """uses that need a non-None value: call, attribute access, subscript, iteration"""
    mod = run.repo.module(PARSER)
    funcs = [f for f in mod.functions.values()]
    if run.thorough:
        funcs = [f for f in run.repo.all_functions() if f.module.name.startswith("utype.specs")]
    derefs = 0
    shadow_calls = 0
    for f in funcs:
        fa = analysis(f)
        P = prov(fa)
        for n in fa.cfg.nodes:
            if n.kind not in ("stmt", "test", "iter", "with") or n.ast is None:
                continue
            exprs = fa.node_exprs(n)
            for e in exprs:
                for sub in walk_shallow(e):
                    use = None
                    kind = None
                    if isinstance(sub, ast.Call) and isinstance(sub.func, ast.Name):
                        use, kind = sub.func, "call"
                    elif isinstance(sub, ast.Attribute) and isinstance(sub.value, ast.Name):
                        use, kind = sub.value, "attribute"
                    elif isinstance(sub, ast.Subscript) and isinstance(sub.value, ast.Name) \
                            and isinstance(sub.ctx, ast.Load):
                        use, kind = sub.value, "subscript"
                    elif isinstance(sub, ast.comprehension) and isinstance(sub.iter, ast.Name):
                        use, kind = sub.iter, "iteration"
                    if use is None or use.id not in fa.rd.locals:
                        continue
                    name = use.id
                    origins = P.of_name(n, name)
                    nullable = [o for o in origins if o.kind == "call" and _nullable_get(o.node)
                                and not _has_fallback(o)]
                    if kind == "call" and name in BUILTIN_NAMES:
                        shadow_calls += 1
                        noncallable = [o for o in origins if o.kind in ("call", "const", "sub", "literal")]
                        ok = not noncallable
                        run.check("R15c", f, f"call of `{name}` (a local that shadows the builtin) resolves to a callable",
                                  ok, construct=f"call of local `{name}` shadowing the builtin",
                                  message=f"`{unparse(sub)[:50]}` calls the local `{name}`, which here is "
                                          f"{', '.join(sorted({o.text for o in noncallable}))} - not the builtin"
                                          + (" (and provably falsy on this path)" if _definitely_falsy(fa, n, name) else ""),
                                  necessity="a schema without `type` but with const / enum reaches this call: "
                                            "{'const': 5} raises TypeError: 'NoneType' object is not callable",
                                  node=sub)
                        if not ok:
                            continue
                    if not nullable:
                        continue
                    derefs += 1
                    ok = _guarded(fa, n, name, use if kind != "iteration" else sub.iter)
                    run.check("R15f", f, f"{kind} of `{name}` (from {nullable[0].text}(...), may be None) is guarded", ok,
                              construct=f"unguarded {kind} of nullable `{name}`",
                              message=f"`{norm_stmt(n.stmt if n.stmt is not None else n.ast)[:70]}`: `{name}` comes from "
                                      f"`{unparse(nullable[0].node)}` and may be None, but is used ({kind}) without a "
                                      f"truthiness / None test on this path",
                              necessity="a schema that omits the optional keyword makes the translator raise "
                                        "AttributeError / TypeError instead of building a type", node=sub)
        # for-loops over nullable names
        for n in fa.cfg.nodes:
            if n.kind == "iter" and isinstance(n.ast, ast.Name) and n.ast.id in fa.rd.locals:
                origins = P.of_name(n, n.ast.id)
                nullable = [o for o in origins if o.kind == "call" and _nullable_get(o.node)]
                if nullable:
                    derefs += 1
                    ok = _guarded(fa, n, n.ast.id, n.ast)
                    run.check("R15f", f, f"iteration over `{n.ast.id}` (may be None) is guarded", ok,
                              construct=f"unguarded iteration of nullable `{n.ast.id}`",
                              message=f"`{norm_stmt(n.stmt)}` iterates `{n.ast.id}` which may be None",
                              necessity="TypeError: 'NoneType' object is not iterable for schemas without the keyword",
                              node=n.stmt)
    run.floor("R15f", "dereferences of nullable .get() results", derefs, 3)
    run.notes.append(f"R15c: calls of locals that shadow a builtin: {shadow_calls}")


def schema_methods(C):
    """translator methods: those of JsonSchemaParser that take the (sub)schema as `schema` and dispatch / recurse"""
    return tuple(sorted(m.name for m in C.methods.values() if "schema" in m.params and m.name != "get_constraints"))



def _arg_kind(fa, n, e, param: str) -> str:
    """'same' if e is the function's own schema parameter unchanged, 'ref' if it comes from $ref resolution,
    'strict' if it is a component / fresh literal"""
    P = prov(fa)
    seen = set()

    def walk(os_: List[Origin]) -> Set[str]:
        out = set()
        for o in os_:
            if o.kind == "param":
                out.add("same" if o.text == param else "otherparam")
            elif o.kind == "call":
                c = o.node
                nm = call_attr(c) or ""
                if nm == "get_ref_object":
                    out.add("ref")
                elif nm in ("get", "pop") and isinstance(c.func, ast.Attribute):
                    out.add("strict")
                elif nm in ("dict", "copy") and c.args:
                    out |= walk(P.of_expr(o.at, c.args[0]))
                elif nm in ("items", "values", "keys") and isinstance(c.func, ast.Attribute) and not c.args:
                    base = walk(P.of_expr(o.at, c.func.value))
                    out.add("strict" if base and base <= {"same", "strict"} else "unknown")
                else:
                    out.add("unknown")
            elif o.kind in ("sub", "iter", "iter-unpack", "unpack", "attr"):
                if id(o) in seen:
                    continue
                seen.add(id(o))
                base = walk(o.base or [])
                # a component of anything rooted at the schema is strict
                out.add("strict" if base and base <= {"same", "strict", "otherparam"} else "unknown")
            elif o.kind in ("literal", "const"):
                out.add("strict")
            else:
                out.add("unknown")
        return out

    # a comprehension variable: take the provenance of the iterable it ranges over
    if isinstance(e, ast.Name) and e.id not in fa.rd.locals and n.ast is not None:
        for comp in ast.walk(n.ast):
            if isinstance(comp, ast.comprehension) and e.id in {x.id for x in ast.walk(comp.target)
                                                                if isinstance(x, ast.Name)}:
                base = walk(P.of_expr(n, comp.iter))
                kinds = {"strict"} if base and base <= {"same", "strict"} else {"unknown"}
                break
        else:
            kinds = walk(P.of_expr(n, e))
    else:
        kinds = walk(P.of_expr(n, e))
    if "ref" in kinds:
        return "ref"
    if "same" in kinds:
        return "same"
    if "unknown" in kinds or "otherparam" in kinds:
        return "unknown"
    return "strict"


def r15d(run):
    C = run.repo.cls(PARSER, "JsonSchemaParser")
    SCHEMA_METHODS = schema_methods(C)
    for need in ("parse_type", "parse_array", "parse_object", "parse_field"):
        if need not in SCHEMA_METHODS:
            raise AnalysisError(f"JsonSchemaParser.{need} not found")
    edges = {}   # caller -> list of (callee, kind, node)
    total = 0
    for name in SCHEMA_METHODS:
        f = C.methods.get(name)
        if f is None:
            raise AnalysisError(f"JsonSchemaParser.{name} not found")
        if "schema" not in f.params:
            raise AnalysisError(f"JsonSchemaParser.{name} has no `schema` parameter")
        fa = analysis(f)
        for n, c in fa.all_calls():
            cal = call_attr(c)
            if cal in SCHEMA_METHODS and isinstance(c.func, ast.Attribute) and unparse(c.func.value) == "self":
                arg = c.args[0] if c.args else kwarg(c, "schema")
                if arg is None:
                    raise AnalysisError(f"{name}: call {unparse(c)[:60]} without schema argument")
                k = _arg_kind(fa, n, arg, "schema")
                total += 1
                edges.setdefault(name, []).append((cal, k, c))
                run.check("R15d", f, f"`{unparse(c)[:55]}` descends ({k})", k in ("strict", "same"),
                          construct=f"recursion on {k} schema: {cal}({unparse(arg)})",
                          message=f"`{unparse(c)[:80]}` recurses on a schema that is "
                                  + ("the target of a $ref (recursive references never terminate)" if k == "ref"
                                     else "not provably a component of the current schema"),
                          necessity="a self-referential schema ($ref cycle) makes building the type recurse forever",
                          node=c)
    run.floor("R15d", "recursive translator calls", total, 8)
    # no cycle made only of `same` edges
    same = {a: {b for b, k, _ in lst if k == "same"} for a, lst in edges.items()}
    for start in SCHEMA_METHODS:
        seen, stack = set(), list(same.get(start, ()))
        while stack:
            x = stack.pop()
            if x == start:
                f = C.methods[start]
                run.check("R15d", f, "no call cycle passes the schema on unchanged", False,
                          construct=f"cycle without descent through {start}",
                          message=f"{start} can reach itself through calls that all pass `schema` unchanged",
                          necessity="building a type from any schema that takes this path never terminates")
                break
            if x in seen:
                continue
            seen.add(x)
            stack.extend(same.get(x, ()))
        else:
            run.ob("R15d", C.methods[start], f"every call cycle through {start} passes a strict component", True)


def r15e(run):
    """name sanitiser: trigger disjuncts vs. what the sanitiser is told"""
    f = run.repo.func(PARSER, "JsonSchemaParser.parse_object")
    g = run.repo.func(PARSER, "JsonSchemaParser.get_attname")
    fa = analysis(f)
    sites = []
    for n in fa.cfg.nodes:
        if n.kind == "stmt" and isinstance(n.ast, ast.Assign):
            for c in walk_shallow(n.ast.value):
                if isinstance(c, ast.Call) and call_attr(c) == "get_attname":
                    sites.append((n, c))
    run.floor("R15e", "sanitiser calls in parse_object", len(sites), 1)
    gsrc_names = names_in(g.node) | {a.attr for a in ast.walk(g.node) if isinstance(a, ast.Attribute)}
    # the sanitiser itself establishes freshness against `excludes`: decided as a table - get_attname is interpreted
    # (absint.py; re / keyword / itertools are the standard library's own functions) for raw names x exclusion lists
    import itertools as _it
    import keyword as _kw
    import re as _re
    from ..absint import Interp, Obj, Raised
    P = g.cls
    methods = {m.name: m.node for m in P.methods.values()}
    wrong = None
    rows = 0
    for raw in ("a", "a b", "class", "x-1", "a_1"):
        for excludes in (None, [], ["a"], ["a", "a_1"], ["a", "a_1", "a_2"], ["class_value"], ["a_b", "x_1", "a_1", "a_1_1"]):
            rows += 1
            ip = Interp(globals_={"re": Obj("module re", sub=_re.sub, compile=_re.compile), "keyword": Obj("module keyword", iskeyword=_kw.iskeyword),
                                  "itertools": Obj("module itertools", count=_it.count), "count": _it.count}, methods=methods,
                        module=g.module, max_steps=20000)
            cls_obj = ip.ev(ast.Name(id=P.name, ctx=ast.Load()), {})
            try:
                got = ip.call_function(g.node, (cls_obj, raw), {"excludes": list(excludes) if excludes is not None else None})
            except Raised as r:
                got = f"raises {r.cls}"
            base = _re.sub(r"[^A-Za-z0-9_]+", "_", raw).strip("_")
            if _kw.iskeyword(base):
                base += "_value"
            want = base
            k = 1
            while excludes and want in excludes:
                want = f"{base}_{k}"
                k += 1
            if got != want and wrong is None:
                wrong = (raw, excludes, got, want)
    run.check("R15e", g, "get_attname renames until the name is not in `excludes` (decision table)", wrong is None,
              construct="sanitiser has no freshness loop",
              message=f"get_attname({wrong[0]!r}, excludes={wrong[1]!r}) gives {wrong[2]!r}, expected {wrong[3]!r}" if wrong else "",
              necessity="two properties that sanitise to the same identifier overwrite each other")
    run.floor("R15e", "rows of the get_attname table", rows, 30)
    for n, c in sites:
        tgt = n.ast.targets[0]
        if not isinstance(tgt, ast.Name):
            continue
        name = tgt.id
        # the trigger: the dominating branch whose atoms mention `name`
        trig = None
        for b in fa.facts.branch_facts(n):
            if name in names_in(b.test):
                trig = b
        excl = kwarg(c, "excludes") or (c.args[1] if len(c.args) > 1 else None)
        excl_txt = unparse(excl) if excl is not None else ""
        if isinstance(excl, ast.Name) and excl.id in fa.rd.locals:
            # the list may be built in a local first: take the text of its definitions
            for d in fa.rd.defs_of(n, excl.id):
                if d is not fa.cfg.entry and d.kind == "stmt" and isinstance(d.ast, (ast.Assign, ast.AugAssign)):
                    excl_txt += " " + unparse(d.ast.value)
        if trig is None:
            run.ob("R15e", f, f"sanitiser call `{unparse(c)[:50]}` is unconditional", True, nontrivial=False)
            disj = []
        else:
            test = trig.test
            disj = list(test.values) if isinstance(test, ast.BoolOp) and isinstance(test.op, ast.Or) else [test]
        for d in disj:
            forb = None   # expression naming a forbidden set
            if isinstance(d, ast.Compare) and len(d.ops) == 1 and isinstance(d.ops[0], ast.In) \
                    and unparse(d.left) == name:
                forb = d.comparators[0]
                what = f"`{name} in {unparse(forb)}`"
            elif isinstance(d, ast.Call) and call_attr(d) == "hasattr" and len(d.args) == 2 \
                    and unparse(d.args[1]) == name:
                forb = d.args[0]
                what = f"`hasattr({unparse(forb)}, {name})`"
            if forb is None:
                run.ob("R15e", f, f"trigger `{unparse(d)[:50]}` is a syntactic-validity test (handled by the rewrite)",
                       True, nontrivial=False)
                continue
            ftxt = unparse(forb)
            told = ftxt in excl_txt or (isinstance(forb, ast.Name) and forb.id in gsrc_names) \
                or (isinstance(forb, ast.Attribute) and forb.attr in gsrc_names and ftxt in unparse(g.node))
            run.check("R15e", f, f"the reason {what} reaches the sanitiser", told,
                      construct=f"sanitiser not told about {ftxt}",
                      message=f"the rename is triggered by {what}, but get_attname is only given "
                              f"excludes={excl_txt or 'nothing'} and never consults {ftxt}: it can return the same "
                              f"colliding name",
                      necessity="a property named like a mapping method ('items', 'keys', 'update', ...) keeps its "
                                "name and building the class raises TypeError (field declared in the base class)",
                      node=c)
        # names also enter the class namespace un-sanitised (the loop's own keys): the sanitiser must avoid them too
        loops = [b for b in fa.cfg.dominators()[n] if b.kind == "branch" and b.is_for and b.polarity]
        if loops:
            it = loops[-1].stmt.iter
            base = it.func.value if isinstance(it, ast.Call) and isinstance(it.func, ast.Attribute) else it
            btxt = unparse(base)
            run.check("R15e", f, f"the sanitiser avoids the un-sanitised names of the loop (`{btxt}`)", btxt in excl_txt,
                      construct=f"sanitiser not told about {btxt}",
                      message=f"property names enter the class both raw (keys of `{btxt}`) and sanitised, but "
                              f"get_attname is only given excludes={excl_txt or 'nothing'}: a sanitised name can equal "
                              f"a later property's own name",
                      necessity="{'a-b': ..., 'a_b': ...} sanitises 'a-b' to 'a_b' and then collides with the property "
                                "'a_b': building the class raises ConfigError", node=c)
    # the namespace and annotation dicts are found by role: the third argument of the metaclass call and the value
    # stored under __annotations__
    NS = ANN = None
    for n, c in fa.all_calls():
        if unparse(c.func).endswith("object_meta_cls") and len(c.args) == 3 and isinstance(c.args[2], ast.Name):
            NS = c.args[2].id
        if call_attr(c) == "update" and isinstance(c.func, ast.Attribute):
            for kw in c.keywords:
                if kw.arg == "__annotations__" and isinstance(kw.value, ast.Name):
                    ANN = kw.value.id
    if not (NS and ANN):
        raise AnalysisError("parse_object: class namespace / annotations dicts not found")
    keys = set()
    for n in fa.cfg.nodes:
        if n.kind == "stmt" and isinstance(n.ast, ast.Assign) and isinstance(n.ast.targets[0], ast.Subscript):
            t = n.ast.targets[0]
            if unparse(t.value) in (NS, ANN):
                keys.add((unparse(t.value), unparse(t.slice)))
    ok = {k for _, k in keys} and len({k for _, k in keys}) == 1 and {a for a, _ in keys} == {NS, ANN}
    run.check("R15e", f, "fields and annotations are stored under the same (sanitised) name", bool(ok),
              construct="attrs / annotations keyed differently",
              message=f"parse_object stores fields and annotations under different keys: {sorted(keys)}",
              necessity="a field without annotation (or vice versa) is dropped or untyped in the built class")
    # alias: when the attribute name differs from the property name the original key is kept as alias
    alias_ok = False
    # roles: the alias local is what parse_field receives as alias=, the attribute name is the key of the namespace
    # stores, the schema key is the key element of the loop those stores sit in
    AL = {unparse(kwarg(c, "alias")) for n, c in fa.all_calls() if call_attr(c) == "parse_field" and kwarg(c, "alias") is not None}
    ATT = {k for _, k in keys}
    KEYS = set()
    for n in fa.cfg.nodes:
        if n.kind == "stmt" and isinstance(n.ast, ast.Assign) and isinstance(n.ast.targets[0], ast.Subscript) \
                and unparse(n.ast.targets[0].value) in (NS, ANN):
            for b in fa.cfg.dominators()[n]:
                if b.kind == "branch" and b.is_for and b.polarity and isinstance(b.stmt.target, ast.Tuple):
                    KEYS.add(unparse(b.stmt.target.elts[0]))
    for n in fa.cfg.nodes:
        if n.kind == "stmt" and isinstance(n.ast, ast.Assign) and unparse(n.ast.targets[0]) in AL \
                and unparse(n.ast.value) in KEYS:
            alias_ok = any(isinstance(a, ast.Compare) and isinstance(a.ops[0], ast.NotEq) and p
                           and {unparse(a.left), unparse(a.comparators[0])} == {sorted(ATT)[0], unparse(n.ast.value)}
                           for a, p in fa.facts.atoms_at(n)) if len(ATT) == 1 else False
    if not alias_ok and len(ATT) == 1:
        # written as a conditional expression at the call: alias=key if attname != key else None (either orientation)
        att = sorted(ATT)[0]
        for n, c in fa.all_calls():
            av = kwarg(c, "alias") if call_attr(c) == "parse_field" else None
            if isinstance(av, ast.IfExp) and isinstance(av.test, ast.Compare) and len(av.test.ops) == 1:
                l, r = unparse(av.test.left), unparse(av.test.comparators[0])
                ne = isinstance(av.test.ops[0], ast.NotEq)
                eq = isinstance(av.test.ops[0], ast.Eq)
                keyed = (av.body if ne else av.orelse) if (ne or eq) else None
                other = (av.orelse if ne else av.body) if (ne or eq) else None
                if keyed is not None and {l, r} == {att, unparse(keyed)} and unparse(keyed) in KEYS \
                        and isinstance(other, ast.Constant) and other.value is None:
                    alias_ok = True
    run.check("R15e", f, "a renamed property keeps its schema key as the field alias", alias_ok,
              construct="renamed property loses its key",
              message="parse_object does not set alias=key when attname != key",
              necessity="input under the schema's property name is no longer accepted by the built class")


def r15g(run):
    """a memo of translated types is keyed by everything the translation depends on"""
    C = run.repo.cls(PARSER, "JsonSchemaParser")
    memos = 0
    for f in C.methods.values():
        fa = analysis(f)
        for n in fa.cfg.nodes:
            if n.kind != "stmt" or not isinstance(n.ast, ast.Assign):
                continue
            t = n.ast.targets[0]
            if not (isinstance(t, ast.Subscript) and isinstance(t.value, ast.Attribute) and unparse(t.value.value) == "self"):
                continue
            v = n.ast.value
            if not (isinstance(v, ast.Call) and isinstance(v.func, ast.Attribute) and unparse(v.func.value) == "self"
                    and v.func.attr in C.methods):
                continue
            memos += 1
            key = t.slice
            key_names = set(names_in(key))
            for nm in list(key_names):
                if nm in fa.rd.locals:
                    for o in prov(fa).of_name(n, nm):
                        if o.node is not None and isinstance(o.node, ast.AST):
                            key_names |= names_in(o.node)
                        if o.kind in ("literal", "expr") and o.at is not None and o.at.ast is not None:
                            key_names |= names_in(o.at.ast)
            args = [a for a in v.args if isinstance(a, ast.Name)] + [k.value for k in v.keywords if isinstance(k.value, ast.Name)]
            missing = sorted({a.id for a in args if a.id in f.params and a.id not in key_names})
            run.check("R15g", f, f"the memo `{unparse(t.value)}` is keyed by every argument of `{v.func.attr}`", not missing,
                      construct=f"memo key of {unparse(t.value)} omits {missing}",
                      message=f"{f.qualname}: `{norm_stmt(n.ast)[:80]}` memoises the result of {v.func.attr}(...) under "
                              f"`{unparse(key)}`, which does not depend on {missing}",
                      necessity="the same sub-schema translated once without and once with its constraints "
                                "(with_constraints) shares one memo entry: array items reuse the unconstrained type built "
                                "for a property and return values the schema forbids", node=n.ast)
    run.ob("R15g", C.ref, "memoised translations are keyed completely", True, detail=f"{memos} memo store(s)", nontrivial=False)


def r15h(run):
    """the sanitised name never starts with an underscore (such attributes are private: not fields)"""
    g = run.repo.func(PARSER, "JsonSchemaParser.get_attname")
    fa = analysis(g)
    P = prov(fa)

    def state(n, e, depth=0) -> str:
        """'clean' | 'dirty'"""
        if depth > 8:
            raise AnalysisError("R15h: definition chain too deep")
        if isinstance(e, ast.Name):
            res = set()
            for d in fa.rd.defs_of(n, e.id):
                if d is fa.cfg.entry:
                    res.add("dirty")     # the raw parameter
                elif d.kind == "stmt" and isinstance(d.ast, ast.Assign):
                    res.add(state(d, d.ast.value, depth + 1))
                elif d.kind == "stmt" and isinstance(d.ast, ast.AugAssign) and isinstance(d.ast.op, ast.Add):
                    res.add(state(d, d.ast.target, depth + 1) if isinstance(d.ast.target, ast.Name) else "dirty")
                else:
                    raise AnalysisError(f"R15h: unsupported definition `{norm_stmt(d.ast)[:60]}`")
            return "dirty" if "dirty" in res or not res else "clean"
        if isinstance(e, ast.Call) and isinstance(e.func, ast.Attribute) and e.func.attr in ("strip", "lstrip") \
                and e.args and isinstance(e.args[0], ast.Constant) and "_" in str(e.args[0].value):
            return "clean"
        if isinstance(e, ast.BinOp) and isinstance(e.op, ast.Add):
            if isinstance(e.left, ast.Constant):
                return "dirty" if str(e.left.value).startswith("_") else "clean" if e.left.value else state(n, e.right, depth + 1)
            return state(n, e.left, depth + 1)
        if isinstance(e, ast.JoinedStr) and e.values:
            first = e.values[0]
            if isinstance(first, ast.Constant):
                return "dirty" if str(first.value).startswith("_") else "clean"
            if isinstance(first, ast.FormattedValue):
                return state(n, first.value, depth + 1)
        if isinstance(e, ast.IfExp):
            a, b = state(n, e.body, depth + 1), state(n, e.orelse, depth + 1)
            return "dirty" if "dirty" in (a, b) else "clean"
        raise AnalysisError(f"R15h: cannot classify `{unparse(e)[:60]}` in get_attname")

    rets = [n for n in fa.cfg.nodes if n.kind == "stmt" and isinstance(n.ast, ast.Return) and fa.cfg.is_live(n)]
    run.floor("R15h", "returns of get_attname", len(rets), 1)
    # the AugAssign definition reads the previous value: defs_of at the aug node itself
    for r in rets:
        st = state(r, r.ast.value)
        run.check("R15h", g, "the sanitised name cannot start with an underscore", st == "clean",
                  construct="sanitised name may start with '_'",
                  message=f"get_attname: `{norm_stmt(r.ast)}` can hand out a name with a leading underscore",
                  necessity="the data-class machinery treats underscore-prefixed attributes as private, not as fields: a "
                            "property named '2nd' (-> '_2nd') silently loses its type, constraints and `required`",
                  node=r.ast)
    # the trigger must cover the private prefix as well (cross-module agreement with validate_field_name)
    v = run.repo.func("utype.parser.base", "BaseParser.validate_field_name")
    private = "startswith('_')" in unparse(v.node).replace('"', "'")
    f = run.repo.func(PARSER, "JsonSchemaParser.parse_object")
    ffa = analysis(f)
    trig = [n for n in ffa.cfg.nodes if n.kind == "test" and "valid_attr(" in unparse(n.ast)]
    if private and trig:
        ok = any("startswith('_')" in unparse(n.ast).replace('"', "'") for n in trig)
        va = run.repo.maybe_func("utype.utils.functional", "valid_attr")
        if va is not None and "startswith('_')" in unparse(va.node).replace('"', "'"):
            ok = True
        run.check("R15h", f, "a property name with a leading underscore is sanitised too", ok,
                  construct="private-prefix names bypass the sanitiser",
                  message="parse_object renames a property only when it is not an identifier / already used / a base-class "
                          "attribute; a valid identifier starting with '_' keeps its name, and BaseParser.validate_field_name "
                          "does not accept such names as fields",
                  necessity="{'properties': {'_x': {'type': 'integer'}}, 'required': ['_x']} builds a class without the "
                            "field: {'y': 1} is accepted although _x is required, and '_x': 'abc' is never checked",
                  node=trig[0].ast)

# keywords whose falsy values (0, false, "", null) are meaningful: presence must not be decided by truthiness
FALSY_MEANINGFUL = {"const", "default"}


def r15i(run):
    C = run.repo.cls(PARSER, "JsonSchemaParser")
    total = 0
    for f in C.methods.values():
        fa = analysis(f)
        for n in fa.cfg.nodes:
            if n.ast is None or n.kind not in ("stmt", "test"):
                continue
            for sub in walk_shallow(n.ast):
                if not (isinstance(sub, ast.Call) and isinstance(sub.func, ast.Attribute) and sub.func.attr == "get"
                        and sub.args and isinstance(sub.args[0], ast.Constant) and sub.args[0].value in FALSY_MEANINGFUL):
                    continue
                total += 1
                kw = sub.args[0].value
                sentinel = len(sub.args) == 2 and unparse(sub.args[1]) == "unprovided"
                # how is the result consumed?
                bad = None
                parents = {}
                for x in ast.walk(n.ast):
                    for ch in ast.iter_child_nodes(x):
                        parents[id(ch)] = x
                par = parents.get(id(sub))
                if isinstance(par, ast.BoolOp) or isinstance(par, ast.UnaryOp) and isinstance(par.op, ast.Not) \
                        or isinstance(par, ast.IfExp) and par.test is sub or n.kind == "test" and n.ast is sub:
                    bad = "is tested by truthiness"
                elif isinstance(n.ast, ast.Assign) and n.ast.value is sub and not sentinel:
                    tgt = unparse(n.ast.targets[0])
                    for m in fa.cfg.nodes:
                        if m.kind == "test" and m.ast is not None and fa.cfg.can_reach(n, m):
                            for a, p in decompose(m.ast, True) + decompose(m.ast, False):
                                if unparse(a) == tgt:
                                    bad = f"is bound to `{tgt}` and tested by truthiness"
                    for m in fa.cfg.nodes:
                        if m.ast is None:
                            continue
                        for x in walk_shallow(m.ast):
                            if isinstance(x, ast.BoolOp) and any(unparse(v) == tgt for v in x.values[:-1]) \
                                    or isinstance(x, ast.IfExp) and unparse(x.test) == tgt:
                                bad = f"is bound to `{tgt}` and combined by truthiness"
                run.check("R15i", f, f"presence of `{kw}` is decided by a sentinel, not by truthiness", bad is None,
                          construct=f"falsy `{kw}` treated as absent",
                          message=f"{f.qualname}: the value of `{kw}` ({unparse(sub)}) {bad}",
                          necessity=f"{{'{kw}': 0}} / false / '' / null are legal: a falsy const without a type yields an "
                                    "unconstrained type that returns any value", node=sub)
    run.floor("R15i", "reads of const / default", total, 2)


def check(run):
    run.rules_run += ["R15a", "R15b", "R15c", "R15d", "R15e", "R15f", "R15g", "R15h", "R15i"]
    run.explain("Static tables-and-shapes check of the JSON-Schema translator: CONSTRAINTS_MAP / TYPE_MAP folded from "
                "source and compared with the JSON-Schema vocabulary (implication, not equality); nullable .get() "
                "results never called or dereferenced unguarded; recursion only on strict components; every trigger "
                "of the name sanitiser is handed to it.")
    F = Folder(run.repo)
    run.rule(r15a, run, F)
    run.rule(r15b, run, F)
    run.rule(r15cf, run)
    run.rule(r15d, run)
    run.rule(r15e, run)
    run.rule(r15g, run)
    run.rule(r15h, run)
    run.rule(r15i, run)
    # shared with C09 / C10: anyOf / oneOf / not are translated to the combinators, whose verdicts need (R09a-c) every
    # argument tried on the original input with the branch's error discipline, (R10c) handle_error recording before it
    # raises, (R10g) a fresh layer per attempt
    from . import c09, c10
    run.rules_run += ["R09a", "R09b", "R09c", "R10c", "R10g", "R18i"]
    run.rule(c09.r09, run)
    run.rule(c10.r10c, run)
    run.rule(c10.r10g, run)
    from . import c04
    run.rules_run.append("R10e")
    run.rule(c10.r10e, run, c04.in_scope_functions(run))
    # a nested object keeps its own minProperties / maxProperties / additionalProperties only if the context of a nested
    # class carries that class's options
    from . import c18
    run.rule(c18.r18i, run)
    # round 8: shared helpers decided as tables (helper_table.py)
    from . import helper_table as _ht
    run.rules_run.append("R15k")
    run.rule(_ht.r_attr, run)
