"""LogicalType.logical_parse as decision tables (shared by C09, C11, C12, C18).

The function (with whatever helpers it was split into: new helpers are analysed in place, the rest is reached through the
method table) is interpreted by the checker's own interpreter (absint.py) over modelled objects - nothing of the library
runs.  The model:

  * the combinator class is an object with `combinator` and `args` (argument types A, B, C as tokens);
  * the input is an object whose class is one of the argument types (exact-type cases) or a foreign class X;
  * the context records what the code does with it: `enter(route, options=...)` gives a child context whose `transformer`
    notes (stage options, argument, what was handed in) and succeeds or fails as the *scenario* says; `handle_error`,
    `collect_tmp_error`, `clear_tmp_error`, `raise_error` behave as RuntimeContext's own decision table says (C10 decides
    that table from RuntimeContext's source), in fail-fast and in collecting mode;
  * `utype.Options(**kw)` is an object remembering kw.

Every scenario (which attempt succeeds) x every flag combination x every input class is run; the outcome (returned token /
raised class + payload), the trace of attempts and the errors left on the context are compared with the documented meaning
of the combinators.  The staged retries of the union are read off the same traces (all attempts failing).
"""
import itertools
from typing import Dict, List, Optional, Tuple

from ..absint import Interp, Obj, Raised
from ..model import AnalysisError

FLAGS = ("no_data_loss", "no_explicit_cast")
POLICIES = ("invalid_items", "invalid_keys", "invalid_values")


class _Ctx:
    """python-side state of one modelled parse"""
    def __init__(self, scenario, collect: bool, fail_kind: str):
        self.scenario = scenario          # callable (stage_sig, con, nth_attempt) -> bool
        self.collect = collect
        self.fail_kind = fail_kind
        self.trace: List[tuple] = []
        self.errors: List[Raised] = []
        self.tmp: List[Raised] = []
        self.attempts = 0
        self.depth = 0
        self.input = None


def _sig(options) -> Optional[tuple]:
    if options is None:
        return None
    if isinstance(options, Obj) and options._cls == "Options":
        return tuple(sorted(options.__dict__.get("_kw", {}).items()))
    return ("?", repr(options))


def _token(st: _Ctx, v):
    if v is st.input:
        return "INPUT"
    if isinstance(v, Obj) and v._cls == "Result":
        return ("RESULT", v.stage, v.con, v.src)
    return ("OTHER", repr(v)[:40])


def _classes():
    """argument types A, B, C as class objects, SubA a subclass of A, X an unrelated class"""
    cs = {n: Obj(f"class {n}", _is_class=True, _type=type, __name__=n, _mro=()) for n in ("A", "B", "C", "X")}
    cs["SubA"] = Obj("class SubA", _is_class=True, _type=type, __name__="SubA", _mro=(cs["A"],))
    return cs


def _name(c) -> str:
    return c.__dict__.get("__name__", repr(c)) if isinstance(c, Obj) else str(c)


def _make_context(st: _Ctx, flags: Dict[str, bool]) -> Obj:
    def transformer_for(stage):
        def transformer(value, con, *a, **k):
            st.attempts += 1
            src = _token(st, value)
            con = _name(con)
            st.trace.append(("convert", stage, con, src))
            if st.scenario(stage, con, st.attempts):
                return Obj("Result", stage=stage, con=con, src=src)
            raise Raised(st.fail_kind, (f"{con} rejects",), bases=("Exception",))
        return transformer

    def handle_error(e, force_raise=False):
        r = e if isinstance(e, Raised) else Raised("Exception", (e,))
        st.errors.append(r)
        st.trace.append(("handle_error", r.cls))
        if force_raise or not st.collect:
            raise r
        return None

    def collect_tmp_error(e):
        st.tmp.append(e if isinstance(e, Raised) else Raised("Exception", (e,)))

    def clear_tmp_error():
        st.trace.append(("clear_tmp",))
        del st.tmp[:]

    def raise_error():
        if st.errors or st.tmp:
            raise Raised("CollectedParseError", (list(st.errors) + list(st.tmp),), bases=("ParseError", "Exception"))

    def make(stage, fl):
        def enter(route=None, options=None, **kw):
            sig = _sig(options)
            st.trace.append(("enter", sig))
            st.depth += 1
            if st.depth > 40:
                raise AnalysisError("logical_parse table: the modelled parse enters more than 40 nested contexts")
            child = dict(fl)
            for k, v in (sig or ()):
                if k in FLAGS:
                    child[k] = v        # Options.__and__: the child's options are the parent's with the stage's on top
            return make(("stage", sig), child)
        return Obj("RuntimeContext", options=Obj("Options", **fl), transformer=transformer_for(stage), enter=enter,
                   handle_error=handle_error, collect_tmp_error=collect_tmp_error, clear_tmp_error=clear_tmp_error,
                   raise_error=raise_error, errors=st.errors, tmp_errors=st.tmp)
    return make("direct", dict(flags))


def _globals():
    def options(**kw):
        return Obj("Options", _kw=dict(kw), **kw)
    return {
        "utype": Obj("module utype", Options=options),
        "Options": options,
        "exc": Obj("module exc", ParseError="ParseError", OneOfViolatedError="OneOfViolatedError",
                   NegateViolatedError="NegateViolatedError", CollectedParseError="CollectedParseError"),
    }


def run_case(run, op: str, args: Tuple[str, ...], input_cls: str, flags: Dict[str, bool], scenario, collect: bool,
             fail_kind: str = "TypeError"):
    """-> (outcome, trace, errors classes, tmp count) ; outcome = ('return', token) | ('raise', class, payload classes)"""
    f = run.repo.func("utype.parser.rule", "LogicalType.logical_parse")
    L = run.repo.cls("utype.parser.rule", "LogicalType")
    methods = {m.name: m.node for m in L.methods.values()}
    st = _Ctx(scenario, collect, fail_kind)
    cs = _classes()
    st.input = Obj(f"instance of {input_cls}", _type=cs[input_cls], _mro=cs[input_cls].__dict__.get("_mro", ()))
    ctx = _make_context(st, flags)
    cls_ = Obj("LogicalType", combinator=op, args=tuple(cs[a] for a in args), __name__="T", _is_class=True)
    ip = Interp(globals_=_globals(), methods=methods, module=f.module, max_steps=60000)
    try:
        got = ip.call_function(f.node, (cls_, st.input), {"context": ctx})
        outcome = ("return", _token(st, got))
    except RecursionError:
        raise AnalysisError("logical_parse table: the modelled parse does not terminate (unbounded recursion)")
    except Raised as r:
        payload = None
        if r.cls == "CollectedParseError" and r.args_:
            payload = [x.cls if isinstance(x, Raised) else "?" for x in r.args_[0]]
        outcome = ("raise", r.cls, payload)
    return outcome, list(st.trace), [e.cls for e in st.errors], len(st.tmp)


def documented_stages(flags) -> List[Optional[tuple]]:
    ndl, nec = flags["no_data_loss"], flags["no_explicit_cast"]
    out: List[Optional[tuple]] = []
    if not (ndl and nec):
        out.append("STRICT")
    if not ndl and not nec:
        out.append("NOLOSS")
    out.append("COMMON")
    return out


def stage_table(run) -> Dict[Tuple[bool, bool], List[Optional[tuple]]]:
    """for each (no_data_loss, no_explicit_cast) of the caller: the option signatures of the child contexts the union enters,
    in order, when every attempt fails (one entry per stage: consecutive equal signatures over the arguments are one stage)"""
    cached = getattr(run, "_union_stage_table", None)
    if cached is not None:
        return cached
    table = {}
    for ndl, nec in itertools.product((False, True), repeat=2):
        flags = {"no_data_loss": ndl, "no_explicit_cast": nec}
        outcome, trace, errs, tmp = run_case(run, "|", ("A", "B"), "X", flags, lambda s, c, n: False, collect=False)
        enters = [t[1] for t in trace if t[0] == "enter"]
        if len(enters) % 2:
            raise AnalysisError(f"logical_parse table: the union enters {len(enters)} child contexts for two arguments "
                                f"(not a whole number of stages)")
        stages = []
        for i in range(0, len(enters), 2):
            if enters[i] != enters[i + 1]:
                raise AnalysisError("logical_parse table: the two arguments of one union stage are tried under different options")
            stages.append(enters[i])
        table[(ndl, nec)] = stages
    run._union_stage_table = table
    return table


def stage_name(sig) -> str:
    if sig is None:
        return "the caller's own options"
    return "Options(" + ", ".join(f"{k}={v!r}" for k, v in sig) + ")"


def stage_flags(sig) -> set:
    return {k for k, v in (sig or ()) if k in FLAGS and v is True}


# ---- the combinators against their documented meaning ------------------------------------------------------------------

def _stage_kind(sig) -> str:
    fl = stage_flags(sig)
    if sig is None:
        return "COMMON"
    if fl == set(FLAGS):
        return "STRICT"
    if fl == {"no_data_loss"}:
        return "NOLOSS"
    return "OTHER"


def behaviour(run) -> Dict[str, Tuple[str, str, str]]:
    """-> {clause: (inputs, got, expected)} : the first counter-example of every violated clause"""
    cached = getattr(run, "_logic_behaviour", None)
    if cached is not None:
        return cached
    bad: Dict[str, Tuple[str, str, str]] = {}
    rows = 0

    def note(clause, inp, got, want):
        bad.setdefault(clause, (inp, str(got)[:160], str(want)[:160]))
    # ---- union ----
    args = ("A", "B")
    for ndl, nec in itertools.product((False, True), repeat=2):
        flags = {"no_data_loss": ndl, "no_explicit_cast": nec}
        doc = documented_stages(flags)
        attempts = [(s, c) for s in doc for c in args]
        for input_cls in ("X", "SubA", "A", "B"):
            for succ in itertools.product((False, True), repeat=len(attempts)):
                ok_map = dict(zip(attempts, succ))
                if input_cls not in ("X", "SubA") and any(succ) and not all(succ):
                    continue        # exact-type inputs: the scenario is irrelevant; run all-fail and all-succeed only
                if input_cls == "SubA" and (ndl or nec) :
                    continue        # the subclass-instance cases are run for the default flags only

                def scenario(stage, con, nth, ok_map=ok_map):
                    kind = _stage_kind(stage[1]) if isinstance(stage, tuple) and stage[0] == "stage" else "DIRECT"
                    return ok_map.get((kind, con), False)
                for collect in (False, True):
                    rows += 1
                    outcome, trace, errs, tmp = run_case(run, "|", args, input_cls, flags, scenario, collect)
                    inp = (f"(A | B) given an instance of {input_cls}, no_data_loss={ndl}, no_explicit_cast={nec}, "
                           f"accepting attempts {[f'{s}:{c}' for (s, c), v in ok_map.items() if v]}, "
                           f"{'collecting' if collect else 'fail-fast'}")
                    conv = [t for t in trace if t[0] == "convert"]
                    if any(t[3] != "INPUT" for t in conv):
                        note("|:threaded", inp, [t for t in conv if t[3] != "INPUT"][0], "every attempt converts the original input")
                    if input_cls in args:
                        if outcome != ("return", "INPUT"):
                            note("|:exact", inp, outcome, "the input itself, unchanged")
                        if conv:
                            note("|:exact-first", inp, f"{len(conv)} conversion attempt(s)", "none: the exact-type test comes first")
                        continue
                    first = next(((s, c) for (s, c) in attempts if ok_map[(s, c)]), None)
                    if first is None:
                        if outcome[0] != "raise":
                            note("|:all-fail", inp, outcome, "a failure (no argument accepts)")
                        elif outcome[1] != "CollectedParseError":
                            note("|:all-fail-kind", inp, outcome, "CollectedParseError with the arguments' errors")
                        continue
                    if outcome[0] != "return":
                        note("|:accept", inp, outcome, f"accepted (attempt {first} converts)")
                        continue
                    tok = outcome[1]
                    if not (isinstance(tok, tuple) and tok[0] == "RESULT" and tok[3] == "INPUT"):
                        note("|:result", inp, tok, "the conversion result of an accepting argument")
                        continue
                    kind = _stage_kind(tok[1][1]) if isinstance(tok[1], tuple) else "DIRECT"
                    if not ok_map.get((kind, tok[2]), False):
                        note("|:result", inp, tok, "the result of an attempt that succeeded")
                    elif (kind, tok[2]) != first:
                        note("|:order", inp, (kind, tok[2]), f"the first accepting attempt in the documented order {first}")
                    if tmp:
                        note("|:clear", inp, f"{tmp} temporary error(s) left on the context", "cleared on success")
    # ---- exclusive or ----
    args3 = ("A", "B", "C")
    for input_cls in ("X", "SubA", "A"):
        for succ in itertools.product((False, True), repeat=3):
            ok_map = dict(zip(args3, succ))
            for collect in (False, True):
                rows += 1
                outcome, trace, errs, tmp = run_case(run, "^", args3, input_cls, {"no_data_loss": False, "no_explicit_cast": False},
                                                     lambda s, c, n, ok_map=ok_map: ok_map[c], collect)
                inp = (f"(A ^ B ^ C) given an instance of {input_cls}, accepted by {[c for c in args3 if ok_map[c]]}, "
                       f"{'collecting' if collect else 'fail-fast'}")
                conv = [t for t in trace if t[0] == "convert"]
                if any(t[3] != "INPUT" for t in conv):
                    note("^:threaded", inp, [t for t in conv if t[3] != "INPUT"][0], "every argument is tested on the original input")
                if input_cls in args3:
                    if outcome != ("return", "INPUT"):
                        note("^:exact", inp, outcome, "the input itself, unchanged")
                    continue
                n_ok = sum(succ)
                if n_ok == 1:
                    want_con = [c for c in args3 if ok_map[c]][0]
                    if outcome[0] != "return":
                        note("^:one", inp, outcome, f"accepted with the result of {want_con}")
                    elif not (isinstance(outcome[1], tuple) and outcome[1][0] == "RESULT" and outcome[1][2] == want_con
                              and outcome[1][3] == "INPUT"):
                        note("^:one-result", inp, outcome[1], f"the conversion result of {want_con} (the only accepting argument)")
                    elif tmp:
                        note("^:clear", inp, f"{tmp} temporary error(s) left", "cleared on success")
                    if n_ok == 1 and len(conv) != 3:
                        note("^:all-tested", inp, f"{len(conv)} argument(s) tested", "all three (a later one may accept as well)")
                elif n_ok == 0:
                    if outcome[0] != "raise":
                        note("^:none", inp, outcome, "a failure (no argument accepts)")
                else:
                    if outcome[0] != "raise":
                        note("^:many", inp, outcome, "a failure (more than one argument accepts)")
                    elif "OneOfViolatedError" not in ([outcome[1]] + list(outcome[2] or [])):
                        note("^:many-kind", inp, outcome, "OneOfViolatedError")
    # ---- negation ----
    for accepts in (False, True):
        for collect in (False, True):
            rows += 1
            outcome, trace, errs, tmp = run_case(run, "~", ("A",), "X", {"no_data_loss": False, "no_explicit_cast": False},
                                                 lambda s, c, n, a=accepts: a, collect)
            inp = f"(~A) given a value that A {'accepts' if accepts else 'rejects'}, {'collecting' if collect else 'fail-fast'}"
            if accepts:
                if outcome[0] != "raise":
                    note("~:accepts", inp, outcome, "a failure (the argument accepts)")
                elif "NegateViolatedError" not in ([outcome[1]] + list(outcome[2] or [])):
                    note("~:accepts-kind", inp, outcome, "NegateViolatedError")
            else:
                if outcome[0] == "raise":
                    note("~:rejects-clean", inp, outcome, "accepted: the argument rejects the value")
                elif outcome != ("return", "INPUT"):
                    note("~:rejects", inp, outcome, "the input itself, unchanged")
                elif errs or tmp:
                    note("~:rejects-clean", inp, f"errors {errs}, {tmp} temporary", "no error recorded")
    # the loop of the negation runs over `args` like the others: a value converted for one argument never reaches the next
    rows += 1
    outcome, trace, errs, tmp = run_case(run, "~", ("A", "B"), "X", {"no_data_loss": False, "no_explicit_cast": False},
                                         lambda s, c, n: True, True)
    thr = [t for t in trace if t[0] == "convert" and t[3] != "INPUT"]
    if thr:
        note("~:threaded", "~ over (A, B), both accepting, collecting", thr[0], "every argument is tested on the original input")
    # ---- conjunction ----
    for succ in itertools.product((False, True), repeat=2):
        for collect in (False, True):
            for kind in ("TypeError", "ParseError"):
                rows += 1
                order = []

                def scenario(stage, con, nth, succ=succ):
                    return succ[nth - 1] if nth <= 2 else True
                outcome, trace, errs, tmp = run_case(run, "&", ("A", "B"), "X", {"no_data_loss": False, "no_explicit_cast": False},
                                                     scenario, collect, fail_kind=kind)
                inp = (f"(A & B): A {'accepts' if succ[0] else 'rejects'}, B {'accepts' if succ[1] else 'rejects'} "
                       f"(failing with {kind}), {'collecting' if collect else 'fail-fast'}")
                conv = [t for t in trace if t[0] == "convert"]
                if conv and (conv[0][2] != "A" or conv[0][3] != "INPUT"):
                    note("&:first", inp, conv[0], "the first argument converts the input")
                if succ[0]:
                    if len(conv) < 2:
                        note("&:second", inp, f"{len(conv)} conversion(s)", "the second argument is applied as well")
                    elif not (conv[1][2] == "B" and isinstance(conv[1][3], tuple) and conv[1][3][0] == "RESULT"
                              and conv[1][3][2] == "A"):
                        note("&:thread", inp, conv[1], "the second argument converts the first one's result")
                if all(succ):
                    want_ok = outcome[0] == "return" and isinstance(outcome[1], tuple) and outcome[1][0] == "RESULT" \
                        and outcome[1][2] == "B"
                    if not want_ok:
                        note("&:result", inp, outcome, "the result of the last argument")
                else:
                    if outcome[0] != "raise":
                        note("&:fail", inp, outcome, "a failure (an argument rejects)")
                    else:
                        kinds = [outcome[1]] + list(outcome[2] or [])
                        if not any(k in ("ParseError", "CollectedParseError") for k in kinds) or (
                                outcome[1] == "CollectedParseError" and "ParseError" not in (outcome[2] or [])):
                            note("&:fail-kind", inp, outcome, "a ParseError (a foreign exception is wrapped)")
                    if not succ[0] and len(conv) > 1:
                        note("&:stop", inp, f"{len(conv)} conversions", "conversion stops at the first rejecting argument")
    run._logic_behaviour = bad
    run._logic_rows = rows
    return bad
