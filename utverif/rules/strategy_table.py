"""The two field-lookup strategies (BaseParser.data_first_parse / field_first_parse) as decision tables.

Both functions (with whatever helpers they were split into) are interpreted by the checker's own interpreter (absint.py)
over modelled objects - nothing of the library runs - for every combination of a finite decision domain:

  * a parser with two fields: `a` (spellings a, a1; optionally depending on b) and `b`;
  * what the field `a` is: required or not, with or without a default, taking input or not (no_input), its value
    converting or failing;
  * the input: which of the keys a, a1 (same or different value, either order), b and an unknown key x are present;
  * the options: ignore_alias_conflicts, addition (None / True / False), errors raised at once or collected;
  * optionally `a` excluded by the caller (a parameter already supplied by position).

The fields, the context and the sentinel are modelled by their documented contracts (ParserField.is_required /
is_no_input / get_default / parse_value, RuntimeContext.handle_error, `unprovided`); get_field and parse_addition are
interpreted from the parser's own source.  The outcome of each strategy - the result mapping, or the set of errors - is
compared (i) between the two strategies (C06) and (ii) with the documented meaning of required / default / no-input /
alias conflict / unknown keys / dependencies (C05, C10, C13 clauses shared through the same rows).
"""
import itertools
from typing import Dict, List, Optional, Tuple

from ..absint import Interp, Obj, Raised
from ..model import AnalysisError

EXCS = ("AbsenceError", "AliasConflictError", "DependenciesAbsenceError", "ExceedError", "ParseError", "ConfigError",
        "ParamsExceedError", "ParamsLackError")


class _State:
    def __init__(self, collect: bool):
        self.collect = collect
        self.errors: List[Tuple[str, tuple]] = []
        self.calls: List[tuple] = []


def _exc_module():
    def ctor(name):
        def make(*a, **k):
            info = tuple(sorted((kk, v if isinstance(v, (str, int, bool, type(None))) else (
                tuple(sorted(v)) if isinstance(v, (set, frozenset, list, tuple)) and all(isinstance(x, str) for x in v) else repr(v)[:30]))
                for kk, v in k.items()))
            return Raised(name, (info,), bases=("ParseError", "Exception"))
        return make
    return Obj("module exc", **{n: ctor(n) for n in EXCS})


def _unprovided():
    u = Obj("Unprovided", _truth=False)
    u.__dict__["_call"] = lambda v=None: v is u
    return u


def build(run, scn: dict):
    """-> (parser object, context object, state, unprovided sentinel) for one scenario"""
    st = _State(scn["collect"])
    U = _unprovided()

    def handle_error(e, force_raise=False):
        r = e if isinstance(e, Raised) else Raised("Exception", (repr(e),))
        st.errors.append((r.cls, r.args_[0] if r.args_ else ()))
        if force_raise or not st.collect:
            raise r
        return None

    def collect_waring(*a, **k):
        return None
    opts = Obj("Options", ignore_alias_conflicts=scn["iac"], addition=scn["addition"], ignore_required=scn.get("ignore_required", False),
               invalid_values="throw", EXCLUDE="exclude", PRESERVE="preserve", THROW="throw", max_params=None, min_params=None,
               data_first_search=None, mode=None, no_default=False, force_default=U, defer_default=False,
               ignore_no_input=False, case_insensitive=False)
    def enter(route=None, options=None, **k):
        def transformer(value, t, *a, **kk):
            return ("converted", value)
        return Obj("RuntimeContext", options=opts, transformer=transformer, handle_error=handle_error,
                   collect_waring=collect_waring, errors=[], warnings=[])
    ctx = Obj("RuntimeContext", options=opts, handle_error=handle_error, collect_waring=collect_waring, errors=[], warnings=[],
              enter=enter)

    def field(name, aliases, required, default, no_input, parse_ok, deps):
        f = Obj("ParserField", name=name, attname=name, all_aliases=list(aliases), aliases=[a for a in aliases if a != name],
                dependencies=set(deps), attr_dependencies=set(deps), _id=name)

        def is_required(options=None, **k):
            st.calls.append(("is_required", name))
            return required and not scn.get("ignore_required", False)      # ParserField.is_required: off under ignore_required

        def is_no_input(value=None, options=None, **k):
            return no_input

        def get_default(options=None, defer=False, **k):
            st.calls.append(("get_default", name))
            return ("default", name) if default else U

        def parse_value(value, context=None, **k):
            st.calls.append(("parse_value", name, value))
            if parse_ok:
                return ("parsed", name, value)
            handle_error(Raised("ParseError", ((("item", name),),), bases=("Exception",)))
            return U
        f.__dict__.update(is_required=is_required, is_no_input=is_no_input, get_default=get_default, parse_value=parse_value)
        return f
    fa_ = field("a", ("a", "a1"), scn["required"], scn["default"], scn["no_input"], scn["parse_ok"], ("b",) if scn["deps"] else ())
    fb_ = field("b", ("b",), False, False, False, True, ())
    parser = Obj("BaseParser", fields={"a": fa_, "b": fb_}, field_alias_map={"a1": "a"}, attr_alias_map={"a1": "a", "a": "a", "b": "b"},
                 case_insensitive_names=set(), exclude_vars=set(),
                 addition_type=(Obj("class T", _is_class=True, _type=type) if scn.get("addition_type") else None),
                 options=opts, name="P", obj=None,
                 data_first_search=None)
    return parser, ctx, st, U


def run_strategy(run, f, scn: dict):
    """-> ('ok', frozenset(result items)) | ('error', class, info) | ('errors', frozenset((class, info)))"""
    fname = f.name
    P = f.cls
    methods = {m.name: m.node for m in P.methods.values()}
    parser, ctx, st, U = build(run, scn)
    ip = Interp(globals_={"exc": _exc_module(), "unprovided": U}, methods=methods, module=f.module, max_steps=40000)
    data = dict(scn["data"])
    kw = {"as_attname": False, "excluded_keys": (["a"] if scn["excluded"] else ["b"] if scn.get("excl_b") else None)}
    try:
        res = ip.call_function(f.node, (parser, data, ctx), kw)
    except Raised as r:
        return ("error", r.cls, r.args_[0] if r.args_ else ()), st
    except RecursionError:
        raise AnalysisError(f"strategy table: {fname} does not terminate on the model")
    if st.errors:
        return ("errors", frozenset(st.errors)), st
    if not isinstance(res, dict):
        return ("other", repr(res)[:60]), st
    return ("ok", frozenset((k, v if not isinstance(v, Obj) else v._cls) for k, v in res.items())), st


def data_shapes(tier: str):
    """the inputs: ordered key/value pairs over the keys a, a1 (spellings of the field a), b (the other field), x (unknown)"""
    shapes = []
    for a_part in ((), (("a", 1),), (("a1", 1),), (("a", 1), ("a1", 1)), (("a", 1), ("a1", 2)), (("a1", 2), ("a", 1))):
        for b in ((), (("b", 7),)):
            for x in ((), (("x", 9),)):
                shapes.append(tuple(a_part) + b + x)
    if tier != "thorough":
        # quick: every a-part, with b and x toggled together on the shapes where they matter least
        keep = []
        for s in shapes:
            keys = [k for k, _ in s]
            if ("b" in keys) == ("x" in keys) or len([k for k in keys if k in ("a", "a1")]) <= 1:
                keep.append(s)
        shapes = keep
    return shapes


def scenarios(tier: str):
    out = []
    for required, default, no_input, parse_ok in itertools.product((False, True), repeat=4):
        if required and default:
            continue            # a required field has no default by declaration
        for data in data_shapes(tier):
            present = any(k in ("a", "a1") for k, _ in data)
            if not present and not parse_ok:
                continue        # nothing to convert
            for iac, addition, collect in itertools.product((False, True), (None, True, False), (False, True)):
                for deps, excluded in ((False, False), (True, False), (False, True)):
                    has_x = any(k == "x" for k, _ in data)
                    if tier != "thorough" and excluded and (collect or addition is None):
                        continue
                    if tier != "thorough" and deps and (has_x or iac):
                        continue
                    out.append(dict(required=required, default=default, no_input=no_input, parse_ok=parse_ok, data=data,
                                    iac=iac, addition=addition, collect=collect, deps=deps, excluded=excluded))
                    if deps and present and not any(k == "b" for k, _ in data):
                        # the dependency `b` was supplied by position (excluded by the caller): it counts as provided
                        out.append(dict(out[-1], excl_b=True))
                    if not present and not deps and not excluded and not iac and (tier == "thorough" or addition is None):
                        out.append(dict(out[-1], ignore_required=True))
                    if any(k == "x" for k, _ in data) and not deps and not excluded and not iac and parse_ok \
                            and (tier == "thorough" or (not no_input and not collect)):
                        # the parser declares a type for unknown keys (a class-level addition type)
                        out.append(dict(required=required, default=default, no_input=no_input, parse_ok=parse_ok, data=data,
                                        iac=iac, addition=addition, collect=collect, deps=deps, excluded=excluded,
                                        addition_type=True))
    return out


def describe(scn) -> str:
    return (f"field a (spellings a, a1{', depends on b' if scn['deps'] else ''}): "
            f"{'required' if scn['required'] else 'optional'}, {'default' if scn['default'] else 'no default'}, "
            f"{'no_input' if scn['no_input'] else 'takes input'}, value {'converts' if scn['parse_ok'] else 'fails to convert'}"
            f"{', excluded by the caller' if scn['excluded'] else ''}"
            f"{', b supplied by position (excluded by the caller)' if scn.get('excl_b') else ''}; input {dict(scn['data'])!r} (in this order); "
            f"ignore_alias_conflicts={scn['iac']}, addition={scn['addition']}, "
            f"{'ignore_required=True, ' if scn.get('ignore_required') else ''}"
            f"{'the parser declares a type for unknown keys, ' if scn.get('addition_type') else ''}"
            f"{'errors collected' if scn['collect'] else 'fail-fast'}")


def expected(scn) -> tuple:
    """the documented outcome: ('ok', items) | ('errors', set of (class, item))  (a fail-fast run reports the first error of
    the set that the strategy meets; which one that is may differ, so fail-fast rows compare 'some error of the set')"""
    data = list(scn["data"])
    d = dict(data)
    errors = set()
    result = {}
    a_keys = [k for k, _ in data if k in ("a", "a1")]
    taken = None
    if scn["excluded"]:
        pass
    elif a_keys:
        # first spelling in the field's alias order
        first = "a" if "a" in d else "a1"
        taken = d[first]
        if scn["no_input"]:
            # the value is not taken: the field is filled by its default, and absent without one
            if scn["default"]:
                result["a"] = ("default", "a")
            elif scn["required"] and not scn.get("ignore_required"):
                errors.add("AbsenceError")
        else:
            if not scn["iac"] and len(a_keys) == 2 and d["a"] != d["a1"]:
                errors.add("AliasConflictError")
            if scn["parse_ok"]:
                result["a"] = "PARSED"
            else:
                errors.add("ParseError")
    else:
        if scn["required"] and not scn.get("ignore_required"):
            errors.add("AbsenceError")
        elif scn["default"]:
            result["a"] = ("default", "a")
    if "b" in d:
        result["b"] = ("parsed", "b", 7)
    if scn["deps"] and result.get("a") == "PARSED" and "b" not in d and not scn.get("excl_b"):
        errors.add("DependenciesAbsenceError")
    extras = [k for k, _ in data if k == "x" or (scn["excluded"] and k in ("a", "a1"))]
    for k in extras:
        if scn["addition"] is False:
            errors.add("ExceedError")
        elif scn["addition"]:
            result[k] = ("converted", d[k]) if scn.get("addition_type") else d[k]
    return errors, result


def table(run, tier: str, A=None, B=None):
    """A: the per-key (data-first) strategy, B: the per-field (field-first) strategy, as discovered from the selector.
    -> (rows, mismatches) ; mismatches: {clause: (description, got, expected)} (first counter-example per clause)"""
    if A is None or B is None:
        from .c06 import siblings
        _pd, A, B = siblings(run)
    cached = getattr(run, "_strategy_table", None)
    if cached is not None and cached[0] == tier:
        return cached[1], cached[2]
    scns = scenarios(tier)
    bad: Dict[str, Tuple[str, str, str]] = {}

    def note(clause, scn, got, want):
        bad.setdefault(clause, (describe(scn), str(got)[:200], str(want)[:200]))

    def norm(out):
        """outcome without the parsed value's identity (which spelling won is a clause of its own)"""
        if out[0] == "ok":
            items = {}
            for k, v in out[1]:
                items[k] = "PARSED" if (isinstance(v, tuple) and v[:2] == ("parsed", "a")) else v
            return ("ok", frozenset(items.items()))
        if out[0] == "error":
            return ("errors", frozenset([out[1]]))
        if out[0] == "errors":
            return ("errors", frozenset(c for c, _ in out[1]))
        return out

    def spelling(out):
        if out[0] == "ok":
            for k, v in out[1]:
                if isinstance(v, tuple) and v[:2] == ("parsed", "a"):
                    return v[2]
        return None
    def situation(scn) -> str:
        a_keys = [k for k, _ in scn["data"] if k in ("a", "a1")]
        d = dict(scn["data"])
        if scn["excluded"]:
            return "excluded"
        if not a_keys:
            return "absent"
        if scn["no_input"]:
            return "no-input"
        if len(a_keys) == 2 and d["a"] != d["a1"]:
            return "conflict"
        if not scn["parse_ok"]:
            return "parse-fail"
        if scn["deps"]:
            return "deps"
        return "provided"
    rows = 0
    for scn in scns:
        rows += 1
        sit = situation(scn)
        got = {}
        for fname, fi in (("data_first_parse", A), ("field_first_parse", B)):
            got[fname], _st = run_strategy(run, fi, scn)
        nd, nf = norm(got["data_first_parse"]), norm(got["field_first_parse"])
        a_keys = [k for k, _ in scn["data"] if k in ("a", "a1")]
        d = dict(scn["data"])
        two_diff = len(a_keys) == 2 and d["a"] != d["a1"]
        # (i) the strategies against each other
        if nd != nf:
            if not scn["collect"] and nd[0] == "errors" and nf[0] == "errors":
                # fail-fast: both fail, with the first error each strategy meets - the kinds may differ only within the
                # set of errors the input has (checked against the documented set below)
                pass
            else:
                note(f"diff@{sit}", scn, f"data-first {nd}", f"field-first {nf}")
        elif nd[0] == "ok" and spelling(got["data_first_parse"]) != spelling(got["field_first_parse"]):
            note("diff@spelling", scn, f"data-first takes {spelling(got['data_first_parse'])!r}",
                 f"field-first takes {spelling(got['field_first_parse'])!r}")
        # (ii) each strategy against the documented outcome
        want_err, want_res = expected(scn)
        for fname, n_ in (("data_first_parse", nd), ("field_first_parse", nf)):
            tag = "df" if fname.startswith("data") else "ff"
            if want_err:
                if n_[0] != "errors":
                    kind = sorted(want_err)[0]
                    note(f"{tag}:missing-{kind}@{sit}", scn, n_, f"rejected with {sorted(want_err)}")
                elif scn["collect"] and set(n_[1]) != want_err:
                    extra = set(n_[1]) - want_err
                    lack = want_err - set(n_[1])
                    note(f"{tag}:errors-{sorted(extra or lack)[0]}@{sit}", scn, sorted(n_[1]), sorted(want_err))
                elif not scn["collect"] and not set(n_[1]) <= want_err:
                    note(f"{tag}:errors-{sorted(set(n_[1]) - want_err)[0]}@{sit}", scn, sorted(n_[1]), f"one of {sorted(want_err)}")
            else:
                if n_[0] != "ok":
                    note(f"{tag}:spurious-{sorted(n_[1])[0] if n_[0] == 'errors' else 'other'}@{sit}", scn, n_, f"accepted: {want_res}")
                elif dict(n_[1]) != want_res:
                    gotd = dict(n_[1])
                    keys = sorted(set(gotd) ^ set(want_res)) or sorted(k for k in gotd if gotd[k] != want_res.get(k))
                    note(f"{tag}:result-{keys[0]}@{sit}", scn, gotd, want_res)
    run._strategy_table = (tier, rows, bad)
    return rows, bad


def rule_of(clause: str) -> Tuple[str, str, str]:
    """-> (rule id, construct, necessity) for a table clause `<who>:<kind>@<situation>` / `diff@<situation>`"""
    who, _, rest = clause.partition(":") if ":" in clause.split("@")[0] else ("diff", "", clause)
    kind, _, sit = (rest if who != "diff" else clause).partition("@")
    fn = {"df": "data_first_parse", "ff": "field_first_parse", "diff": "the two strategies"}[who]
    if who == "diff":
        if sit == "spelling":
            return ("R06j", "per-key strategy overwrites an already provided field",
                    "a: int = Field(alias_from=['a1', 'a2']) given {'a1': 1, 'a2': 2} under Options(ignore_alias_conflicts=True): "
                    "{'a': 2} data-first, {'a': 1} field-first")
        if sit == "excluded":
            return ("R06k", "fate of a key naming an excluded field differs",
                    "def f(a: int, /, **rest) called f(1, a=5): rest == {'a': 5} with one strategy and {} with the other")
        rule = {"absent": "R06a", "no-input": "R06f", "conflict": "R06b", "parse-fail": "R06d", "deps": "R06a",
                "provided": "R06a"}.get(sit, "R06a")
        return (rule, f"the strategies disagree ({sit})",
                "the same input gives a different result / a failure of a different kind per strategy")
    if "ExceedError" in kind or kind in ("result-x", "result-a1") or (sit == "excluded" and kind.startswith("result")):
        return ("R06k" if sit == "excluded" else "R06i", f"{fn}: unknown key handling ({kind}, {sit})",
                "an unknown key is kept / rejected / dropped contrary to the addition policy")
    if "DependenciesAbsenceError" in kind:
        return ("R06a", f"{fn}: dependencies ({kind})", "a field whose dependency is missing is accepted (or the reverse)")
    if sit == "absent" or "AbsenceError" in kind and sit not in ("parse-fail", "no-input"):
        return ("R05c", f"{fn}: absent field ({kind})",
                "a missing required field silently takes a default / an optional field raises an absence error")
    if sit == "no-input":
        return ("R06f", f"{fn}: no-input field ({kind})",
                "the key given for a no-input field is treated as input (or the field's default is lost)")
    if sit == "conflict" or "AliasConflictError" in kind:
        return ("R06b", f"{fn}: alias conflict ({kind})", "two different values for one field are accepted (or equal ones rejected)")
    if sit == "parse-fail":
        return ("R06d", f"{fn}: failed conversion ({kind})",
                "with collected errors a provided-but-invalid item is reported a second time as absent")
    return ("R06a", f"{fn}: {kind} ({sit})", "the strategy's result differs from the documented one")
