"""C06 - the result does not depend on the field-lookup strategy.

R06a action/guard vectors of the two siblings agree   R06b alias conflict compares like with like
R06c the selector is total, exclusive and passes the same arguments
"""
import ast
from typing import Dict, FrozenSet, List, Optional, Set, Tuple

from ..cfg import analysis, FuncAnalysis, Node, N, E, is_handle_error_call, is_forced
from ..lib import prov, call_index, exc_class_of_ctor, opt_attr
from ..model import AnalysisError, FuncInfo, call_attr, kwarg, unparse, walk_shallow, norm_stmt, names_in

FULL = frozenset({"None", "False", "falsy", "truthy"})
PREDICATES = ("is_required", "is_no_input")


def siblings(run) -> Tuple[FuncInfo, FuncInfo, FuncInfo]:
    """the two callees of the strategy conditional in parse_data (discovered, not named)"""
    pd = run.repo.func("utype.parser.base", "BaseParser.parse_data")
    fa = analysis(pd)
    ci = call_index(run.repo)
    pairs = {}
    for n, c in fa.all_calls():
        if not (isinstance(c.func, ast.Attribute) and isinstance(c.func.value, ast.Name) and c.func.value.id == "self"):
            continue
        for a, p in fa.facts.atoms_at(n):       # atoms: `if not dfs: B else: A` selects the same callees
            # the selector is a local flag or (when written inline) the expression itself
            pairs.setdefault(unparse(a), {})[bool(p)] = (n, c)
    for var, d in pairs.items():
        if True in d and False in d:
            t = ci.resolve(pd, d[True][1])
            e = ci.resolve(pd, d[False][1])
            if len(t) == 1 and len(e) == 1 and t[0] is not e[0]:
                return pd, t[0], e[0]
    raise AnalysisError("R06: the strategy selector in BaseParser.parse_data was not found")


def atom_classes(atom, pol) -> Optional[Tuple[str, FrozenSet[str]]]:
    """(option attribute, admissible value classes) for an atom over an Options attribute"""
    a = atom
    if isinstance(a, ast.Compare) and len(a.ops) == 1:
        attr = opt_attr(a.left)
        r = a.comparators[0]
        if attr and isinstance(r, ast.Constant):
            op = a.ops[0]
            if r.value is None and isinstance(op, (ast.Is, ast.IsNot)):
                isn = isinstance(op, ast.Is) == pol
                return attr, frozenset({"None"}) if isn else FULL - {"None"}
            if r.value is False and isinstance(op, (ast.Is, ast.IsNot)):
                isf = isinstance(op, ast.Is) == pol
                return attr, frozenset({"False"}) if isf else FULL - {"False"}
        return None
    attr = opt_attr(a)
    if attr:
        return attr, frozenset({"truthy"}) if pol else FULL - {"truthy"}
    return None


def literal_atom(atom, pol) -> Optional[Tuple[str, str]]:
    """string-policy comparisons  options.X == options.EXCLUDE"""
    if isinstance(atom, ast.Compare) and len(atom.ops) == 1 and isinstance(atom.ops[0], (ast.Eq, ast.NotEq)):
        attr = opt_attr(atom.left)
        if attr and opt_attr(atom.comparators[0]):
            eq = isinstance(atom.ops[0], ast.Eq) == pol
            return attr, ("==" if eq else "!=") + opt_attr(atom.comparators[0])
    return None


def predicate_atom(atom, pol, fa=None, n=None) -> Optional[Tuple[str, bool]]:
    if isinstance(atom, ast.Call) and call_attr(atom) in PREDICATES and isinstance(atom.func, ast.Attribute):
        return call_attr(atom), pol
    # unprovided(V) where V is the result of a parse / default call: "that call returned the sentinel"
    if fa is not None and isinstance(atom, ast.Call) and call_attr(atom) == "unprovided" and len(atom.args) == 1 \
            and isinstance(atom.args[0], ast.Name):
        os_ = prov(fa).of_name(n, atom.args[0].id)
        callees = {o.text.split(".")[-1] for o in os_ if o.kind == "call"}
        if os_ and all(o.kind == "call" for o in os_) and len(callees) == 1:
            return f"sentinel({callees.pop()})", pol
    return None


def predicate_summary(run, name: str, result: bool) -> Dict[str, FrozenSet[str]]:
    """option classes implied by `field.<name>(...)` returning a truthy (result=True) / falsy value"""
    f = run.repo.func("utype.parser.field", f"ParserField.{name}")
    fa = analysis(f)
    common: Optional[Dict[str, FrozenSet[str]]] = None
    for n in fa.cfg.nodes:
        if n.kind != "stmt" or not isinstance(n.ast, ast.Return) or not fa.cfg.is_live(n):
            continue
        v = n.ast.value
        const = v.value if isinstance(v, ast.Constant) else "?"
        if result and const in (False, None):
            continue
        if not result and const is True:
            continue
        vec: Dict[str, FrozenSet[str]] = {}
        for a, p in fa.facts.atoms_at(n):
            ac = atom_classes(a, p)
            if ac:
                vec[ac[0]] = vec.get(ac[0], FULL) & ac[1]
        if common is None:
            common = vec
        else:
            common = {k: (common[k] | vec[k]) for k in common if k in vec}
            common = {k: v2 for k, v2 in common.items() if v2 != FULL}
    return common or {}


def helper_summary(run, owner: FuncInfo, name: str) -> Dict[str, FrozenSet[str]]:
    """option classes holding at every return of `self.<name>` that does not return the `unprovided` sentinel"""
    ci = call_index(run.repo)
    cands = [g for g in ci.by_name.get(name, []) if g.cls is not None and g.cls.name == "BaseParser"]
    if not cands:
        return {}
    g = cands[0]
    ga = analysis(g)
    common = None
    for n in ga.cfg.nodes:
        if n.kind != "stmt" or not isinstance(n.ast, ast.Return) or not ga.cfg.is_live(n):
            continue
        if unparse(n.ast.value) == "unprovided":
            continue
        vec = {}
        for a, p in ga.facts.atoms_at(n):
            ac = atom_classes(a, p)
            if ac:
                vec[ac[0]] = vec.get(ac[0], FULL) & ac[1]
        if common is None:
            common = vec
        else:
            common = {k: (common[k] | vec[k]) for k in common if k in vec}
    return {k: v for k, v in (common or {}).items() if v != FULL}


class Action:
    def __init__(self, name, node, stmt):
        self.name = name
        self.node = node
        self.stmt = stmt
        self.options: Dict[str, FrozenSet[str]] = {}
        self.literals: Set[Tuple[str, str]] = set()
        self.preds: Dict[str, bool] = {}

    def vector(self):
        return (tuple(sorted((k, tuple(sorted(v))) for k, v in self.options.items() if v != FULL)),
                tuple(sorted(self.literals)), tuple(sorted(self.preds.items())))


def collect_actions(run, f: FuncInfo) -> List[Action]:
    fa = analysis(f)
    acts: List[Action] = []
    ret_vars = {unparse(n.ast.value) for n in fa.cfg.nodes if n.kind == "stmt" and isinstance(n.ast, ast.Return)
                and isinstance(n.ast.value, ast.Name)}
    for n in fa.cfg.nodes:
        if n.kind != "stmt" or not fa.cfg.is_live(n):
            continue
        a = n.ast
        name = None
        for c in fa.calls_at(n):
            if is_handle_error_call(c) and c.args:
                k = exc_class_of_ctor(c.args[0])
                if k:
                    name = f"raise:{k}"
            elif call_attr(c) == "parse_addition":
                name = "store:extra"
            elif call_attr(c) == "parse_value":
                name = "parse:field"
            elif call_attr(c) == "update" and isinstance(c.func, ast.Attribute) and len(c.args) == 1 \
                    and any(isinstance(x, ast.Attribute) and x.attr in ("dependencies", "attr_dependencies")
                            for x in ast.walk(c.args[0])):
                name = "collect:dependencies"
        if name is None and isinstance(a, ast.Assign) and len(a.targets) == 1 and isinstance(a.targets[0], ast.Subscript) \
                and unparse(a.targets[0].value) in ret_vars:
            os_ = prov(fa).of_expr(n, a.value)
            kinds = {o.text.split(".")[-1] for o in os_ if o.kind == "call"}
            if "get_default" in kinds:
                name = "store:default"
            elif "parse_value" in kinds:
                name = "store:parsed"
            else:
                name = "store:other"
        if name is None:
            continue
        act = Action(name, n, a)
        for at, p in fa.facts.atoms_at(n):
            ac = atom_classes(at, p)
            if ac:
                act.options[ac[0]] = act.options.get(ac[0], FULL) & ac[1]
                continue
            la = literal_atom(at, p)
            if la:
                act.literals.add(la)
                continue
            pa = None
            for b_ in fa.facts.branch_facts(n):
                if any(x is at for x, _ in __import__('utverif.cfg', fromlist=['decompose']).decompose(b_.test, b_.polarity)):
                    pa = predicate_atom(at, p, fa, b_.pred[0][0])
            if pa is None:
                pa = predicate_atom(at, p)
            if pa:
                act.preds[pa[0]] = pa[1]
        # closure: predicate facts imply option classes (read from the predicate's own source)
        for pn, pv in list(act.preds.items()):
            if pn not in PREDICATES:
                continue
            for k, v in predicate_summary(run, pn, pv).items():
                act.options[k] = act.options.get(k, FULL) & v
        if name == "store:extra":
            for k, v in helper_summary(run, f, "parse_addition").items():
                act.options[k] = act.options.get(k, FULL) & v
        if name == "store:default":
            act.name = "store:default@no-input" if act.preds.get("is_no_input") is True else "store:default@missing"
        acts.append(act)
    return acts


def fmt(vec) -> str:
    o, l, p = vec
    parts = [f"{k} in {{{','.join(v)}}}" for k, v in o] + [f"{k}{v}" for k, v in l] + [f"{k}()={v}" for k, v in p]
    return " and ".join(parts) or "unconditional"


TABLE_TITLES = {
    "R06a": "both strategies give the documented result for present / absent fields and dependencies, and agree with each other",
    "R06b": "two different values for one field are an alias conflict in both strategies (equal values are not)",
    "R06d": "a provided value that fails to convert is reported once, never as absent, in both strategies",
    "R06f": "a field that takes no input from the given value is filled by its default (and absent without one) in both strategies",
    "R06i": "unknown keys are kept / rejected / dropped by the addition policy alone, in both strategies",
    "R06j": "which of several spellings of one field wins does not depend on the strategy",
    "R06k": "a key naming an excluded (positionally supplied) field has the same fate in both strategies",
    "R05c": "a missing field raises AbsenceError exactly when it is required, and takes its default otherwise",
}


def emit_table(run, rule: str, A: FuncInfo = None, B: FuncInfo = None, report_as: str = None):
    """the clauses of `rule` decided on the decision table of the two lookup strategies (strategy_table.py)"""
    from . import strategy_table as stt
    if A is None or B is None:
        _pd, A, B = siblings(run)
    rows, bad = stt.table(run, run.tier, A, B)
    mine = {c: v for c, v in bad.items() if stt.rule_of(c)[0] == rule}
    title = TABLE_TITLES[rule]
    rule = report_as or rule
    run.floor(rule, "rows of the lookup-strategy decision table", rows, 3000)
    if not mine:
        run.check(rule, A, title + " (decision table)", True, construct=f"{rule} table")
        return
    for clause, (desc, got, want) in sorted(mine.items()):
        _r, construct, nec = stt.rule_of(clause)
        who = B if clause.startswith("ff:") else A
        run.check(rule, who, title + f" [{clause}]", False, construct=construct,
                  message=f"{who.qualname}: for [{desc}] the outcome is {got}; expected {want}", necessity=nec)


def r06a(run, A: FuncInfo, B: FuncInfo):
    emit_table(run, "R06a", A, B)


def container_state(fa: FuncAnalysis, var: str) -> Set[str]:
    """typestates of the values stored into local mapping `var`"""
    states = set()
    for n in fa.cfg.nodes:
        if n.kind == "stmt" and isinstance(n.ast, ast.Assign):
            for t in n.ast.targets:
                if isinstance(t, ast.Subscript) and unparse(t.value) == var:
                    states |= value_state(fa, n, n.ast.value)
    return states


def value_state(fa: FuncAnalysis, n: Node, e, depth=0) -> Set[str]:
    out = set()
    if depth > 4:
        return {"UNKNOWN"}
    for o in prov(fa).of_expr(n, e):
        if o.kind == "global" and o.text == "unprovided":
            continue      # the "nothing yet" sentinel, excluded by the unprovided(...) guard of the comparison
        if o.kind == "call" and o.text.split(".")[-1] in ("parse_value", "get_default", "parse_addition"):
            out.add("PARSED")
        elif o.kind in ("iter", "iter-unpack") and o.base and any(
                b.kind == "call" and b.text.split(".")[-1] == "items" for b in o.base):
            base_call = [b for b in o.base if b.kind == "call"][0].node
            recv = unparse(base_call.func.value)
            out.add("RAW" if recv in ("data", "_data", "kwargs") else "UNKNOWN")
        elif o.kind == "sub":
            base = unparse(o.node.value)
            if base in ("data", "_data", "kwargs"):
                out.add("RAW")
            else:
                out |= container_state(fa, base) or {"UNKNOWN"}
        elif o.kind == "param":
            out.add("RAW")
        else:
            out.add("UNKNOWN")
    return out


def r06b(run, funcs):
    emit_table(run, "R06b", funcs[0], funcs[1])


def r06c(run, pd: FuncInfo, A: FuncInfo, B: FuncInfo):
    fa = analysis(pd)
    calls = {}
    for n, c in fa.all_calls():
        if call_attr(c) in (A.name, B.name):
            calls[call_attr(c)] = (n, c)
    ok = len(calls) == 2
    run.check("R06c", pd, "both strategies are reachable from the selector", ok, construct="selector",
              message="parse_data does not call both strategies")
    if not ok:
        return
    (na, ca), (nb, cb) = calls[A.name], calls[B.name]
    sig = lambda c: ([unparse(a) for a in c.args], sorted((k.arg, unparse(k.value)) for k in c.keywords))
    run.check("R06c", pd, "both strategies receive the same arguments", sig(ca) == sig(cb),
              construct="strategies called with different arguments",
              message=f"parse_data calls {A.name}{sig(ca)} but {B.name}{sig(cb)}",
              necessity="e.g. excluded_keys / as_attname passed to one strategy only changes function binding per strategy")
    # both results are returned
    ta = na.ast.targets[0].id if isinstance(na.ast, ast.Assign) and isinstance(na.ast.targets[0], ast.Name) else None
    tb = nb.ast.targets[0].id if isinstance(nb.ast, ast.Assign) and isinstance(nb.ast.targets[0], ast.Name) else None
    rets = [n for n in fa.cfg.nodes if n.kind == "stmt" and isinstance(n.ast, ast.Return) and fa.cfg.is_live(n)]
    ok = bool(rets) and all(
        (isinstance(r.ast.value, ast.Name) and r.ast.value.id == ta == tb) or
        (isinstance(r.ast.value, ast.Call) and call_attr(r.ast.value) in (A.name, B.name)) for r in rets)
    run.check("R06c", pd, "parse_data returns the selected strategy's result unchanged", ok,
              construct="selector result", message="parse_data post-processes the result of one strategy")
    # signatures agree
    pa = [(p, unparse(A.param_default(p))) for p in A.params]
    pb = [(p, unparse(B.param_default(p))) for p in B.params]
    run.check("R06c", B, "the two strategies have the same signature and defaults", pa == pb,
              construct="strategy signatures differ", message=f"{A.name}{pa} vs {B.name}{pb}")
    # the max/min params checks precede the dispatch
    checks = [n for n, c in fa.all_calls() if is_handle_error_call(c) and c.args and
              exc_class_of_ctor(c.args[0]) in ("ParamsExceedError", "ParamsLackError")]
    run.check("R06c", pd, "max_params / min_params are checked before either strategy runs",
              len(checks) == 2 and all(not fa.cfg.dominates(na, c_) and not fa.cfg.dominates(nb, c_) for c_ in checks)
              and all(fa.cfg.can_reach(c_, na) and fa.cfg.can_reach(c_, nb) for c_ in checks),
              construct="params count checks", message="the params count checks are not shared by both strategies")


def r06d(run, A: FuncInfo, B: FuncInfo):
    """consumed-input bookkeeping: (i) the key filter of the extra-key pass covers *every* alias of a consumed field;
    (ii) the record of consumed inputs is updated whenever parse_value is called, independent of its outcome;
    (iii) absence is decided on inputs, not on parse results"""
    emit_table(run, "R06d", A, B)          # the two lookup strategies: decided on their decision table
    pp = run.repo.func("utype.parser.func", "FunctionParser.parse_params")
    for f in (pp,):
        fa = analysis(f)
        pv = [(n, c) for n, c in fa.all_calls() if call_attr(c) == "parse_value"]
        # sets/dicts tested by membership to skip keys / fields
        for n, c in fa.all_calls():
            if call_attr(c) != "parse_addition":
                continue
            for a, p in fa.facts.atoms_at(n):
                if isinstance(a, ast.Compare) and isinstance(a.ops[0], ast.In) and not p \
                        and isinstance(a.comparators[0], ast.Name):
                    setname = a.comparators[0].id
                    feeds = []
                    for m in fa.cfg.nodes:
                        for c2 in fa.calls_at(m):
                            if isinstance(c2.func, ast.Attribute) and unparse(c2.func.value) == setname \
                                    and c2.func.attr in ("add", "update", "append", "extend"):
                                feeds.append(c2)
                    ok = bool(feeds) and all(c2.func.attr in ("update", "extend") and c2.args and
                                             unparse(c2.args[0]).endswith(".all_aliases") for c2 in feeds)
                    run.check("R06d", f, f"the extra-key filter `{setname}` is fed with every alias of a consumed field", ok,
                              construct=f"extra-key filter {setname} fed partially",
                              message=f"{f.qualname}: `{setname}` (keys that are not extra) is fed by "
                                      + ", ".join(f"`{unparse(c2)[:50]}`" for c2 in feeds)
                                      + " instead of all aliases of each consumed field",
                              necessity="a field given under two equal aliases leaves the spare alias as an 'extra' key: "
                                        "kept / rejected by this strategy, silently consumed by the other")
    # (ii) bookkeeping precedes parsing
    for f in (pp,):
        fa = analysis(f)
        pv = [(n, c) for n, c in fa.all_calls() if call_attr(c) == "parse_value"]
        # candidates: local containers written in the same loop with the field name / aliases and read in a guard
        cands = set()
        # bookkeeping containers are found by role, not by name: local containers fed with the field's name / aliases /
        # raw value (never with a parse result, which exists on success only)
        def _from_parse(node, e):
            return "PARSED" in value_state(fa, node, e)
        for n in fa.cfg.nodes:
            if n.kind == "stmt":
                for c in fa.calls_at(n):
                    if isinstance(c.func, ast.Attribute) and isinstance(c.func.value, ast.Name) \
                            and c.func.attr in ("add", "append", "update") and c.func.value.id in fa.rd.locals \
                            and c.func.value.id not in f.params and c.args and not _from_parse(n, c.args[0]):
                        cands.add((c.func.value.id, n))
                if isinstance(n.ast, ast.Assign) and isinstance(n.ast.targets[0], ast.Subscript) \
                        and isinstance(n.ast.targets[0].value, ast.Name) and n.ast.targets[0].value.id in fa.rd.locals \
                        and n.ast.targets[0].value.id not in f.params and not _from_parse(n, n.ast.value):
                    cands.add((n.ast.targets[0].value.id, n))
        for n, c in pv:
            marks = [m for nm, m in cands if fa.cfg.dominates(m, n)]
            if not marks:
                # or every path from the parse to the next iteration passes a mark
                loop_heads = [m for m in fa.cfg.nodes if m.kind == "iter"]
                reach = fa.cfg.reach_from_succ(n, kinds=(N,), avoid=[m for nm, m in cands])
                marks_ok = bool(cands) and not any(h in reach for h in loop_heads) and fa.cfg.exit not in reach
            else:
                marks_ok = True
            run.check("R06d", f, f"`{unparse(c)[:40]}`: the input is recorded as consumed whether or not it parses", marks_ok,
                      construct="consumed-input record depends on the parse outcome",
                      message=f"{f.qualname}: the record of consumed inputs is not updated on every path through "
                              f"`{unparse(c)[:50]}` (it is skipped when the value fails to parse)",
                      necessity="with collected errors a provided-but-invalid item is later treated as not provided: it is "
                                "reported a second time as absent (or its other alias is parsed instead)", node=c)
    # (iii) absence decided on inputs
    for f in (pp,):
        fa = analysis(f)
        for n, c in fa.all_calls():
            if not (is_handle_error_call(c) and c.args and exc_class_of_ctor(c.args[0]) == "AbsenceError"):
                continue
            ok = False
            seen = []
            for a, p in fa.facts.atoms_at(n):
                if isinstance(a, ast.Call) and call_attr(a) == "unprovided" and p and a.args:
                    st = value_state(fa, n, a.args[0])
                    seen.append(f"unprovided({unparse(a.args[0])}):{'/'.join(sorted(st))}")
                    if st == {"RAW"} or st == set():
                        ok = True
                if isinstance(a, ast.Compare) and isinstance(a.ops[0], ast.In) and not p \
                        and isinstance(a.comparators[0], ast.Name):
                    cs = container_state(fa, a.comparators[0].id)
                    nm = a.comparators[0].id
                    if not cs:
                        # a list of names fed by append(field.attname)
                        appended = [c2 for m in fa.cfg.nodes for c2 in fa.calls_at(m)
                                    if isinstance(c2.func, ast.Attribute) and unparse(c2.func.value) == nm]
                        cs = {"RAW"} if appended else set()
                    seen.append(f"not in {nm}:{'/'.join(sorted(cs))}")
                    if "RAW" in cs:
                        ok = True
            run.check("R06d", f, "AbsenceError is decided on what was provided, not on what parsed", ok,
                      construct="absence decided on parse results",
                      message=f"{f.qualname}: the AbsenceError is guarded only by {seen}: a field counts as absent when "
                              f"its value was provided but failed to parse",
                      necessity="with collect_errors=True an invalid required field is reported twice, once as absent, "
                                "and only by this strategy", node=c)


def r06f(run, A: FuncInfo, B: FuncInfo):
    emit_table(run, "R06f", A, B)


def r06g(run, A: FuncInfo, B: FuncInfo):
    """the per-field pass (absence / defaults) ranges over all declared fields"""
    for f in (A, B):
        fa = analysis(f)
        n_loops = 0
        for n, c in fa.all_calls():
            is_abs = is_handle_error_call(c) and c.args and exc_class_of_ctor(c.args[0]) == "AbsenceError"
            if not is_abs:
                continue
            loops = [m for m in fa.cfg.dominators()[n] if m.kind == "branch" and m.is_for and m.polarity]
            if not loops:
                continue
            n_loops += 1
            it = loops[-1].stmt.iter
            txt = unparse(it)
            ok = txt in ("self.fields.items()", "self.fields.values()", "self.fields")
            run.check("R06g", f, "the absence / default pass iterates every declared field", ok,
                      construct="per-field pass over a partial domain",
                      message=f"{f.qualname}: the loop that reports AbsenceError and applies defaults iterates `{txt}`, "
                              f"not self.fields",
                      necessity="fields left out of the iteration are neither reported as absent nor given their "
                                "default, and only in this strategy", node=it)
        run.floor("R06g", f"absence passes in {f.name}", n_loops, 1)


def r06h(run):
    """the alias tables the data-first strategy reads are rebuilt from the current fields only"""
    f = run.repo.func("utype.parser.base", "BaseParser.generate_aliases")
    fa = analysis(f)
    published = {}
    for n in fa.cfg.nodes:
        if n.kind == "stmt" and isinstance(n.ast, ast.Assign) and isinstance(n.ast.targets[0], ast.Attribute) \
                and unparse(n.ast.targets[0].value) == "self" and n.ast.targets[0].attr in (
                    "field_alias_map", "attr_alias_map", "case_insensitive_names") and isinstance(n.ast.value, ast.Name):
            published[n.ast.targets[0].attr] = (n, n.ast.value.id)
    TABLES = ("field_alias_map", "attr_alias_map", "case_insensitive_names")
    merged = []
    for n in fa.cfg.nodes:
        if n.kind != "stmt":
            continue
        for c in fa.calls_at(n):
            if isinstance(c.func, ast.Attribute) and c.func.attr in ("update", "add", "setdefault", "__setitem__") \
                    and isinstance(c.func.value, ast.Attribute) and unparse(c.func.value.value) == "self" \
                    and c.func.value.attr in TABLES:
                merged.append((n, c.func.value.attr, unparse(c)[:60]))
        tg = n.ast.targets[0] if isinstance(n.ast, ast.Assign) else n.ast.target if isinstance(n.ast, ast.AugAssign) else None
        base = tg.value if isinstance(tg, ast.Subscript) else tg if isinstance(n.ast, ast.AugAssign) else None
        if isinstance(base, ast.Attribute) and unparse(base.value) == "self" and base.attr in TABLES:
            merged.append((n, base.attr, norm_stmt(n.ast)[:60]))
    for n, attr, txt in merged:
        run.check("R06h", f, f"`self.{attr}` is replaced, not merged into", False,
                  construct=f"alias table {attr} merged into the existing one",
                  message=f"generate_aliases publishes into the existing table: `{txt}` keeps whatever self.{attr} held "
                          f"before (the tables of the base class parser this parser was copied from)",
                  necessity="aliases of a field the subclass re-declared survive in the table: the data-first strategy "
                            "still resolves them, the field-first strategy does not", node=n.ast)
    run.floor("R06h", "alias tables published by generate_aliases", len(published) + len({a for _, a, _ in merged}), 3)
    for attr, (n, local) in sorted(published.items()):
        inits = [d for d in fa.cfg.nodes if d.kind == "stmt" and isinstance(d.ast, ast.Assign)
                 and unparse(d.ast.targets[0]) == local]
        fresh = bool(inits) and all(
            isinstance(d.ast.value, (ast.Dict, ast.Set)) and not (d.ast.value.keys if isinstance(d.ast.value, ast.Dict) else d.ast.value.elts)
            or isinstance(d.ast.value, ast.Call) and unparse(d.ast.value.func) in ("dict", "set") and not d.ast.value.args
            and not d.ast.value.keywords for d in inits)
        run.check("R06h", f, f"`self.{attr}` is rebuilt from an empty table", fresh,
                  construct=f"alias table {attr} seeded from earlier state",
                  message=f"generate_aliases initialises `{local}` (published as self.{attr}) from "
                          f"{[unparse(d.ast.value)[:40] for d in inits]} instead of an empty table",
                  necessity="aliases a subclass dropped when re-declaring a field survive in the table: the data-first "
                            "strategy (which resolves keys through it) still accepts them, the field-first strategy "
                            "(which walks each field's own aliases) does not", node=n.ast)


def r06i(run, A: FuncInfo, B: FuncInfo):
    emit_table(run, "R06i", A, B)


def r06j(run, A: FuncInfo, B: FuncInfo):
    """which of several spellings of one field wins must not depend on the strategy:
    (i) the per-key strategy never overwrites a field that already took a value from an earlier key (the per-field
        strategy takes the first spelling in the field's alias order and stops);
    (ii) the case-folding pre-pass of the per-field strategy does not silently overwrite a key that folds onto an
        existing one (the per-key strategy sees both and reports the conflict)"""
    # (i) decided on the decision table of the two strategies
    emit_table(run, "R06j", A, B)
    for f in (A, B):
        fa = analysis(f)
        # (ii) case-folding pre-pass
        for n in fa.cfg.nodes:
            if n.kind == "stmt" and isinstance(n.ast, ast.Assign) and isinstance(n.ast.targets[0], ast.Subscript) \
                    and isinstance(n.ast.targets[0].value, ast.Name) and ".lower()" in unparse(n.ast.targets[0].slice):
                tgt = n.ast.targets[0].value.id
                guarded = any(isinstance(a, ast.Compare) and isinstance(a.ops[0], (ast.In, ast.NotIn))
                              and unparse(a.comparators[0]) == tgt for a, p in fa.facts.atoms_at(n))
                checked = any(isinstance(x, ast.Compare) and isinstance(x.ops[0], (ast.In, ast.NotIn))
                              and unparse(x.comparators[0]) == tgt
                              for m in fa.cfg.nodes if m.kind == "test" and fa.cfg.can_reach(m, n, kinds=(N,))
                              for x in ast.walk(m.ast))
                run.check("R06j", f, f"folding a key onto `{tgt}` detects a key that is already there", guarded or checked,
                          construct="case folding overwrites a colliding key",
                          message=f"{f.qualname}: `{norm_stmt(n.ast)}` folds case-insensitive keys without testing whether the "
                                  f"folded key is already present: the later spelling silently replaces the earlier one",
                          necessity="a case-insensitive field given {'A': 1, 'a': 2}: AliasConflictError data-first, "
                                    "{'a': 2} field-first", node=n.ast)


NORMALISERS = ("lower", "casefold", "upper")


def r06k(run, A: FuncInfo, B: FuncInfo):
    emit_table(run, "R06k", A, B)


def r06e(run):
    sites = [("utype.parser.field", "ParserField.setup"), ("utype.parser.base", "BaseParser._get_field_from"),
             ("utype.parser.base", "BaseParser.get_attname"), ("utype.parser.base", "BaseParser.field_first_parse"),
             ("utype.parser.base", "BaseParser.generate_aliases"), ("utype.parser.cls", "ClassParser.generate_fields"),
             ("utype.parser.func", "FunctionParser.generate_fields")]
    used = {}
    for mod, q in sites:
        f = run.repo.func(mod, q)
        for sub in walk_shallow(f.node):
            if isinstance(sub, ast.Call) and isinstance(sub.func, ast.Attribute) and sub.func.attr in NORMALISERS \
                    and not sub.args:
                used.setdefault(sub.func.attr, []).append(f)
    run.floor("R06e", "case-normalisation calls in the alias machinery", sum(len(v) for v in used.values()), 6)
    ok = len(used) == 1
    run.check("R06e", "utype.parser.base:BaseParser", "declared aliases and input keys are case-normalised the same way",
              ok, construct="case normalisers differ",
              message="the alias machinery mixes case normalisers: " + ", ".join(
                  f"{k}() in {sorted({x.qualname for x in v})}" for k, v in used.items()),
              necessity="for names where the normalisers differ ('ß', final sigma) the declared alias and the looked-up "
                        "key no longer meet: one strategy finds the field, the other reports it absent")


def check(run):
    run.rules_run += ["R06a", "R06b", "R06c", "R06d", "R06e", "R06f", "R06g", "R06h", "R06i", "R06j", "R06k"]
    run.explain("C06: the two lookup strategies are discovered as the callees of the strategy conditional in "
                "parse_data. (R06a) for each action (raise AbsenceError / AliasConflictError / DependenciesAbsenceError, "
                "parse a field, store parsed, store default for a missing / a no-input field, store an extra key, collect "
                "dependencies) the guard vector - admissible value classes {None, False, other-falsy, truthy} of every "
                "Options attribute tested on the way, string-policy literals, polarity of the field predicates, closed "
                "under the summaries of is_required / is_no_input / parse_addition read from their own source - must be "
                "identical in both siblings; (R06b) the alias-conflict comparison compares two raw inputs; (R06c) the "
                "selector is exclusive, passes identical arguments and returns the result unchanged.")
    pd, A, B = siblings(run)
    run.rule(r06a, run, A, B)
    run.rule(r06b, run, [A, B])
    run.rule(r06c, run, pd, A, B)
    run.rule(r06d, run, A, B)
    run.rule(r06f, run, A, B)
    run.rule(r06g, run, A, B)
    run.rule(r06h, run)
    run.rule(r06i, run, A, B)
    run.rule(r06j, run, A, B)
    run.rule(r06k, run, A, B)
    run.rule(r06e, run)
