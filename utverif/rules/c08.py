"""C08 - decorated functions get Python's binding with conforming arguments and result (wrapper discipline only).

R08a wrapper sibling agreement   R08b (= R04e) body gating   R08c channel conversion   R08d no dropped protocol results
"""
import ast
from typing import Dict, List, Set, Tuple

from ..cfg import analysis, FuncAnalysis, Node, N, E, stmt_call, branch_has, branch_atoms
from ..lib import prov, is_convert_call, convert_value_arg, convert_type_arg
from ..model import AnalysisError, FuncInfo, call_attr, kwarg, unparse, walk_shallow, norm_stmt, names_in
from . import c04

WRAPPER_ENTRIES = [
    # (function creating the per-call context, function holding resolve/get_params/body)
    ("FunctionParser.wrap.f", "FunctionParser.sync_call"),
    ("FunctionParser.get_sync_generator.eager_generator", "FunctionParser.get_sync_generator.eager_generator"),
    ("FunctionParser.get_async_generator.eager_generator", "FunctionParser.get_async_generator.eager_generator"),
    ("FunctionParser.get_async_call.eager_call", "FunctionParser.get_async_call.eager_call"),
]


def r08a(run):
    sigs = {}
    for ctx_q, body_q in WRAPPER_ENTRIES:
        cf = run.repo.func("utype.parser.func", ctx_q)
        bf = run.repo.func("utype.parser.func", body_q)
        ca, ba = analysis(cf), analysis(bf)
        mk = [(n, c) for n, c in ca.all_calls() if call_attr(c) == "make_context"]
        run.check("R08a", cf, "a fresh context is created inside the per-call wrapper", bool(mk),
                  construct="no per-call context", message=f"{ctx_q} does not create its RuntimeContext per call",
                  necessity="a context shared between calls carries collected errors and depth from one call to the next")
        rf = [n for n, c in ba.all_calls() if call_attr(c) == "resolve_forward_refs"]
        gp = [(n, c) for n, c in ba.all_calls() if call_attr(c) == "get_params"]
        run.check("R08a", bf, "forward references are resolved before the parameters are parsed",
                  bool(rf) and bool(gp) and all(ba.cfg.dominates(rf[0], n) for n, c in gp),
                  construct="get_params not dominated by resolve_forward_refs",
                  message=f"{body_q}: resolve_forward_refs() does not dominate get_params()",
                  necessity="the first call with still unresolved annotations parses against ForwardRef objects")
        ctxname = "context"
        if gp:
            c = gp[0][1]
            ctxv = kwarg(c, "context")
            if isinstance(ctxv, ast.Name):
                ctxname = ctxv.id       # the per-call context, under whatever local name
            sigs[body_q] = ([unparse(a) for a in c.args], sorted(
                (k.arg, "<per-call context>" if k.arg == "context" and isinstance(k.value, ast.Name) else unparse(k.value))
                for k in c.keywords))
            ok = ctxv is not None and isinstance(ctxv, ast.Name)
            if ok and cf is bf:
                ok = all(d in [n for n, _ in mk] for d in ba.rd.defs_of(gp[0][0], ctxv.id))
            run.check("R08a", bf, "get_params receives the per-call context", ok, construct="get_params context",
                      message=f"{body_q}: get_params is not called with the context created for this call")
        # result parsing iff parse_result
        res = [(n, c) for n, c in ba.all_calls() if call_attr(c) in ("parse_result", "sync_from_generator",
                                                                    "async_from_generator", "get_async_result")]
        run.check("R08a", bf, "the result channel is parsed when parse_result is set", bool(res) and all(
            any(unparse(a) == "parse_result" and p for a, p in ba.facts.atoms_at(n)) for n, c in res),
            construct="result parsing not tied to parse_result",
            message=f"{body_q}: result parsing is missing or not guarded by exactly the parse_result flag",
            necessity="results are returned unconverted although a return annotation is declared (or converted when disabled)")
        for n, c in res:
            ctx_ok = any(isinstance(a, ast.Name) and a.id == ctxname for a in c.args) or (
                kwarg(c, "context") is not None and unparse(kwarg(c, "context")) == ctxname)
            run.check("R08a", bf, f"`{call_attr(c)}` uses the same per-call context", ctx_ok,
                      construct="result parsed in another context", message=f"{body_q}: `{unparse(c)[:60]}` is not "
                      f"given the call's context", node=c)
    vals = list(sigs.values())
    run.check("R08a", "utype.parser.func:FunctionParser", "all wrapper kinds call get_params with the same arguments",
              len(vals) == len(WRAPPER_ENTRIES) and all(v == vals[0] for v in vals),
              construct="wrappers disagree on get_params arguments",
              message="the wrapper kinds pass different arguments to get_params: " + "; ".join(
                  f"{k.split('.')[-1]}{v}" for k, v in sigs.items()),
              necessity="e.g. first_reserve / parse_params honoured by the sync wrapper only: methods bind differently "
                        "per wrapper kind")
    # wrap() dispatches each function kind to its wrapper
    w = run.repo.func("utype.parser.func", "FunctionParser.wrap")
    wa = analysis(w)
    table = {"get_async_generator": "self.is_async_generator", "get_async_call": "self.is_coroutine",
             "get_sync_generator": "self.is_generator"}
    for n, c in wa.all_calls():
        if call_attr(c) in table:
            ok = any(unparse(a) == table[call_attr(c)] and p for a, p in wa.facts.atoms_at(n))
            run.check("R08a", w, f"{call_attr(c)} is chosen exactly for `{table[call_attr(c)]}`", ok,
                      construct=f"wrap dispatch of {call_attr(c)}", message=f"wrap(): {call_attr(c)} is not selected "
                      f"under `{table[call_attr(c)]}`", necessity="a generator would be wrapped as a plain call", node=c)
            kws = {k.arg: unparse(k.value) for k in c.keywords}
            exp = {"options": "options", "first_reserve": "first_reserve", "parse_params": "parse_params",
                   "parse_result": "parse_result", "eager": "eager_parse"}
            run.check("R08a", w, f"{call_attr(c)} receives every wrap() setting", kws == exp,
                      construct=f"wrap arguments of {call_attr(c)}", message=f"wrap(): {call_attr(c)} receives {kws}", node=c)


def raw_reaches_only_through(fa: FuncAnalysis, d: Node, use: Node, var: str, waiver_branches: List[Node]) -> bool:
    kills = [m for m in fa.cfg.nodes if m is not d and var in fa.rd.gen.get(m, [])]
    reach = fa.cfg.reach_from_succ(d, kinds=(N,), avoid=kills + waiver_branches)
    return use not in reach


def r08c(run):
    for q in ("FunctionParser.sync_from_generator", "FunctionParser.async_from_generator"):
        f = run.repo.func("utype.parser.func", q)
        fa = analysis(f)
        convs = [(n, c) for n, c in fa.all_calls() if is_convert_call(fa, n, c)]
        by_type = {}
        for n, c in convs:
            t = unparse(convert_type_arg(c))
            by_type[t] = (n, c)
        for need in ("self.generator_yield_type", "self.generator_send_type"):
            run.check("R08c", f, f"{q.split('.')[-1]} converts with `{need}`", need in by_type,
                      construct=f"no conversion with {need}", message=f"{q}: nothing is converted with {need}",
                      necessity="values crossing that channel are not converted to their declared type")
        # yields
        yields = []
        for n in fa.cfg.nodes:
            if n.kind == "stmt":
                for sub in walk_shallow(n.ast):
                    if isinstance(sub, ast.Yield):
                        yields.append((n, sub))
        run.floor("R08c", f"yield points in {q.split('.')[-1]}", len(yields), 1)
        for n, y in yields:
            v = y.value
            if not isinstance(v, ast.Name):
                run.check("R08c", f, "the wrapper yields the (converted) item variable", False, construct="yield expr",
                          message=f"{q}: `{unparse(y)}` does not yield a plain variable", node=y)
                continue
            yt = by_type.get("self.generator_yield_type")
            waiv = [b for b in fa.cfg.nodes if b.kind == "branch" and not b.is_for
                    and branch_has(b, "self.generator_yield_type", False)]
            ok = yt is not None
            if ok:
                for d in fa.rd.defs_of(n, v.id):
                    if d is yt[0]:
                        continue
                    if d is fa.cfg.entry:
                        ok = False
                        continue
                    if not raw_reaches_only_through(fa, d, n, v.id, waiv):
                        ok = False
                # the conversion's subject is the item itself and is assigned back
                c = yt[1]
                ok = ok and isinstance(yt[0].ast, ast.Assign) and unparse(yt[0].ast.targets[0]) == v.id \
                    and unparse(convert_value_arg(c)) == v.id
            run.check("R08c", f, f"with a yield type, `yield {v.id}` yields the converted item", ok,
                      construct="unconverted item yielded", message=f"{q}: the raw item of the wrapped generator can "
                      f"reach `yield {v.id}` although a yield type is declared",
                      necessity="the caller receives items that do not conform to Generator[Yield, ...]", node=y)
        # sends: the value sent into the inner generator
        sends = [(n, c) for n, c in fa.all_calls() if call_attr(c) in ("send", "asend")]
        run.floor("R08c", f"send points in {q.split('.')[-1]}", len(sends), 1)
        st = by_type.get("self.generator_send_type")
        for n, c in sends:
            a = c.args[0] if c.args else None
            ok = isinstance(a, ast.Name) and st is not None
            if ok:
                waiv = [b for b in fa.cfg.nodes if b.kind == "branch" and not b.is_for
                        and branch_has(b, "self.generator_send_type", False)]
                # a None (= nothing sent) needs no conversion and is never passed to send(): the send is guarded by
                # the same `is not None` test
                waiv += [b for b in fa.cfg.nodes if b.kind == "branch" and not b.is_for and (
                    branch_has(b, f"{a.id} is not None", False) or branch_has(b, f"{a.id} is None", True))]
                guarded = any(unparse(x) == f"{a.id} is not None" and p_ for x, p_ in fa.facts.atoms_at(n))
                if not guarded:
                    waiv = [b for b in waiv if "None" not in unparse(b.test)]
                for d in fa.rd.defs_of(n, a.id):
                    if d is st[0] or d is fa.cfg.entry:
                        continue
                    if d.kind == "stmt" and isinstance(d.ast, ast.Assign) and isinstance(d.ast.value, ast.Constant):
                        continue     # sent = None
                    if not raw_reaches_only_through(fa, d, n, a.id, waiv):
                        ok = False
                ok = ok and isinstance(st[0].ast, ast.Assign) and unparse(st[0].ast.targets[0]) == a.id \
                    and unparse(convert_value_arg(st[1])) == a.id
            run.check("R08c", f, f"with a send type, the inner generator receives the converted `{unparse(a) if a else '?'}`", ok,
                      construct="unconverted value sent", message=f"{q}: the raw sent value can reach `{unparse(c)}` "
                      f"although a send type is declared", necessity="the wrapped generator receives values that do not "
                      "conform to Generator[..., Send, ...]", node=c)
    # sync return value
    f = run.repo.func("utype.parser.func", "FunctionParser.sync_from_generator")
    fa = analysis(f)
    rt = [(n, c) for n, c in fa.all_calls() if is_convert_call(fa, n, c)
          and unparse(convert_type_arg(c)) == "self.generator_return_type"]
    ok = bool(rt)
    if ok and isinstance(rt[0][0].ast, ast.Return) and rt[0][0].ast.value is rt[0][1]:
        # `return <conversion of the StopIteration value>`: the conversion result is what is returned
        n, c = rt[0]
        var = unparse(convert_value_arg(c))
        for m in fa.cfg.nodes:
            if m.kind == "stmt" and isinstance(m.ast, ast.Return) and m.ast.value is not None and m is not n \
                    and unparse(m.ast.value) == var and fa.cfg.is_live(m):
                fs = {(unparse(a), p) for a, p in fa.facts.atoms_at(m)}
                if not any("generator_return_type" in t for t, p in fs):
                    ok = False
    elif ok:
        n, c = rt[0]
        ok = isinstance(n.ast, ast.Assign) and unparse(n.ast.targets[0]) == unparse(convert_value_arg(c))
        var = unparse(n.ast.targets[0]) if ok else None
        rets = [m for m in fa.cfg.nodes if m.kind == "stmt" and isinstance(m.ast, ast.Return)
                and fa.cfg.can_reach(n, m)]
        ok = ok and bool(rets) and all(unparse(m.ast.value) == var for m in rets)
        # raw return only when there is no return type / result is None
        for m in fa.cfg.nodes:
            if m.kind == "stmt" and isinstance(m.ast, ast.Return) and m.ast.value is not None \
                    and unparse(m.ast.value) == var and not fa.cfg.can_reach(n, m):
                fs = {(unparse(a), p) for a, p in fa.facts.atoms_at(m)}
                # `result is None or not self.generator_return_type` true
                if not any("generator_return_type" in t for t, p in fs):
                    ok = False
    run.check("R08c", f, "the generator's return value is converted with the declared return type", ok,
              construct="generator return unconverted", message="sync_from_generator does not return the converted "
              "StopIteration value", necessity="Generator[..., ..., Return] is not enforced on the return channel")


def r08d(run):
    total = 0
    for q in ("FunctionParser.sync_from_generator", "FunctionParser.async_from_generator",
              "FunctionParser.get_sync_generator.sync_generator", "FunctionParser.get_async_generator.async_generator"):
        f = run.repo.func("utype.parser.func", q)
        fa = analysis(f)
        for n, c in fa.all_calls():
            if call_attr(c) not in ("send", "asend", "__next__", "__anext__", "next", "anext"):
                continue
            total += 1
            used = not (n.kind == "stmt" and isinstance(n.ast, ast.Expr))
            if used and isinstance(n.ast, ast.Assign):
                tgt = n.ast.targets[0]
                # the bound name must be read later (yielded)
                if isinstance(tgt, ast.Name):
                    used = any(tgt.id in {x.id for e in fa.node_exprs(m) for x in walk_shallow(e)
                                          if isinstance(x, ast.Name) and isinstance(x.ctx, ast.Load)}
                               for m in fa.cfg.reach_from_succ(n, kinds=(N,)) if m.kind in ("stmt", "test"))
            run.check("R08d", f, f"the item returned by `{unparse(c)[:40]}` is used (it is the wrapped generator's next item)",
                      used, construct=f"result of {call_attr(c)} discarded",
                      message=f"{q}: `{norm_stmt(n.ast)[:70]}` discards the value returned by {call_attr(c)}(): that value "
                              f"is the next item of the wrapped generator",
                      necessity="driving the decorated generator with send() skips items: the sequence of yielded values "
                                "differs from the undecorated function's", node=c)
    run.floor("R08d", "generator protocol calls in the wrappers", total, 4)


def r08e(run):
    """keyword binding (defaults, required, aliases) happens on every call: parse_data dominates the normal return"""
    f = run.repo.func("utype.parser.func", "FunctionParser.parse_params")
    fa = analysis(f)
    pd = [n for n, c in fa.all_calls() if call_attr(c) == "parse_data"]
    rets = [n for n in fa.cfg.nodes if n.kind == "stmt" and isinstance(n.ast, ast.Return) and fa.cfg.is_live(n)]
    run.floor("R08e", "returns of parse_params", len(rets), 1)
    for r in rets:
        ok = any(fa.cfg.dominates(p, r) for p in pd)
        run.check("R08e", f, f"`{norm_stmt(r.ast)[:50]}` is dominated by the keyword pass (parse_data)", ok,
                  construct="return of parse_params without the keyword pass",
                  message="parse_params can return without running parse_data for the keyword / omitted parameters",
                  necessity="parse_data is the only place that fills Param(...) defaults and reports missing required "
                            "parameters: f(a, *rest, k=Param(3)) called as f(1, 2) hands the body k=<Param object>",
                  node=r.ast)
    for p in pd:
        extra = [b for b in fa.facts.branch_facts(p)]
        run.check("R08e", f, "the keyword pass is unconditional", not extra, construct="conditional keyword pass",
                  message="parse_params runs parse_data only under " + ", ".join(f"{unparse(b.test)}={b.polarity}" for b in extra),
                  necessity="a count-based shortcut skips defaults and required checks for omitted keyword-only parameters",
                  node=p.ast)


def r08f(run):
    """the type declared on **kwargs decides the conversion of extra keyword arguments, whatever the user options say"""
    f = run.repo.func("utype.parser.func", "FunctionParser.__init__")
    fa = analysis(f)
    gens = [(n, c) for n, c in fa.all_calls() if call_attr(c) == "generate_from"]
    run.floor("R08f", "option merges in FunctionParser.__init__", len(gens), 1)
    P = prov(fa)
    for n, c in gens:
        # flatten the merged sequence: positional args, or the list a *starred name was built from
        seq = []
        for a in c.args:
            if isinstance(a, ast.Starred) and isinstance(a.value, ast.Name):
                lst = a.value.id
                for d in fa.cfg.nodes:
                    if d.kind == "stmt" and isinstance(d.ast, ast.Assign) and unparse(d.ast.targets[0]) == lst \
                            and isinstance(d.ast.value, (ast.List, ast.Tuple)):
                        seq += list(d.ast.value.elts)
                    for cc in fa.calls_at(d) if d.kind == "stmt" else []:
                        if call_attr(cc) == "append" and unparse(cc.func.value) == lst and cc.args:
                            seq.append(cc.args[0])
            else:
                seq.append(a)
        def declared(e):
            return isinstance(e, ast.Call) and any(k.arg == "addition" for k in e.keywords)
        def user(e):
            return isinstance(e, ast.Name) and e.id == "options"
        idx_decl = [i for i, e in enumerate(seq) if declared(e)]
        idx_user = [i for i, e in enumerate(seq) if user(e)]
        ok = bool(idx_decl) and bool(idx_user) and min(idx_decl) > max(idx_user)
        run.check("R08f", f, "the options derived from the **kwargs annotation are merged after the user's options", ok,
                  construct="**kwargs annotation merged before the user options",
                  message=f"FunctionParser.__init__: `{unparse(c)[:80]}` merges {[unparse(e)[:40] for e in seq]}; later "
                          f"options win key by key, so a user-supplied `addition` overrides the type declared on **kwargs",
                  necessity="with Options(addition=True) and **extra: int the body receives {'k': '4'} unconverted and "
                            "k='zz' is accepted", node=c)


def check(run):
    run.rules_run += ["R08a", "R08b(R04e)", "R08c", "R08d", "R08e", "R08f", "R10e", "R06i"]
    run.explain("C08 (wrapper discipline; the binding arithmetic itself is not decidable statically): (R08a) every wrapper "
                "kind creates a per-call context, resolves forward references before get_params, calls get_params with "
                "identical arguments, parses the result channel exactly under parse_result, and wrap() dispatches each "
                "function kind with all settings; (R08b = R04e) the wrapped function is called only with get_params' "
                "result and parse_params flushes before returning; (R08c) with declared yield/send/return types the raw "
                "item / sent value / return value cannot reach the yield / send / return (reaching definitions avoiding "
                "the 'no type declared' branch); (R08d) the value returned by send()/asend() is used.")
    run.rule(r08a, run)
    run.rule(c04.r04e, run, rule="R08b")
    run.rule(r08c, run)
    run.rule(r08d, run)
    run.rule(r08e, run)
    run.rule(r08f, run)
    from . import c06
    _pd, _A, _B = c06.siblings(run)
    run.rule(c06.r06i, run, _A, _B)
    # a keyword that names a parameter already given by position: same fate whatever the lookup strategy
    run.rules_run.append("R06k")
    run.rule(c06.r06k, run, _A, _B)
    # a dependency supplied by position counts as provided (round 8: the `excluded dependency` rows of the strategy table)
    run.rules_run.append("R06a")
    run.rule(c06.r06a, run, _A, _B)
    from . import c10
    run.rule(c10.r10e, run, [g for g in run.repo.module('utype.parser.func').functions.values()], rule="R10e", floor=6)
