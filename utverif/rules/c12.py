"""C12 - conversion preferences only restrict, and keep their promises (gate coverage only).

R12a every converter consults (directly or through the helpers / converters it delegates to) the flags it has to
R12b Options.__init__: under no_data_loss an addition policy that was not given becomes False (the guard must hold
     for the parameter's *default* value) and the tuple-surplus / data-class-from-list gates read the flag
R12c each enumerated lossy operation is gated by no_data_loss (raise before it, or a strict variant under it)
R12d the union's retry stages only raise flags (never lower what the caller set); = the flag part of R18d

Undecided (the core): the subset relation between flag settings and value preservation as relations over inputs.
"""
import ast
from typing import Dict, List, Optional, Set, Tuple

from ..cfg import analysis, decompose, N, E
from ..lib import prov
from ..model import AnalysisError, FuncInfo, call_attr, dotted, kwarg, unparse, walk_shallow, norm_stmt, names_in
from .c13 import _facts
from . import c18

TR = "utype.utils.transform"
FLAGS = ("no_explicit_cast", "no_data_loss")

# converter -> flags it must consult.  Derived from the statement (cross-group conversions need no_explicit_cast; the
# enumerated lossy conversions need no_data_loss) and confirmed against the pinned converters.
REQUIRED = {
    "to_null": {"no_explicit_cast"},
    "to_str": {"no_explicit_cast", "no_data_loss"},          # strict bytes decoding, collection collapse
    "to_bytes": {"no_explicit_cast", "no_data_loss"},        # collection collapse
    "to_array_types": {"no_explicit_cast", "no_data_loss"},  # dict -> set
    "to_dict": {"no_explicit_cast", "no_data_loss"},
    "to_float": {"no_explicit_cast", "no_data_loss"},
    "to_integer": {"no_explicit_cast", "no_data_loss"},      # fractional part
    "to_decimal": {"no_explicit_cast", "no_data_loss"},
    "to_complex": {"no_explicit_cast", "no_data_loss"},
    "to_bool": {"no_explicit_cast", "no_data_loss"},         # ambiguous booleans
    "to_date": {"no_explicit_cast", "no_data_loss"},         # datetime / timed string -> date
    "to_datetime": {"no_explicit_cast", "no_data_loss"},
    "to_timedelta": {"no_explicit_cast", "no_data_loss"},
    "to_time": {"no_explicit_cast", "no_data_loss"},         # datetime -> time
    "to_uuid": {"no_explicit_cast", "no_data_loss"},
    "to_enum": {"no_explicit_cast", "no_data_loss"},
    "to_filelike": {"no_explicit_cast"},
    "to_iter_types": {"no_explicit_cast", "no_data_loss"},
    "to_mapping": {"no_explicit_cast", "no_data_loss"},
}


def flag_reads(f: FuncInfo) -> Set[str]:
    out = set()
    for sub in walk_shallow(f.node):
        if isinstance(sub, ast.Attribute) and sub.attr in FLAGS:
            base = unparse(sub.value)
            if base == "self" or base.endswith("options"):
                out.add(sub.attr)
    return out


def consulted(run, f: FuncInfo, T, memo: Dict[str, Set[str]], depth=0) -> Set[str]:
    if f.ref in memo:
        return memo[f.ref]
    memo[f.ref] = set()
    out = set(flag_reads(f))
    if depth < 4:
        for c in walk_shallow(f.node):
            if isinstance(c, ast.Call) and isinstance(c.func, ast.Attribute) and unparse(c.func.value) == "self" \
                    and c.func.attr in T.methods:
                out |= consulted(run, T.methods[c.func.attr], T, memo, depth + 1)
    memo[f.ref] = out
    return out


def r12a(run):
    T = run.repo.cls(TR, "TypeTransformer")
    memo: Dict[str, Set[str]] = {}
    n = 0
    for name, need in sorted(REQUIRED.items()):
        f = T.methods.get(name)
        if f is None:
            raise AnalysisError(f"converter TypeTransformer.{name} not found")
        n += 1
        got = consulted(run, f, T, memo)
        run.check("R12a", f, f"{name} consults {sorted(need)}", need <= got,
                  construct=f"{name} never reads {sorted(need - got)}",
                  message=f"TypeTransformer.{name} (with the helpers and converters it delegates to) never reads "
                          f"{sorted(need - got)}",
                  necessity="a converter that does not read the flag converts identically with and without it: a "
                            "cross-group (or lossy) conversion succeeds under the flag that forbids it")
    run.floor("R12a", "converters with a flag obligation", n, 15)
    # every registered converter of the transformer is in the table (a new converter must be classified)
    regs = [m for m in T.methods.values() if any("registry.register" in unparse(d) for d in m.node.decorator_list)]
    unknown = [m.name for m in regs if m.name not in REQUIRED and m.name not in ("to_type", "to_callable")]
    if unknown:
        raise AnalysisError(f"R12a: registered converters without an entry in the flag table: {unknown}")
    # the two flags are initialised from the options unless given explicitly
    init = T.methods["__init__"]
    txt = unparse(init.node)
    ok = "context.options.no_explicit_cast" in txt and "context.options.no_data_loss" in txt
    run.check("R12a", init, "the transformer takes both flags from the context's options", ok,
              construct="transformer flags not taken from options",
              message="TypeTransformer.__init__ no longer initialises no_explicit_cast / no_data_loss from context.options",
              necessity="the declared preferences never reach the converters")


def _holds_for_default(atom, pol: bool, param: str, default) -> Optional[bool]:
    """truth of `atom == pol` when `param` has its default value (`unprovided` sentinel or a constant)"""
    t = unparse(atom)
    is_unprov = isinstance(default, ast.Name) and default.id == "unprovided"
    dval = default.value if isinstance(default, ast.Constant) else None
    if t == f"{param} is None":
        v = (not is_unprov) and dval is None and isinstance(default, ast.Constant)
    elif t == f"{param} is not None":
        v = not ((not is_unprov) and dval is None and isinstance(default, ast.Constant))
    elif t == f"unprovided({param})":
        v = is_unprov
    elif t == param:
        v = False if is_unprov else bool(dval)     # the sentinel is falsy
    elif isinstance(atom, ast.BoolOp):
        vals = [_holds_for_default(x, True, param, default) for x in atom.values]
        if any(x is None for x in vals):
            return None
        v = any(vals) if isinstance(atom.op, ast.Or) else all(vals)
    else:
        return None
    return v == pol


def r12b(run):
    f = run.repo.func("utype.parser.options", "Options.__init__")
    fa = analysis(f)
    d = f.param_default("addition")
    sets = [n for n in fa.cfg.nodes if n.kind == "stmt" and isinstance(n.ast, ast.Assign)
            and unparse(n.ast.targets[0]) == "addition" and isinstance(n.ast.value, ast.Constant)
            and n.ast.value.value is False]
    run.check("R12b", f, "no_data_loss turns an unspecified addition policy into False", bool(sets),
              construct="no_data_loss does not imply addition=False",
              message="Options.__init__ never sets addition = False",
              necessity="Options(no_data_loss=True) silently drops unknown keys - a loss of input data")
    for n in sets:
        atoms = fa.facts.atoms_at(n)
        ndl = any(unparse(a) == "no_data_loss" and p for a, p in atoms)
        run.check("R12b", f, "the implied policy is applied exactly under no_data_loss", ndl, construct="addition=False guard",
                  message=f"`addition = False` is not guarded by `no_data_loss`", node=n.ast)
        on_add = [(a, p) for a, p in atoms if "addition" in names_in(a) and "no_data_loss" not in unparse(a)]
        res = [_holds_for_default(a, p, "addition", d) for a, p in on_add]
        if any(r is None for r in res):
            raise AnalysisError(f"R12b: cannot evaluate the guard {[unparse(a) for a, p in on_add]} for the default")
        ok = all(res)
        run.check("R12b", f, f"the guard holds when `addition` is not given (default `{unparse(d)}`)", ok,
                  construct="addition guard misses the parameter default",
                  message=f"`addition = False` runs only when {[('' if p else 'not ') + unparse(a) for a, p in on_add]}, "
                          f"which is false for the parameter's default `{unparse(d)}`: the branch is dead unless "
                          f"addition=None is passed explicitly",
                  necessity="Options(no_data_loss=True) keeps the default policy: S(a=1, b=2) returns S(a=1) instead of "
                            "rejecting the unknown key", node=n.ast)
    # stored
    st = unparse(f.node)
    run.check("R12b", f, "the adjusted policy is what gets stored", "locals().items()" in st or "self.addition" in st,
              construct="addition not stored", message="Options.__init__ no longer stores its (adjusted) arguments")
    # tuple surplus gate
    g = run.repo.func("utype.parser.rule", "Rule._parse_tuple_args")
    ga = analysis(g)
    # the reject (TupleExceedError) runs whenever no_data_loss is set: among the must-facts of the reject, the flag occurs
    # positively (alone or in a disjunction, e.g. with `addition is False`) and no fact asks for it to be off or for any
    # other option
    from ..lib import clauses_at
    ok = False
    rejects = [n for n in ga.cfg.nodes if n.kind == "stmt" and n.ast is not None and ga.cfg.is_live(n)
               and any(isinstance(x, ast.Call) and (call_attr(x) or "").endswith("TupleExceedError") for x in ast.walk(n.ast))]
    for n in rejects:
        cls_ = clauses_at(ga, n)
        pos = [c for c in cls_ if any(t.endswith("no_data_loss") and p for t, p in c)]
        neg = [c for c in cls_ if any(t.endswith("no_data_loss") and not p for t, p in c)]
        other = [c for c in cls_ if c not in pos and any("options." in t and "addition" not in t for t, p in c)]
        if pos and not neg and not other:
            ok = True
    run.check("R12b", g, "surplus tuple items are rejected under no_data_loss (or addition=False)", ok,
              construct="tuple surplus gate", message="_parse_tuple_args no longer rejects surplus items when "
              "options.no_data_loss is set", necessity="extra tuple items are dropped silently under no_data_loss")


def _raise_guard_before(fa, n, flag: str) -> bool:
    """on every path to n the test `<flag> [and ...]` was taken on its false side, or a raise sits on its true side:
    i.e. n carries the fact `not (flag and X)` or `not flag`"""
    for a, p in fa.facts.atoms_at(n):
        t = unparse(a)
        if flag in t and not p:
            return True
        if isinstance(a, ast.BoolOp) and isinstance(a.op, ast.And) and not p and any(flag in unparse(v) for v in a.values):
            return True
    return False


def r12c(run):
    T = run.repo.cls(TR, "TypeTransformer")
    total = 0

    def gate(f, n, what, need, flag="no_data_loss"):
        nonlocal total
        total += 1
        ok = _raise_guard_before(analysis(f), n, flag)
        run.check("R12c", f, f"{what} is unreachable under {flag}", ok, construct=f"ungated lossy step: {what}",
                  message=f"{f.qualname}: `{norm_stmt(n.stmt if n.stmt is not None else n.ast)[:70]}` ({what}) can run "
                          f"with {flag} set: no test of the flag separates it",
                  necessity=need, node=n.ast)

    # 1. collection collapse in _attempt_from
    f = T.methods["_attempt_from"]
    fa = analysis(f)
    for n in fa.cfg.nodes:
        if n.kind == "stmt" and isinstance(n.ast, ast.Return) and isinstance(n.ast.value, ast.Subscript) \
                and "list(value)" in unparse(n.ast.value):
            total += 1
            # preceded by: if no_data_loss and len(value) > 1: raise
            # the clause {not no_data_loss, not len(value) > 1} holds (written `not (ndl and len > 1)` or
            # `not ndl or len <= 1`), or a unit clause that implies it
            from ..lib import clauses_at
            ok = any(all(not pol and ("no_data_loss" in t or t == "len(value) > 1") for t, pol in cl)
                     for cl in clauses_at(fa, n))
            run.check("R12c", f, "a multi-element collection never collapses to its first element under no_data_loss", ok,
                      construct="ungated lossy step: collection collapse",
                      message=f"_attempt_from: `{norm_stmt(n.ast)}` is not preceded by the `no_data_loss and len(value) > 1` "
                              f"rejection", necessity="['a', 'b'] converts to 'a' under no_data_loss", node=n.ast)
    # 2. strict decoding
    f = T.methods["_from_byte_like"]
    dec = [c for c in walk_shallow(f.node) if isinstance(c, ast.Call) and call_attr(c) == "decode"]
    for c in dec:
        total += 1
        e = kwarg(c, "errors")
        test_txt = ""
        if isinstance(e, ast.IfExp):
            test_txt = unparse(e.test)
            fa_ = analysis(f)
            for nm in names_in(e.test):
                if nm in fa_.rd.locals:
                    for n_ in fa_.cfg.nodes:
                        if n_.kind == "stmt" and isinstance(n_.ast, ast.Assign) and unparse(n_.ast.targets[0]) == nm:
                            test_txt += " " + unparse(n_.ast.value)
        ok = isinstance(e, ast.IfExp) and "no_data_loss" in test_txt and isinstance(e.body, ast.Constant) \
            and e.body.value == "strict"
        run.check("R12c", f, "bytes decode strictly under no_data_loss", ok, construct="ungated lossy step: lenient decode",
                  message=f"_from_byte_like: `{unparse(c)}` does not select errors='strict' under no_data_loss",
                  necessity="undecodable bytes are silently dropped under no_data_loss", node=c)
    # 3. datetime -> date, timed text -> date
    f = T.methods["to_date"]
    fa = analysis(f)
    for n in fa.cfg.nodes:
        if n.kind == "stmt" and isinstance(n.ast, ast.Return) and isinstance(n.ast.value, ast.Call) \
                and call_attr(n.ast.value) == "date" and isinstance(n.ast.value.func, ast.Attribute):
            recv = unparse(n.ast.value.func.value)
            if recv == f.params[1]:
                gate(f, n, "datetime -> date truncation", "a datetime becomes a date under no_data_loss")
            else:
                total += 1
                # the raise under no_data_loss must compare the full time part with midnight
                tests = [m for m in fa.cfg.nodes if m.kind == "test" and recv in names_in(m.ast)
                         and any(unparse(a) == "self.no_data_loss" and p for a, p in fa.facts.atoms_at(m))
                         and fa.cfg.can_reach(m, n, kinds=(N,))]
                ok = False
                why = "no test of the parsed value's time part under no_data_loss"
                for m in tests:
                    t = m.ast
                    if isinstance(t, ast.Compare) and len(t.ops) == 1 and isinstance(t.ops[0], ast.NotEq):
                        l, r = unparse(t.left), unparse(t.comparators[0])
                        if f"{recv}.time()" in (l, r):
                            other = t.comparators[0] if l == f"{recv}.time()" else t.left
                            if isinstance(other, ast.Call) and call_attr(other) == "time" and all(
                                    isinstance(a, ast.Constant) and a.value == 0 for a in other.args) and not other.keywords:
                                ok = True
                            else:
                                why = f"the time part is compared with `{unparse(other)}`, not midnight"
                        else:
                            rep = [x for x in (t.left, t.comparators[0]) if isinstance(x, ast.Call) and call_attr(x) == "replace"]
                            if rep:
                                zeroed = {k.arg for k in rep[0].keywords if isinstance(k.value, ast.Constant) and k.value.value == 0}
                                miss = {"hour", "minute", "second", "microsecond"} - zeroed
                                ok = not miss
                                why = f"the comparison value does not zero {sorted(miss)}"
                    tb = [s for s, k in m.succ if s.kind == "branch" and s.polarity]
                    if ok and not (tb and any(x.kind == "stmt" and isinstance(x.ast, ast.Raise)
                                              for x in fa.cfg.reach_from_succ(tb[0], kinds=(N,)) | {tb[0]})):
                        ok = False
                        why = "the test does not raise"
                run.check("R12c", f, "a timed string / timestamp never becomes a date under no_data_loss", ok,
                          construct="ungated lossy step: time part dropped",
                          message=f"to_date: `{norm_stmt(n.ast)}`: {why}",
                          necessity="'2020-02-20 00:00:00.250000' is truncated to date(2020, 2, 20) under no_data_loss",
                          node=n.ast)
    # 4. datetime -> time
    f = T.methods["to_time"]
    fa = analysis(f)
    # by role: every return made for an input known to be a datetime / date (positive isinstance fact on the input) turns a
    # dated value into a time, however the time is built (data.time(), t(data.hour, ...), t())
    for n in fa.cfg.nodes:
        if n.kind == "stmt" and isinstance(n.ast, ast.Return) and n.ast.value is not None and fa.cfg.is_live(n) \
                and any(p and isinstance(a, ast.Call) and call_attr(a) == "isinstance" and len(a.args) == 2
                        and unparse(a.args[0]) == f.params[1] and unparse(a.args[1]) in ("datetime", "date")
                        for a, p in fa.facts.atoms_at(n)):
            gate(f, n, "date part dropped", "a datetime becomes a time under no_data_loss")
    # 5. bool(data) fallback; int truncation
    f = T.methods["to_bool"]
    fa = analysis(f)
    for n in fa.cfg.nodes:
        if n.kind == "stmt" and isinstance(n.ast, ast.Return) and unparse(n.ast.value) == f"bool({f.params[1]})":
            gate(f, n, "truthiness fallback", "an arbitrary value ('maybe', 2, [0]) becomes a bool under no_data_loss")
            total += 1
            ok = _raise_guard_before(fa, n, "no_explicit_cast")
            run.check("R12c", f, "the truthiness fallback is unreachable under no_explicit_cast", ok,
                      construct="ungated cross-group step: truthiness fallback",
                      message="to_bool: `return bool(data)` can run with no_explicit_cast set", node=n.ast)
    f = T.methods["to_integer"]
    fa = analysis(f)
    ctor = [n for n in fa.cfg.nodes if n.kind == "stmt" and isinstance(n.ast, ast.Return) and unparse(n.ast.value) == "t(data)"
            and fa.cfg.is_live(n)]
    for n in ctor:
        # on the path through Decimal(data): under no_data_loss a raise on a non-zero exponent dominates
        if not any("Decimal(" in unparse(d.ast) for d in fa.rd.defs_of(n, "data") if d.ast is not None and d.kind == "stmt"):
            continue
        total += 1
        tests = [m for m in fa.cfg.nodes if m.kind == "test" and "exponent" in unparse(m.ast)
                 and (any(unparse(a) == "self.no_data_loss" and p for a, p in fa.facts.atoms_at(m))
                      or any(unparse(a) == "self.no_data_loss" and p for a, p in decompose(m.ast, True)))]
        ok = bool(tests) and all(any(x.kind == "stmt" and isinstance(x.ast, ast.Raise)
                                     for s, k in m.succ if s.kind == "branch" and s.polarity
                                     for x in fa.cfg.reach_from_succ(s, kinds=(N,)) | {s}) for m in tests)
        ok = ok and not any(fa.cfg.can_reach(n, m) for m in tests)
        run.check("R12c", f, "a number with a fractional part never becomes an int under no_data_loss", ok,
                  construct="ungated lossy step: fraction dropped",
                  message="to_integer: the Decimal path returns t(data) without the exponent test under no_data_loss",
                  necessity="3.5 becomes 3 under no_data_loss", node=n.ast)
    # 6. data class from a list
    g = run.repo.func("utype.parser.cls", "transform_dataclass")
    ga = analysis(g)
    d = g.params[1]
    takes = [n for n in ga.cfg.nodes if n.kind == "stmt" and isinstance(n.ast, (ast.Assign, ast.Return)) and n.ast.value is not None
             and any(isinstance(s, ast.Subscript) and unparse(s.value) == d and isinstance(s.ctx, ast.Load)
                     for s in ast.walk(n.ast.value))]
    run.floor("R12c", "element extraction in transform_dataclass", len(takes), 1)
    for n in takes:
        total += 1
        from ..lib import clauses_at
        ok = any(all(not pol and ("no_data_loss" in t or t == f"len({d}) > 1") for t, pol in cl)
                 for cl in clauses_at(ga, n))
        run.check("R12c", g, "a multi-element list never collapses to one data-class instance under no_data_loss", ok,
                  construct="ungated lossy step: list collapse to data class",
                  message=f"transform_dataclass: `{norm_stmt(n.ast)}` can run for a list of several items with "
                          f"no_data_loss set", necessity="[alice, bob] converts to alice under no_data_loss", node=n.ast)
        ok2 = _raise_guard_before(ga, n, "no_explicit_cast") or any(
            "no_explicit_cast" in unparse(a) and not p for a, p in ga.facts.atoms_at(n))
        run.check("R12c", g, "a list is never unpacked into a data class under no_explicit_cast", ok2,
                  construct="ungated cross-group step: list to data class",
                  message=f"transform_dataclass: `{norm_stmt(n.ast)}` can run with no_explicit_cast set", node=n.ast)
    # the test must not read the element before the guard either (identity fast paths)
    for n in ga.cfg.nodes:
        if n.kind == "test" and any(isinstance(s, ast.Subscript) and unparse(s.value) == d for s in ast.walk(n.ast)):
            total += 1
            ok = any(isinstance(a, ast.BoolOp) and not p and "no_data_loss" in unparse(a) and f"len({d}) > 1" in unparse(a)
                     for a, p in ga.facts.atoms_at(n))
            run.check("R12c", g, "no element of the list is inspected before the multi-element rejection", ok,
                      construct="ungated lossy step: element fast path before the guard",
                      message=f"transform_dataclass: `{norm_stmt(n.stmt)}` looks at an element of the list before the "
                              f"`no_data_loss and len > 1` rejection",
                      necessity="[alice, bob] returns alice when the first element already is an instance", node=n.ast)
    run.floor("R12c", "lossy operations checked", total, 7)


def r12d(run):
    """the union's retry stages (stage table of logic_table.py): a fully strict first stage that runs exactly when the caller
    has not already set both flags; stages only raise flags; the first accepting attempt in stage order wins"""
    from . import logic_table as lt
    f, table, stages = c18.union_stages(run)
    run.floor("R12d", "union retry stages", len(stages), 2)
    full = [st for st in stages if st[2] == set(FLAGS)]
    run.check("R12d", f, "the union has a fully strict first stage", bool(full) and all(
        (not v) or (v[0] == full[0][0]) or all(k) for k, v in table.items()), construct="no strict union stage",
              message="no union stage enters its child contexts with both no_data_loss and no_explicit_cast (first)",
              necessity="union resolution relies on trying the arms strictly first: a lenient arm that converts with loss "
                        "wins over an arm that fits exactly")
    for sg, var, fl, lowered, extra, entered in full:
        bad = [f"{dict(zip(FLAGS, k))}: entered={v}" for k, v in sorted(entered.items()) if v != (not all(k))]
        run.check("R12d", f, "the strict stage runs exactly when the caller has not already set both flags", not bad,
                  construct="strict union stage guard",
                  message=f"the strict stage `{var}` is entered wrongly for {bad}",
                  necessity="with exactly one flag set the strict attempt is skipped: Union[int, float] given "
                            "Decimal('1.5') under no_explicit_cast returns 1 instead of 1.5 - the result under the flag "
                            "differs from the lenient result")
    for sg, var, fl, lowered, extra, entered in stages:
        run.check("R12d", f, f"union stage `{var}` only raises conversion flags", not lowered and not extra and bool(fl),
                  construct=f"stage [{'+'.join(sorted(fl))}] lowers or adds options",
                  message=f"the union stage options `{var}` set {lowered + extra} besides raising {sorted(fl)}",
                  necessity="merged into the child context this overrides the caller's flag: under "
                            "Options(no_explicit_cast=True) '123' converts to 123 for Optional[int] but not for int")
    w = lt.behaviour(run).get("|:order")
    run.check("R12d", f, "the first accepting attempt in stage order (strict, no-data-loss, common) gives the result", w is None,
              construct="union stage order",
              message=f"for [{w[0]}] the union returns the result of {w[1]}, expected {w[2]}" if w else "",
              necessity="a lenient arm that converts with loss wins over an arm that fits exactly")


def check(run):
    run.rules_run += ["R12a", "R12b", "R12c", "R12d", "R06i"]
    run.explain("Static gate coverage for the two conversion preferences: each converter (with the helpers and converters "
                "it delegates to) reads the flags its conversions depend on; Options.__init__ turns an addition policy "
                "that was not given into False under no_data_loss (guard evaluated for the parameter's default); each "
                "enumerated lossy operation is separated from no_data_loss by a raising test or a strict variant; the "
                "union's retry stages only raise flags.")
    run.rule(r12a, run)
    run.rule(r12b, run)
    run.rule(r12c, run)
    run.rule(r12d, run)
    from . import c06
    _pd, _A, _B = c06.siblings(run)
    run.rule(c06.r06i, run, _A, _B)
    from . import c10 as _c10
    run.rules_run.append("R12e")
    run.rule(_c10.option_defaults, run, "R12e", {'no_explicit_cast': 'False', 'no_data_loss': 'False'}, "the conversion preferences are off unless requested")
    # round 8: shared helpers decided as tables (helper_table.py)
    from . import helper_table as _ht
    run.rules_run.append("R12f")
    run.rule(_ht.r_multi, run)
