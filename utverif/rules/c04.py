"""C04 - invalid input raises ParseError and nothing else; parsing terminates; no body on failure.

R04a containment + conversion   R04b checked-then-used-anyway (contradiction)   R04c container protocol
R04d loop termination arguments R04e body gating (shared with C08)
"""
import ast
from typing import List, Optional, Set, Tuple

from ..cfg import (analysis, FuncAnalysis, Node, N, E, is_handle_error_call, is_forced, stmt_call,
                   handler_type_names, decompose)
from ..lib import (prov, is_convert_call, exception_family, exc_class_of_ctor, call_index, convert_value_arg,
                   handler_nodes, try_of_handler)
from ..model import (AnalysisError, FuncInfo, call_attr, call_name, dotted, kwarg, unparse, walk_shallow,
                     norm_stmt, names_in)

S_MODULES = ["utype.parser.rule", "utype.parser.field", "utype.parser.base", "utype.parser.func",
             "utype.parser.cls", "utype.schema"]

# functions whose own escape is a violation (public parse entries)
ENTRY_NAMES = {
    "utype.parser.rule:Rule.parse", "utype.parser.rule:LogicalType.logical_parse",
    "utype.parser.rule:LogicalType.__call__", "utype.parser.rule:transform_rule",
    "utype.parser.base:BaseParser.__call__", "utype.parser.cls:init_dataclass",
    "utype.parser.cls:transform_dataclass", "utype.parser.func:FunctionParser.sync_call",
    "utype.parser.func:FunctionParser.parse_result", "utype.parser.func:FunctionParser.sync_from_generator",
    "utype.parser.func:FunctionParser.async_from_generator", "utype.parser.func:FunctionParser.get_async_result",
    "utype.parser.func:FunctionParser.parse_params", "utype.parser.func:FunctionParser.get_params",
}

# explicit exemptions, one reason each
EXEMPT_FUNCS = {
    "utype.parser.func:call": "free helper `call(func, args, data)`: not the decorated wrapper, no property entry "
                              "(DESIGN.md C04/R04a)",
}

# server-side callables: their exceptions are the developer's, documented in base.py/field.py
SERVER_CALLABLE_NAMES = {"func", "setter", "deleter", "getter", "post_init", "post_setattr", "post_delattr",
                         "default_factory", "f", "fn", "init_func", "class_getitem", "g"}

CLASS_HELD_CALLS = {"__origin__", "__args_parser__"}


def in_scope_functions(run) -> List[FuncInfo]:
    out = []
    for m in S_MODULES:
        mod = run.repo.module(m)
        out.extend(mod.functions.values())
    return out


def foreign_sites(run, funcs) -> List[Tuple[FuncInfo, FuncAnalysis, Node, ast.Call, str]]:
    sites = []
    for f in funcs:
        fa = analysis(f)
        for n, c in fa.all_calls():
            kind = None
            if is_convert_call(fa, n, c):
                kind = "convert"
            elif isinstance(c.func, ast.Attribute) and c.func.attr in CLASS_HELD_CALLS \
                    and isinstance(c.func.value, ast.Name) and c.func.value.id in ("cls", "self"):
                kind = "class-held " + c.func.attr
            elif isinstance(c.func, ast.Name) and c.func.id not in SERVER_CALLABLE_NAMES:
                os_ = prov(fa).of_name(n, c.func.id)
                if os_ and all(o.kind in ("iter", "iter-unpack") for o in os_):
                    if any("__validators__" in o.text for o in os_):
                        kind = "validator"
            if kind:
                sites.append((f, fa, n, c, kind))
    return sites


def local_containment(fa: FuncAnalysis, n: Node):
    """-> (contained, [handlers reached]) : contained iff an exception raised at n cannot leave the function
    directly (every exceptional successor is a handler and one of them is catch-all)"""
    exc_succ = [s for s, k in n.succ if k == E]
    escapes = fa.cfg.raise_exit in exc_succ
    handlers = [s.handler for s in exc_succ if s.kind == "handler"]
    return (not escapes and bool(handlers)), handlers


def callers_of(run, f: FuncInfo, indirect: dict) -> List[Tuple[FuncInfo, ast.Call]]:
    ci = call_index(run.repo)
    names = [f.name] + [k for k, v in indirect.items() if f.name in v]
    res = []
    for nm in names:
        for caller, call in ci.sites_of(nm):
            if caller.module.name not in S_MODULES:
                continue
            if nm == f.name:
                cands = ci.resolve(caller, call)
                if cands and f not in cands:
                    continue
            res.append((caller, call))
    return res


def node_of_call(fa: FuncAnalysis, call: ast.Call) -> Optional[Node]:
    for n, c in fa.all_calls():
        if c is call:
            return n
    return None


def contained_interproc(run, f: FuncInfo, indirect, depth=0, seen=None) -> Tuple[bool, List[str]]:
    """every call site of f inside S is (transitively) contained and f is not itself an entry"""
    seen = seen or set()
    if f.ref in seen or depth > 5:
        return True, []
    seen = seen | {f.ref}
    if f.ref in ENTRY_NAMES:
        return False, [f"{f.ref} is a parse entry: nothing above it can contain the exception"]
    cs = callers_of(run, f, indirect)
    if not cs:
        return False, [f"{f.ref} has no caller inside the parse core that contains the exception"]
    for caller, call in cs:
        if caller.ref in EXEMPT_FUNCS:
            continue
        cfa = analysis(caller)
        cn = node_of_call(cfa, call)
        if cn is None:
            continue
        ok, _ = local_containment(cfa, cn)
        if ok:
            continue
        ok2, why = contained_interproc(run, caller, indirect, depth + 1, seen)
        if not ok2:
            return False, [f"called from {caller.ref} ({caller.loc(call)}) outside any catch-all try"] + why
    return True, []


def indirect_table(run) -> dict:
    """`cls.__args_parser__` dispatches to the return values of Rule.resolve_args_parser (read from source)"""
    f = run.repo.func("utype.parser.rule", "Rule.resolve_args_parser")
    names = set()
    for sub in walk_shallow(f.node):
        if isinstance(sub, ast.Return) and isinstance(sub.value, ast.Attribute):
            names.add(sub.value.attr)
    if not names:
        raise AnalysisError("R04: Rule.resolve_args_parser returns no element parser")
    return {"__args_parser__": names}


# ---- family evaluation of an error expression ----------------------------------------------------------

def is_family_expr(fa: FuncAnalysis, n: Node, e, fam: Set[str], depth=0) -> bool:
    if depth > 6 or e is None:
        return False
    if isinstance(e, ast.Call):
        c = exc_class_of_ctor(e)
        return c in fam
    if isinstance(e, ast.IfExp):
        # `e if isinstance(e, FamilyClass) else Family(...)`
        t = e.test
        guarded = None
        pol = True
        if isinstance(t, ast.UnaryOp) and isinstance(t.op, ast.Not):
            t = t.operand
            pol = False
        if isinstance(t, ast.Call) and call_attr(t) == "isinstance" and len(t.args) == 2 \
                and isinstance(t.args[0], ast.Name):
            cls_names = [unparse(x).split(".")[-1] for x in
                         (t.args[1].elts if isinstance(t.args[1], ast.Tuple) else [t.args[1]])]
            if all(c in fam for c in cls_names):
                guarded = t.args[0].id
        body_ok = is_family_expr(fa, n, e.body, fam, depth + 1) or (
            guarded and pol and isinstance(e.body, ast.Name) and e.body.id == guarded)
        else_ok = is_family_expr(fa, n, e.orelse, fam, depth + 1) or (
            guarded and not pol and isinstance(e.orelse, ast.Name) and e.orelse.id == guarded)
        return bool(body_ok and else_ok)
    if isinstance(e, ast.Name):
        defs = fa.rd.defs_of(n, e.id)
        if not defs:
            return False
        for d in defs:
            if d is fa.cfg.entry:
                return False
            a = d.ast
            if d.kind == "handler":
                # the caught exception itself: family only if the handler catches only family classes ...
                if not all(t.split(".")[-1] in fam for t in handler_type_names(a)):
                    # ... or, on every path on which this binding is still the value, an isinstance test against
                    # family classes has succeeded (`if not isinstance(e, ParseError): e = ParseError(..)`)
                    if not _family_by_test(fa, n, e.id, fam, d):
                        return False
                continue
            if d.kind == "stmt" and isinstance(a, ast.Assign) and len(a.targets) == 1 \
                    and isinstance(a.targets[0], ast.Name):
                if not is_family_expr(fa, d, a.value, fam, depth + 1):
                    return False
                continue
            return False
        return True
    return False


def _family_by_test(fa: FuncAnalysis, n: Node, name: str, fam, d: Optional[Node] = None) -> bool:
    """every path reaching n [on which the binding made at d is still the value of `name`] has passed an
    `isinstance(name, <family classes>)` test that held"""
    pf = fa.paths_for(("isinstance(" + name, name + ":="))
    ds = pf.disjuncts_at(n)
    if not ds:
        return False
    considered = 0
    for dj in ds:
        if d is not None and dj.get(f"{name}:={d.id}") is not True:
            continue            # another binding is the value on these paths (judged on its own)
        considered += 1
        ok = False
        for t, pol in dj.items():
            a = pf.atom_ast.get(t)
            if pol and isinstance(a, ast.Call) and call_attr(a) == "isinstance" and len(a.args) == 2 \
                    and isinstance(a.args[0], ast.Name) and a.args[0].id == name:
                names = [unparse(x).split(".")[-1] for x in
                         (a.args[1].elts if isinstance(a.args[1], ast.Tuple) else [a.args[1]])]
                if names and all(c in fam for c in names):
                    ok = True
        if not ok:
            return False
    return considered > 0


# ---- R04a ------------------------------------------------------------------------------------------

def r04a(run):
    fam = exception_family(run.repo)
    indirect = indirect_table(run)
    funcs = [f for f in in_scope_functions(run) if f.ref not in EXEMPT_FUNCS]
    sites = foreign_sites(run, funcs)
    run.floor("R04a", "foreign call sites in the parse core", len(sites), 20)
    handlers_seen = {}
    for f, fa, n, c, kind in sites:
        text = " ".join(unparse(c).split())
        ok, handlers = local_containment(fa, n)
        why = []
        if not ok:
            ok, why = contained_interproc(run, f, indirect)
        narrow = ""
        if not ok and handlers:
            narrow = " (the enclosing handler catches only " + ", ".join(
                "/".join(handler_type_names(h)) for h in handlers) + ")"
        run.check("R04a", f, f"{kind} call `{text[:90]}` is contained by a catch-all handler", ok,
                  construct=f"uncontained {kind}: {text[:100]}",
                  message=f"{kind} call `{text[:100]}` can raise an arbitrary exception that no handler converts"
                          f"{narrow}",
                  necessity="a converter/validator/constructor may raise TypeError, AttributeError, IndexError, "
                            "InvalidOperation...; uncontained it escapes T(x) as a non-ParseError",
                  node=c, detail="; ".join(why))
        for h in handlers:
            handlers_seen[id(h)] = (f, fa, h)
    # handlers must convert
    nh = 0
    for f, fa, h in handlers_seen.values():
        hn = handler_nodes(fa, h)
        for node in hn:
            if node.kind != "stmt":
                continue
            st = node.ast
            c = stmt_call(st)
            if c is not None and is_handle_error_call(c) and c.args:
                nh += 1
                ok = is_family_expr(fa, node, c.args[0], fam)
                run.check("R04a", f, f"handler hands a ParseError-family error to handle_error: "
                                     f"`{norm_stmt(st)[:80]}`", ok,
                          construct=f"handle_error with non-ParseError: {norm_stmt(st)[:100]}",
                          message=f"`{norm_stmt(st)}` passes an exception that is not constructed from the "
                                  f"ParseError family (the raw caught exception is re-raised in fail-fast mode)",
                          necessity="handle_error raises its argument unchanged; a raw TypeError/AttributeError "
                                    "from a converter then escapes the parse", node=st)
            elif isinstance(st, ast.Raise):
                nh += 1
                if st.exc is None:
                    ok = all(t.split(".")[-1] in fam for t in handler_type_names(h)) or (
                        bool(h.name) and _family_by_test(fa, node, h.name, fam))
                else:
                    ok = is_family_expr(fa, node, st.exc, fam)
                run.check("R04a", f, f"handler re-raises a ParseError-family error: `{norm_stmt(st)[:80]}`", ok,
                          construct=f"raise of non-ParseError in handler: {norm_stmt(st)[:100]}",
                          message=f"`{norm_stmt(st)}` in a conversion handler raises an exception outside the "
                                  f"ParseError family",
                          necessity="the exception leaves the parse entry as is", node=st)
    run.floor("R04a", "error hand-offs in conversion handlers", nh, 15)


# ---- R04b : checked-then-used-anyway ---------------------------------------------------------------------

def _index_checks(test) -> List[Tuple[str, str]]:
    """(index_name, container_text) for tests of the form `i >= len(X)` / `len(X) <= i` (true = out of range)"""
    out = []
    for atom, pol in decompose(test, True):
        if not pol or not isinstance(atom, ast.Compare) or len(atom.ops) != 1:
            continue
        l, op, r = atom.left, atom.ops[0], atom.comparators[0]

        def lenof(x):
            if isinstance(x, ast.Call) and call_attr(x) == "len" and len(x.args) == 1:
                return unparse(x.args[0])
            return None
        if isinstance(op, (ast.GtE, ast.Gt)) and isinstance(l, ast.Name) and lenof(r):
            out.append((l.id, lenof(r)))
        if isinstance(op, (ast.LtE, ast.Lt)) and isinstance(r, ast.Name) and lenof(l):
            out.append((r.id, lenof(l)))
    return out


def r04b(run, funcs=None):
    funcs = funcs or in_scope_functions(run)
    checks = 0
    for f in funcs:
        fa = analysis(f)
        for n in fa.cfg.nodes:
            if n.kind != "test" or not isinstance(n.stmt, ast.If):
                continue
            pairs = _index_checks(n.ast)
            if not pairs:
                continue
            tb = [s for s, k in n.succ if k == N and s.kind == "branch" and s.polarity is True]
            if not tb:
                continue
            tb = tb[0]
            for idx, cont in pairs:
                checks += 1
                # nodes reachable from the "out of range" branch without rebinding idx / passing the test again
                region = fa.cfg.reach_from_succ(tb, avoid=[n])
                bad = None
                for m in region:
                    if m.kind not in ("stmt", "test", "iter", "with"):
                        continue
                    # rebinding of idx on the way would be a different index: require the same reaching defs
                    for e in fa.node_exprs(m):
                        for sub in walk_shallow(e):
                            if isinstance(sub, ast.Subscript) and unparse(sub.value) == cont \
                                    and isinstance(sub.slice, ast.Name) and sub.slice.id == idx:
                                if set(fa.rd.defs_of(m, idx)) == set(fa.rd.defs_of(n, idx)):
                                    bad = (m, sub)
                    if bad:
                        break
                run.check("R04b", f, f"after the out-of-range check `{unparse(n.ast)}` falls through, "
                                     f"`{cont}[{idx}]` is not evaluated", bad is None,
                          construct=f"checked-then-used: {cont}[{idx}] after `{unparse(n.ast)}`",
                          message=f"`{cont}[{idx}]` is evaluated on a path on which `{unparse(n.ast)}` was true "
                                  f"(the check's body can fall through: handle_error returns when errors are "
                                  f"collected)" + (f" at {f.loc(bad[1])}" if bad else ""),
                          necessity="with collect_errors=True a too-short input raises IndexError (not a "
                                    "ParseError) instead of the collected AbsenceError",
                          node=bad[1] if bad else n.ast)
    return checks


# ---- R04c : container protocol -----------------------------------------------------------------------------

K_PROTO = {
    # type name -> supported operations
    "list": {"iter", "len", "index", "slice"},
    "tuple": {"iter", "len", "index", "slice"},
    "deque": {"iter", "len", "index"},
    "set": {"iter", "len"},
    "frozenset": {"iter", "len"},
    "Iterator": {"iter"},
    "dict": {"iter", "len", "key", "items"},
    "Mapping": {"iter", "len", "key", "items"},
}


def _tuple_const(run, module, name) -> List[str]:
    m = run.repo.module(module)
    v = m.assigns.get(name)
    if not isinstance(v, ast.Tuple):
        raise AnalysisError(f"R04c: {module}.{name} is not a tuple literal")
    return [unparse(e).split(".")[-1] for e in v.elts]


def dispatch_types(run) -> dict:
    """element parser name -> container types it is dispatched for, read from resolve_args_parser"""
    seq = _tuple_const(run, "utype.parser.rule", "SEQ_TYPES")
    mp = _tuple_const(run, "utype.parser.rule", "MAP_TYPES")
    f = run.repo.func("utype.parser.rule", "Rule.resolve_args_parser")
    fa = analysis(f)
    table = {}
    for n in fa.cfg.nodes:
        if n.kind == "stmt" and isinstance(n.ast, ast.Return) and isinstance(n.ast.value, ast.Attribute):
            name = n.ast.value.attr
            atoms = fa.facts.atoms_at(n)
            types: Optional[Set[str]] = None
            for a, pol in atoms:
                if isinstance(a, ast.Call) and call_attr(a) == "issubclass" and len(a.args) == 2:
                    tn = unparse(a.args[1])
                    fam = set(seq) if tn == "SEQ_TYPES" else set(mp) if tn == "MAP_TYPES" else {tn.split(".")[-1]}
                    if pol:
                        types = fam if types is None else (types & fam if (types & fam) else fam)
                    # a negative fact about `tuple` (variable-length tuples still reach the seq parser through
                    # __ellipsis_args__) does not remove the type
            if types is None:
                types = set()
            table.setdefault(name, set()).update(types)
    return table


def r04c(run):
    table = dispatch_types(run)
    run.floor("R04c", "element parsers discovered from resolve_args_parser", len(table), 3)
    for pname, types in sorted(table.items()):
        f = run.repo.func("utype.parser.rule", f"Rule.{pname}")
        fa = analysis(f)
        params = f.params
        if len(params) < 2:
            raise AnalysisError(f"R04c: {f.ref} has no container parameter")
        v = params[1]
        ops = []   # (op, ast)
        for n in fa.cfg.nodes:
            for e in fa.node_exprs(n):
                for sub in walk_shallow(e):
                    if isinstance(sub, ast.Subscript) and isinstance(sub.value, ast.Name) and sub.value.id == v \
                            and fa.rd.is_param_only(n, v):
                        ops.append(("slice" if isinstance(sub.slice, ast.Slice) else "index", sub))
                    elif isinstance(sub, ast.Call) and call_attr(sub) == "len" and sub.args \
                            and isinstance(sub.args[0], ast.Name) and sub.args[0].id == v \
                            and fa.rd.is_param_only(n, v):
                        ops.append(("len", sub))
                    elif isinstance(sub, ast.Call) and isinstance(sub.func, ast.Attribute) \
                            and sub.func.attr == "items" and isinstance(sub.func.value, ast.Name) \
                            and sub.func.value.id == v:
                        ops.append(("items", sub))
        for t in sorted(types):
            sup = K_PROTO.get(t)
            if sup is None:
                continue
            bad = [(op, a) for op, a in ops if op not in sup]
            run.check("R04c", f, f"every operation applied to `{v}` is supported by container type {t} "
                                 f"({len(ops)} operations)", not bad,
                      construct=f"{t} does not support " + ", ".join(sorted({f'{op} `{unparse(a)}`' for op, a in bad})),
                      message=f"{pname} is dispatched for {t} values but applies "
                              + ", ".join(sorted({f'{op} `{unparse(a)}` ({f.loc(a)})' for op, a in bad}))
                              + f", which {t} does not support",
                      necessity=f"a {t} input reaching that operation raises a bare TypeError instead of "
                                f"being parsed / reported / excluded",
                      node=bad[0][1] if bad else None)


# ---- R04d : termination ------------------------------------------------------------------------------------

FINITE_CALLS_POS = {"isfinite", "is_finite"}
FINITE_CALLS_NEG = {"isinf", "is_infinite", "isnan", "is_nan"}


def _loop_body_nodes(fa, st) -> List[Node]:
    ids = {id(x) for s in st.body for x in walk_shallow(s)}
    return [n for n in fa.cfg.nodes if (n.stmt is not None and id(n.stmt) in ids) or (n.ast is not None and id(n.ast) in ids)]


def classify_while(fa: FuncAnalysis, st: ast.While):
    """-> (argument or None, explanation)"""
    test = st.test
    body = st.body
    const_true = isinstance(test, ast.Constant) and bool(test.value)
    # (i) generator driven
    if const_true:
        for s in body:
            if isinstance(s, ast.Try):
                drives = any(isinstance(x, ast.Call) and call_attr(x) in ("next", "send", "asend", "__next__", "__anext__", "anext")
                             for b in s.body for x in walk_shallow(b))
                stops = [h for h in s.handlers if any(t.split(".")[-1] in ("StopIteration", "StopAsyncIteration")
                                                       for t in handler_type_names(h))]
                if drives and stops:
                    hfa_ok = True
                    for h in stops:
                        # every path through the handler leaves the loop (return/raise/break)
                        hn = fa.cfg.handler_nodes[id(h)]
                        testnode = fa.cfg.node_of(st)
                        if testnode in fa.cfg.reach_from_succ(hn, kinds=(N,)):
                            hfa_ok = False
                    if hfa_ok:
                        return "generator-driven", "advances a generator each iteration; StopIteration leaves the loop"
        # (iii) visited-set walk: `if x in seen: break` + `seen.append/add(x)`
        brk = None
        for s in walk_shallow(ast.Module(body=body, type_ignores=[])):
            if isinstance(s, ast.If) and isinstance(s.test, ast.Compare) and len(s.test.ops) == 1 \
                    and isinstance(s.test.ops[0], ast.In) and any(isinstance(b, ast.Break) for b in s.body):
                brk = (unparse(s.test.left), unparse(s.test.comparators[0]))
        if brk:
            for s in walk_shallow(ast.Module(body=body, type_ignores=[])):
                if isinstance(s, ast.Call) and call_attr(s) in ("append", "add") and \
                        isinstance(s.func, ast.Attribute) and unparse(s.func.value) == brk[1] \
                        and s.args and unparse(s.args[0]) == brk[0]:
                    return "visited-set", f"`{brk[0]}` is recorded in `{brk[1]}` and a repeat breaks the loop"
        return None, "`while True` without a recognised exit discipline"
    # (ii) fresh-name search  `while name in C:` with name rebuilt from an increasing counter
    if isinstance(test, ast.Compare) and len(test.ops) == 1 and isinstance(test.ops[0], ast.In) \
            and isinstance(test.left, ast.Name):
        nm = test.left.id
        cont = unparse(test.comparators[0])
        counters = [s.target.id for s in walk_shallow(ast.Module(body=body, type_ignores=[]))
                    if isinstance(s, ast.AugAssign) and isinstance(s.op, ast.Add) and isinstance(s.target, ast.Name)
                    and isinstance(s.value, ast.Constant) and isinstance(s.value.value, int) and s.value.value > 0]
        rebuilt = [s for s in walk_shallow(ast.Module(body=body, type_ignores=[]))
                   if isinstance(s, ast.Assign) and any(isinstance(t, ast.Name) and t.id == nm for t in s.targets)
                   and any(c in names_in(s.value) for c in counters)]
        mutated = [s for s in walk_shallow(ast.Module(body=body, type_ignores=[]))
                   if isinstance(s, ast.Call) and isinstance(s.func, ast.Attribute)
                   and unparse(s.func.value) == cont and s.func.attr in ("add", "append", "update", "extend", "insert")]
        if counters and rebuilt and not mutated:
            return "fresh-name", f"`{nm}` is rebuilt from a strictly increasing counter; `{cont}` is finite and not modified"
    # (ii') fresh-name search by growth: `while name in C [and ...]: name += "<non-empty literal>"`
    first = test.values[0] if isinstance(test, ast.BoolOp) and isinstance(test.op, ast.And) else test
    if isinstance(first, ast.Compare) and len(first.ops) == 1 and isinstance(first.ops[0], ast.In) \
            and isinstance(first.left, ast.Name):
        nm = first.left.id
        cont = unparse(first.comparators[0])
        grows = [s for s in body if isinstance(s, ast.AugAssign) and isinstance(s.target, ast.Name) and s.target.id == nm
                 and isinstance(s.op, ast.Add) and isinstance(s.value, ast.Constant) and isinstance(s.value.value, str)
                 and s.value.value]
        mutated = [s for s in walk_shallow(ast.Module(body=body, type_ignores=[]))
                   if isinstance(s, ast.Call) and isinstance(s.func, ast.Attribute)
                   and unparse(s.func.value) == cont and s.func.attr in ("add", "append", "update", "extend", "insert", "setdefault")]
        stores = [s for s in walk_shallow(ast.Module(body=body, type_ignores=[]))
                  if isinstance(s, ast.Assign) and any(isinstance(t, ast.Subscript) and unparse(t.value) == cont for t in s.targets)]
        if grows and len(grows) == len(body) and not mutated and not stores:
            return "fresh-name", f"`{nm}` grows by a non-empty literal each iteration; `{cont}` is finite and not modified in the loop"
    # (v) structural walk  `x = x.__origin__`
    walked = [s for s in body if isinstance(s, ast.Assign) and len(s.targets) == 1
              and isinstance(s.targets[0], ast.Name) and isinstance(s.value, ast.Attribute)
              and isinstance(s.value.value, ast.Name) and s.value.value.id == s.targets[0].id
              and s.value.attr.startswith("__")]
    if walked and walked[0].targets[0].id in names_in(test):
        return "structure-walk", f"follows `{unparse(walked[0].value)}` (class structure built at declaration time, acyclic)"
    # (vi) monotone counter  `while i < n: ... i += k`
    if isinstance(test, ast.Compare) and len(test.ops) == 1 and isinstance(test.ops[0], (ast.Lt, ast.LtE)) \
            and isinstance(test.left, ast.Name):
        ctr = test.left.id
        incs = [s for s in body if isinstance(s, ast.AugAssign) and isinstance(s.target, ast.Name)
                and s.target.id == ctr and isinstance(s.op, ast.Add) and isinstance(s.value, ast.Constant)
                and isinstance(s.value.value, (int, float)) and s.value.value > 0]
        bound_names = names_in(test.comparators[0])
        rebound = [s for s in walk_shallow(ast.Module(body=body, type_ignores=[]))
                   if isinstance(s, (ast.Assign, ast.AugAssign)) and any(
                       n in bound_names for t in (s.targets if isinstance(s, ast.Assign) else [s.target])
                       for n in names_in(t))]
        if incs and not rebound:
            return "monotone-counter", f"`{ctr}` increases by a positive constant towards a loop-invariant bound"
    # (iv) numeric shrink  `while abs(x) > K: x /= k`
    if isinstance(test, ast.Compare) and len(test.ops) == 1 and isinstance(test.ops[0], (ast.Gt, ast.GtE)):
        l = test.left
        var = None
        if isinstance(l, ast.Call) and call_attr(l) == "abs" and l.args and isinstance(l.args[0], ast.Name):
            var = l.args[0].id
        elif isinstance(l, ast.Name):
            var = l.id
        if var:
            shr = [s for s in body if isinstance(s, ast.AugAssign) and isinstance(s.target, ast.Name)
                   and s.target.id == var and isinstance(s.op, (ast.Div, ast.FloorDiv))
                   and isinstance(s.value, ast.Constant) and isinstance(s.value.value, (int, float))
                   and s.value.value > 1]
            if shr and len(body) == len(shr):
                return "numeric-shrink:" + var, f"`{var}` is divided by a constant > 1 until below the bound"
    return None, "no recognised termination argument"


def finiteness_guard(fa: FuncAnalysis, st: ast.While, var: str) -> bool:
    """a must-fact at the loop head that bounds `var`: isfinite(var) true / isinf(var) false / an upper bound
    `abs(var) < C`; or every reaching definition of var is an int() / len() construction"""
    n = fa.cfg.node_of(st)
    for a, pol in fa.facts.atoms_entering_loop(n):
        for sub in ast.walk(a):
            if isinstance(sub, ast.Call) and call_attr(sub) in FINITE_CALLS_POS | FINITE_CALLS_NEG:
                args = list(sub.args)
                recv = sub.func.value if isinstance(sub.func, ast.Attribute) else None
                mentions = any(isinstance(x, ast.Name) and x.id == var for x in args) or (
                    isinstance(recv, ast.Name) and recv.id == var)
                if mentions and sub is a:
                    if call_attr(sub) in FINITE_CALLS_POS and pol:
                        return True
                    if call_attr(sub) in ("isinf", "is_infinite") and not pol:
                        return True
        if isinstance(a, ast.Compare) and len(a.ops) == 1:
            l, op, r = a.left, a.ops[0], a.comparators[0]
            lt = unparse(l)
            is_var = lt in (var, f"abs({var})")
            if is_var and ((isinstance(op, (ast.Lt, ast.LtE)) and pol) or (isinstance(op, (ast.Gt, ast.GtE)) and not pol)):
                if var not in names_in(r):
                    return True
    # all definitions are integer constructions
    os_ = prov(fa).of_name(n, var)
    # ignore the loop's own shrink statement
    os_ = [o for o in os_ if o.kind != "aug"]
    if os_ and all(o.kind == "call" and o.text in ("int", "len", "round") for o in os_):
        return True
    return False


def r04d(run, modules):
    loops = 0
    for mname in modules:
        mod = run.repo.module(mname)
        for f in mod.functions.values():
            for st in walk_shallow(f.node):
                if not isinstance(st, ast.While):
                    continue
                fa = analysis(f)
                if not fa.cfg.is_live(fa.cfg.node_of(st)):
                    continue
                loops += 1
                arg, why = classify_while(fa, st)
                ok = arg is not None
                msg = f"`while {unparse(st.test)}` has {why}"
                if ok and arg.startswith("numeric-shrink:"):
                    var = arg.split(":", 1)[1]
                    ok = finiteness_guard(fa, st, var)
                    if not ok:
                        msg = (f"`while {unparse(st.test)}: {norm_stmt(st.body[0])}` shrinks `{var}` by division "
                               f"but no finiteness guard on `{var}` dominates the loop")
                run.check("R04d", f, f"loop `while {unparse(st.test)[:60]}` terminates: {arg or 'unrecognised'}", ok,
                          construct=f"while {unparse(st.test)[:80]}",
                          message=msg,
                          necessity="an infinite value (float('inf'), 'inf', '1e400', Decimal('Infinity')) never "
                                    "drops below the bound when divided, so the call never returns"
                          if arg and arg.startswith("numeric") else
                          "a loop without a termination argument can make a parse run forever",
                          node=st, detail=why)
    return loops


def r04d_recursion(run, modules):
    """a directly recursive call must not pass all of its own parameters unchanged"""
    ci = call_index(run.repo)
    n = 0
    for mname in modules:
        for f in run.repo.module(mname).functions.values():
            for sub in walk_shallow(f.node):
                if isinstance(sub, ast.Call) and call_attr(sub) == f.name:
                    cands = ci.resolve(f, sub)
                    if f not in cands:
                        continue
                    if isinstance(sub.func, ast.Attribute) and not (
                            isinstance(sub.func.value, ast.Name) and sub.func.value.id in ("self", "cls", "mcs")):
                        # a call on another object (arg.resolve_origins()) recurses on that object's structure
                        continue
                    n += 1
                    own = [p for p in f.params if p not in ("self", "cls", "mcs")]
                    passed = [unparse(a) for a in sub.args] + [unparse(k.value) for k in sub.keywords]
                    fa = analysis(f)
                    node = None
                    for nn, c in fa.all_calls():
                        if c is sub:
                            node = nn
                    unchanged = bool(own) and all(p in passed for p in own) and node is not None and all(
                        fa.rd.is_param_only(node, p) for p in own)
                    run.check("R04d", f, f"recursive call `{unparse(sub)[:70]}` changes an argument", not unchanged,
                              construct=f"self-recursion with unchanged arguments: {unparse(sub)[:80]}",
                              message=f"`{unparse(sub)}` calls {f.qualname} again with all parameters unchanged",
                              necessity="unbounded recursion", node=sub)
    return n


# ---- R04e : body gating --------------------------------------------------------------------------------------

WRAPPERS = [
    ("utype.parser.func", "FunctionParser.sync_call"),
    ("utype.parser.func", "FunctionParser.get_sync_generator.eager_generator"),
    ("utype.parser.func", "FunctionParser.get_async_generator.eager_generator"),
    ("utype.parser.func", "FunctionParser.get_async_call.eager_call"),
]


def is_wrapped_call(fa: FuncAnalysis, n: Node, c: ast.Call) -> bool:
    """call of the decorated function: `self.obj(...)` or an alias `func = self.obj; func(...)`"""
    f = c.func
    if isinstance(f, ast.Attribute) and f.attr == "obj" and isinstance(f.value, ast.Name) and f.value.id == "self":
        return True
    if isinstance(f, ast.Name):
        os_ = prov(fa).of_name(n, f.id)
        return bool(os_) and all(o.kind == "attr" and o.text == "self.obj" for o in os_)
    return False


def starred_arg_names(c: ast.Call) -> List[str]:
    out = []
    for a in c.args:
        if isinstance(a, ast.Starred) and isinstance(a.value, ast.Name):
            out.append(a.value.id)
    for k in c.keywords:
        if k.arg is None and isinstance(k.value, ast.Name):
            out.append(k.value.id)
    return out


def body_calls(run, f: FuncInfo, depth=0) -> List[Tuple[FuncInfo, FuncAnalysis, Node, ast.Call]]:
    """calls of the wrapped function in f, or in the helper f delegates to with the parsed arguments"""
    fa = analysis(f)
    out = [(f, fa, n, c) for n, c in fa.all_calls() if is_wrapped_call(fa, n, c)]
    return out


def r04e(run, rule="R04e"):
    cnt = 0
    for mod, q in WRAPPERS:
        f = run.repo.func(mod, q)
        fa = analysis(f)
        gp = [(n, c) for n, c in fa.all_calls() if call_attr(c) == "get_params"]
        run.check(rule, f, "wrapper obtains the arguments from get_params", len(gp) >= 1,
                  construct="no get_params call", message=f"{q} never calls get_params: arguments reach the "
                  "body unparsed", necessity="the body runs with unconverted / unvalidated arguments")
        if not gp:
            continue
        gpn = gp[0][0]
        bodies = [(n, c) for n, c in fa.all_calls() if is_wrapped_call(fa, n, c)]
        # delegation: eager_call -> self.get_async_result(args, kwargs, ...) which calls self.obj(*args, **kwargs)
        deleg = [(n, c) for n, c in fa.all_calls() if call_attr(c) == "get_async_result"]
        for n, c in deleg:
            g = run.repo.func("utype.parser.func", "FunctionParser.get_async_result")
            ga = analysis(g)
            inner = [(n2, c2) for n2, c2 in ga.all_calls() if is_wrapped_call(ga, n2, c2)]
            run.check(rule, g, "get_async_result calls the wrapped function with its own args/kwargs parameters",
                      bool(inner) and all(set(starred_arg_names(c2)) == {"args", "kwargs"} and
                                          all(ga.rd.is_param_only(n2, v) for v in ("args", "kwargs"))
                                          for n2, c2 in inner),
                      construct="get_async_result argument flow", message="get_async_result does not pass its "
                      "args/kwargs parameters unchanged to the wrapped function")
            bodies.append((n, c))
        run.floor(rule, f"calls of the wrapped function in {q}", len(bodies), 1)
        for n, c in bodies:
            cnt += 1
            dom = fa.cfg.dominates(gpn, n)
            names = starred_arg_names(c) if is_wrapped_call(fa, n, c) else [unparse(a) for a in c.args[:2]]
            flows = bool(names) and all(
                all(d is gpn for d in fa.rd.defs_of(n, v)) for v in names)
            run.check(rule, f, f"the wrapped function call `{unparse(c)[:60]}` is dominated by get_params and "
                               f"receives its result", dom and flows,
                      construct=f"body call not gated by get_params: {unparse(c)[:80]}",
                      message=f"`{unparse(c)}` in {q} " + ("is not dominated by the get_params call"
                                                          if not dom else
                                                          f"receives {names} that are not (only) the result of get_params"),
                      necessity="the function body is entered although parameter parsing failed, or runs with the "
                                "caller's raw arguments", node=c)
    # parse_params: every normal return is dominated by context.raise_error()
    f = run.repo.func("utype.parser.func", "FunctionParser.parse_params")
    fa = analysis(f)
    flush = [n for n, c in fa.all_calls() if call_attr(c) == "raise_error"]
    rets = [n for n in fa.cfg.nodes if n.kind == "stmt" and isinstance(n.ast, ast.Return) and fa.cfg.is_live(n)]
    for r in rets:
        cnt += 1
        ok = any(fa.cfg.dominates(fl, r) for fl in flush)
        run.check(rule, f, f"`{norm_stmt(r.ast)[:60]}` is dominated by context.raise_error()", ok,
                  construct="parse_params returns without raise_error",
                  message="parse_params can return parsed arguments without flushing collected errors",
                  necessity="with collect_errors=True the body would run although a parameter failed", node=r.ast)
    # get_params: the parse_params call is reached whenever parse_params is requested (guard only on that flag)
    g = run.repo.func("utype.parser.func", "FunctionParser.get_params")
    ga = analysis(g)
    pp = [(n, c) for n, c in ga.all_calls() if call_attr(c) == "parse_params"]
    run.check(rule, g, "get_params delegates to parse_params", bool(pp), construct="get_params without parse_params",
              message="get_params never calls parse_params")
    # must-pass: with the parse_params flag set, no path from the entry to a normal return avoids every parse_params call
    # (the arms in which the flag is false are cut; any other condition may split the function into several call sites)
    flag = "parse_params" if "parse_params" in g.params else None
    from ..cfg import branch_atoms
    off = [b for b in ga.cfg.nodes if b.kind == "branch" and not b.is_for and flag
           and any(t == flag and not p_ for t, p_ in branch_atoms(b))]
    reach = ga.cfg.reach_from_succ(ga.cfg.entry, kinds=(N,), avoid=[n for n, c in pp] + off)
    run.check(rule, g, "parse_params runs whenever the parse_params flag is set (on every path to a return)",
              bool(flag) and ga.cfg.exit not in reach,
              construct="a path of get_params skips parse_params although the flag is set",
              message="get_params can return without calling parse_params on a path where the parse_params flag is not false",
              necessity="for calls taking that path the arguments are not parsed at all")
    for n, c in pp:
        atoms = [(unparse(a), p) for a, p in ga.facts.atoms_at(n)]
        extra = []
        # result flows to the returned args/kwargs
    # generated __init__ of data classes: set_attributes dominated by the parser call
    h = run.repo.func("utype.parser.cls", "ClassParser.make_init.__init__")
    ha = analysis(h)
    sets = [(n, c) for n, c in ha.all_calls() if call_attr(c) in ("set_attributes",)]
    posts = [(n, c) for n, c in ha.all_calls() if isinstance(c.func, ast.Name) and c.func.id == "post_init"]
    # the parser local is found by role: bound to the result of `<x>.get_parser(...)`
    def is_parser_name(n_, name):
        defs = ha.rd.defs_of(n_, name)
        return bool(defs) and all(d.kind == "stmt" and isinstance(d.ast, ast.Assign) and isinstance(d.ast.value, ast.Call)
                                  and call_attr(d.ast.value) == "get_parser" for d in defs)
    parses = [n for n, c in ha.all_calls() if isinstance(c.func, ast.Name) and is_parser_name(n, c.func.id)]
    run.floor(rule, "parser calls in the generated __init__", len(parses), 1)
    run.floor(rule, "set_attributes sites in the generated __init__", len(sets), 1)
    for n, c in sets + posts:
        cnt += 1
        # the values argument: the first positional of set_attributes, the second of post_init
        pos = 0 if (n, c) in sets else 1
        vals = [c.args[pos]] if len(c.args) > pos and isinstance(c.args[pos], ast.Name) else []
        ok = bool(vals)
        if ok:
            for d in ha.rd.defs_of(n, vals[0].id):
                if d in parses:
                    continue
                # `values = kwargs` is allowed only under the no_parse flag
                if any(unparse(a) == "no_parse" and p for a, p in ha.facts.atoms_at(d)):
                    continue
                ok = False
        run.check(rule, h, f"`{unparse(c)[:50]}` receives the parser's result", ok,
                  construct=f"instance populated with unparsed values: {unparse(c)[:60]}",
                  message=f"`{unparse(c)}` in the generated __init__ can receive values that did not pass the parser",
                  necessity="attributes are set from raw input; a failed parse still populates the instance", node=c)
    return cnt


# error classes whose `value` is not input data of a conversion: reason
VALUE_FORMAT_EXEMPT = {
    "InvalidInstance": "value is the receiver of a bound method whose class is checked (from_class), not a parsed input",
    "InvalidSubclass": "value is a class object (type argument / receiver of a class method)",
}


def r04g(run):
    """error objects are built outside any try (parse_addition, the lookup strategies, ...): their constructors and
    message properties must not call back into the input value (repr / str / format)"""
    fam = exception_family(run.repo)
    m = run.repo.module("utype.utils.exceptions")
    total = 0
    for c in m.classes.values():
        if c.name not in fam:
            continue
        for meth in c.methods.values():
            if meth.name not in ("__init__", "formatted_message", "__str__", "__repr__"):
                continue
            total += 1
            bad = []
            for sub in walk_shallow(meth.node):
                arg = None
                if isinstance(sub, ast.FormattedValue):
                    arg = sub.value
                elif isinstance(sub, ast.Call) and isinstance(sub.func, ast.Name) and sub.func.id in ("repr", "str", "format", "ascii") and sub.args:
                    arg = sub.args[0]
                elif isinstance(sub, ast.BinOp) and isinstance(sub.op, ast.Mod) and isinstance(sub.left, ast.Constant) \
                        and isinstance(sub.left.value, str):
                    arg = sub.right
                elif isinstance(sub, ast.Call) and isinstance(sub.func, ast.Attribute) and sub.func.attr == "format":
                    arg = ast.Tuple(elts=list(sub.args) + [k.value for k in sub.keywords], ctx=ast.Load())
                if arg is None:
                    continue
                for x in ast.walk(arg):
                    if isinstance(x, ast.Attribute) and x.attr == "value" and unparse(x.value) == "self":
                        bad.append(unparse(sub)[:50])
                    if isinstance(x, ast.Name) and x.id == "value" and "value" in meth.params:
                        bad.append(unparse(sub)[:50])
            exempt = VALUE_FORMAT_EXEMPT.get(c.name)
            if bad and exempt:
                run.ob("R04g", meth, f"{c.name}.{meth.name} formats its value (exempt)", True, detail=exempt, nontrivial=False)
                continue
            run.check("R04g", meth, f"{c.name}.{meth.name} does not call back into the offending value", not bad,
                      construct=f"{c.name}.{meth.name} formats self.value",
                      message=f"{c.name}.{meth.name} formats the input value ({', '.join(sorted(set(bad)))}); "
                              f"ParseError.__init__ evaluates the message while the error is being constructed, and "
                              f"several construction sites (parse_addition, the lookup strategies) are not inside a try",
                      necessity="repr()/str() of the input runs caller code or hits interpreter limits: an int of 5000 "
                                "digits, a 1000-deep list or an object with a raising __repr__ makes a bare ValueError / "
                                "RecursionError escape instead of the ParseError", node=meth.node)
    run.floor("R04g", "error constructors / message properties", total, 10)


R04H_INPUTS = {"value", "data", "item", "arg", "_key", "_val", "sent", "result", "val"}
# functions of the parse-core modules that are not on a parse path: reason
R04H_OUT_OF_SCOPE = {
    "utype.parser.rule:LogicalType._parse_arg": "declaration time (builds a combinator from annotations)",
    "utype.parser.base:BaseParser.__contains__": "mapping protocol of the parser object, not a parse",
    "utype.parser.func:call": "free helper outside the decorated wrappers (not an entry of the property)",
}


def r04h(run):
    """protocol operations on the raw input - iterating it, hashing a value taken from it - can raise whatever the
    input's type raises (TypeError: not iterable / unhashable): each such site is inside a catch-all try, under a type
    guard, or in a function every caller of which contains it"""
    from . import c19
    indirect = indirect_table(run)
    total = 0
    for f in in_scope_functions(run):
        if f.ref in R04H_OUT_OF_SCOPE:
            continue
        params = {p for p in f.params if p in R04H_INPUTS}
        if not params:
            continue
        fa = analysis(f)
        P = prov(fa)
        for n in fa.cfg.nodes:
            if n.ast is None or n.kind not in ("stmt", "test", "iter"):
                continue
            ops = []
            if n.kind == "iter":
                it = n.ast
                inner = it.args[0] if isinstance(it, ast.Call) and call_attr(it) in ("enumerate", "zip", "reversed") and it.args else it
                via_method = isinstance(inner, ast.Call) and isinstance(inner.func, ast.Attribute) \
                    and inner.func.attr in ("items", "values", "keys")
                base = inner.func.value if via_method else inner
                if isinstance(base, (ast.Name, ast.Attribute, ast.Subscript)) and c19._derives_from_param(fa, n, base, params):
                    ops.append(("iteration", it, base))
            for e in fa.node_exprs(n):
                for sub in walk_shallow(e):
                    key = None
                    if isinstance(sub, ast.Compare) and len(sub.ops) == 1 and isinstance(sub.ops[0], (ast.In, ast.NotIn)) \
                            and isinstance(sub.comparators[0], ast.Attribute):
                        key = sub.left
                    elif isinstance(sub, ast.Subscript) and isinstance(sub.value, ast.Attribute) and isinstance(sub.ctx, ast.Load) \
                            and unparse(sub.value.value) in ("self", "cls"):
                        key = sub.slice
                    elif isinstance(sub, ast.Call) and isinstance(sub.func, ast.Attribute) and sub.func.attr == "get" \
                            and isinstance(sub.func.value, ast.Attribute) and unparse(sub.func.value.value) in ("self", "cls") and sub.args:
                        key = sub.args[0]
                    if isinstance(key, ast.Name) and key.id in fa.rd.locals:
                        os_ = P.of_name(n, key.id)
                        # a value taken out of the input (mapping value / element), never a dict key or str(...)
                        taken = [o for o in os_ if o.kind == "sub" or (o.kind == "call" and isinstance(o.node.func, ast.Attribute)
                                                                       and o.node.func.attr == "get")]
                        from_input = [o for o in taken if c19._derives_from_param(
                            fa, o.at, o.node.value if o.kind == "sub" else o.node.func.value, params)]
                        if from_input:
                            ops.append(("hashing", sub, key))
            for op, node, subject in ops:
                total += 1
                if op == "hashing":
                    # the same key was hashed before on every path: this lookup cannot be the first to fail
                    prior = [m for m in fa.cfg.dominators().get(n, set()) if m is not n and m.ast is not None
                             and any(isinstance(x, ast.Compare) and isinstance(x.ops[0], (ast.In, ast.NotIn))
                                     and unparse(x.left) == unparse(subject) for x in ast.walk(m.ast))]
                    if prior:
                        run.ob("R04h", f, f"hashing of `{unparse(subject)}` repeats a lookup made earlier on every path", True,
                               nontrivial=False)
                        continue
                ok, _h = local_containment(fa, n)
                why = "inside a catch-all try" if ok else ""
                if not ok:
                    # the interpreter's own failure of these operations is a TypeError (not iterable / unhashable)
                    hs = [s_.handler for s_, k_ in n.succ if k_ == E and s_.kind == "handler"]
                    if any("TypeError" in handler_type_names(h_) for h_ in hs):
                        ok, why = True, "inside a try that catches TypeError"
                if not ok:
                    sname = unparse(subject)
                    guard = [unparse(a) for a, p in fa.facts.atoms_at(n) if p and isinstance(a, ast.Call)
                             and call_attr(a) in ("isinstance", "multi") and a.args and unparse(a.args[0]) == sname]
                    if guard:
                        ok, why = True, f"under the guard {guard[0]}"
                if not ok and op == "iteration" and isinstance(subject, ast.Name) and f.name in (
                        "data_first_parse", "field_first_parse", "parse_data"):
                    ok, why = True, "the strategies receive a dict (BaseParser.__call__ coerces)"
                if not ok and f.cls is not None and f.cls.name == "Constraints":
                    # validators run through the compiled list: `validator(value, constraint)` in Rule.parse
                    rp = run.repo.func("utype.parser.rule", "Rule.parse")
                    rfa = analysis(rp)
                    vs = [m for _f, _fa, m, c_, kind_ in foreign_sites(run, [rp]) if kind_ == "validator"]
                    ok = bool(vs) and all(local_containment(rfa, m)[0] for m in vs)
                    why = "the validator call in Rule.parse is inside a catch-all try" if ok else "the validator call in Rule.parse is not contained"
                if not ok:
                    ok, chain = contained_interproc(run, f, indirect)
                    why = "every caller contains it" if ok else "; ".join(chain[:2])
                run.check("R04h", f, f"{op} of input-derived `{unparse(subject)[:30]}` cannot raise out of the parse ({why})", ok,
                          construct=f"uncontained {op} of the input in {f.name}",
                          message=f"{f.qualname}: `{unparse(node)[:60]}` performs {op} on a value that comes from the input, "
                                  f"outside any catch-all try and without a type guard ({why})",
                          necessity="a non-iterable (or unhashable) input makes the interpreter raise a bare TypeError here: "
                                    "`class C(Rule): contains = int` given 5, or a discriminator field given {'kind': [1]}",
                          node=node)
    run.floor("R04h", "protocol operations on input-derived values", total, 8)


REGEX_FUNCS = {"compile", "match", "fullmatch", "search", "sub", "subn", "split", "findall", "finditer"}
REGEX_MODULES = ["utype.utils.transform", "utype.parser.rule", "utype.parser.field", "utype.parser.base",
                 "utype.parser.func", "utype.parser.cls", "utype.parser.options", "utype.schema", "utype.types",
                 "utype.utils.functional", "utype.utils.encode", "utype.utils.base"]


def shipped_patterns(run):
    """(where, node, pattern text) for every regular expression the library itself matches against input text: pattern
    arguments of re.* calls that fold to a string, and the `regex` constraint of the shipped constrained types"""
    from ..lib import fold_str
    out = []
    unfolded = 0
    for modname in REGEX_MODULES:
        if modname not in run.repo.modules:
            continue
        mod = run.repo.modules[modname]
        # class bodies: constants usable in f-strings, `regex = ...` constraints, re.compile tables
        for C in mod.classes.values():
            scopes = (C.assigns, mod.assigns)
            if "regex" in C.assigns:
                p_ = fold_str(C.assigns["regex"], *scopes)
                if p_ is not None:
                    out.append((C.ref, C.assigns["regex"], p_, f"{C.name}.regex"))
            for st in C.node.body:
                if isinstance(st, (ast.FunctionDef, ast.AsyncFunctionDef)):
                    continue
                for c in ast.walk(st):
                    if isinstance(c, ast.Call) and isinstance(c.func, ast.Attribute) and c.func.attr in REGEX_FUNCS \
                            and unparse(c.func.value) == "re" and c.args:
                        p_ = fold_str(c.args[0], *scopes)
                        if p_ is None:
                            unfolded += 1
                        else:
                            out.append((C.ref, c, p_, f"{unparse(c.func)}(...) in the body of {C.name}"))
        for st in mod.tree.body:
            if isinstance(st, (ast.FunctionDef, ast.AsyncFunctionDef, ast.ClassDef)):
                continue
            for c in ast.walk(st):
                if isinstance(c, ast.Call) and isinstance(c.func, ast.Attribute) and c.func.attr in REGEX_FUNCS \
                        and unparse(c.func.value) == "re" and c.args:
                    p_ = fold_str(c.args[0], mod.assigns)
                    if p_ is not None:
                        out.append((f"{modname}:<module>", c, p_, f"{unparse(c.func)}(...) at module level"))
        for f in mod.functions.values():
            scopes = ((f.cls.assigns,) if f.cls is not None else ()) + (mod.assigns,)
            for c in walk_shallow(f.node):
                if isinstance(c, ast.Call) and isinstance(c.func, ast.Attribute) and c.func.attr in REGEX_FUNCS \
                        and unparse(c.func.value) == "re" and c.args:
                    p_ = fold_str(c.args[0], *scopes)
                    if p_ is not None:
                        out.append((f, c, p_, f"{unparse(c.func)}(...)"))
                    # a pattern that is a parameter / a declared constraint is the declaration's own: not the library's
    return out, unfolded


def r04i(run):
    """no regular expression the library matches against input text can backtrack exponentially"""
    from .. import redos
    pats, unfolded = shipped_patterns(run)
    run.floor("R04i", "regular expressions matched against input text", len(pats), 3)
    run.check("R04i", "utype.utils.transform:TypeTransformer", "every pattern of a class-level re.compile table folds to a string",
              unfolded == 0, construct="pattern not foldable", message=f"{unfolded} class-level pattern(s) are not "
              f"compile-time strings: they cannot be analysed")
    for where, node, pat, what in pats:
        try:
            w = redos.analyse(pat)
        except redos.Unsupported as e:
            run.check("R04i", where, f"`{pat[:40]}` ({what}) can be analysed", False, construct=f"unsupported regex {pat[:40]}",
                      message=f"the pattern {pat!r} uses {e}: its backtracking behaviour is not decided", node=node)
            continue
        except Exception as e:     # a pattern the regex parser rejects fails at import time, not here
            raise AnalysisError(f"R04i: pattern {pat!r} does not parse: {e}")
        run.check("R04i", where, f"{what}: `{pat[:50]}` has no exponentially ambiguous repetition", w is None,
                  construct=f"exponential backtracking: {what}",
                  message=f"{what}: the pattern {pat!r} has {w}: a run of such text followed by a character that makes the "
                          f"match fail is retried in exponentially many ways",
                  necessity="a hostile string of a few dozen characters keeps the parse busy for hours: 'no input makes "
                            "the call loop forever' fails", node=node)


def r04j(run):
    """no short text denotes unbounded work: an integer built from a Decimal that was parsed from the input
    (`t(Decimal('1e999999999'))` writes out a billion digits) is preceded by a magnitude bound on the Decimal"""
    T = run.repo.cls("utype.utils.transform", "TypeTransformer")
    total = 0
    for f in T.methods.values():
        fa = analysis(f)
        if len(f.params) < 3:
            continue
        tparam = f.params[2]
        regs = [d for d in f.node.decorator_list if isinstance(d, ast.Call) and call_attr(d) == "register"]
        int_target = any(unparse(a) == "int" for d in regs for a in d.args)
        for n, c in fa.all_calls():
            callee = unparse(c.func)
            if not ((callee == tparam and int_target) or callee == "int") or len(c.args) != 1 or not isinstance(c.args[0], ast.Name):
                continue
            v = c.args[0].id
            defs = [d for d in fa.rd.defs_of(n, v) if d.kind == "stmt" and isinstance(d.ast, ast.Assign)
                    and isinstance(d.ast.value, ast.Call) and unparse(d.ast.value.func) in ("Decimal", "decimal.Decimal")]
            if not defs:
                continue
            total += 1
            # a test on the magnitude whose true arm raises, on every path from the Decimal construction to the call
            bounds = [m for m in fa.cfg.nodes if m.kind == "test" and any(
                isinstance(x, ast.Call) and call_attr(x) in ("adjusted", "logb") and unparse(x.func.value) == v
                for x in ast.walk(m.ast))]
            guards = []
            for m in bounds:
                for s_, k in m.succ:
                    if s_.kind == "branch" and any(x.kind == "stmt" and isinstance(x.ast, ast.Raise)
                                                   for x in fa.cfg.reach_from_succ(s_, kinds=(N,)) | {s_}) \
                            and n not in fa.cfg.reach_from_succ(s_, kinds=(N,)):
                        guards.append(m)
            ok = bool(guards) and all(n not in fa.cfg.reach_from_succ(d, kinds=(N,), avoid=guards) for d in defs)
            run.check("R04j", f, f"`{unparse(c)}` expands a Decimal parsed from the input only below a digit bound", ok,
                      construct=f"unbounded integer expansion in {f.name}",
                      message=f"{f.qualname}: `{unparse(c)}` turns `{v}` (a Decimal built from the input) into an integer "
                              f"with no test of its magnitude ({v}.adjusted()) in between",
                      necessity="the 12 characters '1e999999999' denote an integer of a billion digits: writing it out keeps "
                                "the call busy for hours (quadratic in the exponent) - 'no input makes the call loop forever'",
                      node=c)
    run.floor("R04j", "integer expansions of input-built Decimals", total, 1)


def r04k(run):
    """the generated data-class __init__ is an entry point that is not wrapped by a parser: before parsing starts, its
    positional argument is only used as a mapping under an isinstance test (anything else raises a bare TypeError /
    ValueError out of dict.update)"""
    f = run.repo.func("utype.parser.cls", "ClassParser.make_init.__init__")
    fa = analysis(f)
    a = f.node.args
    pos = [x.arg for x in a.posonlyargs + a.args][1:]       # without the instance
    total = 0
    for P in pos:
        for n in fa.cfg.nodes:
            if n.ast is None or n.kind not in ("stmt", "iter", "with"):
                continue
            uses = []
            for c in fa.calls_at(n):
                if any(isinstance(x, ast.Name) and x.id == P for x in c.args) or any(
                        isinstance(k.value, ast.Name) and k.value.id == P and k.arg is None for k in c.keywords) or any(
                        isinstance(x, ast.Starred) and isinstance(x.value, ast.Name) and x.value.id == P for x in c.args):
                    if call_attr(c) in ("isinstance", "getattr", "hasattr", "type", "id", "repr"):
                        continue
                    uses.append(unparse(c)[:50])
            if n.kind == "iter" and isinstance(n.ast, ast.Name) and n.ast.id == P:
                uses.append(f"for ... in {P}")
            for u in uses:
                total += 1
                ok = any(p and isinstance(at, ast.Call) and call_attr(at) == "isinstance" and at.args
                         and unparse(at.args[0]) == P for at, p in fa.facts.atoms_at(n))
                run.check("R04k", f, f"`{u}` uses the positional argument `{P}` only under an isinstance test", ok,
                          construct=f"positional argument {P} used without a type test",
                          message=f"the generated __init__ hands its positional argument to `{u}` without an isinstance test: a "
                                  f"truthy non-mapping (User(5), User('text'), User(object())) raises a bare TypeError / "
                                  f"ValueError before any parsing starts",
                          necessity="an exception that is not a ParseError escapes from constructing a data class", node=n.ast)
    run.floor("R04k", "uses of the positional argument in the generated __init__", total, 1)


def check(run):
    run.rules_run += ["R04a", "R04b", "R04c", "R04d", "R04e"]
    run.explain("C04: (R04a) every converter / validator / class-held constructor call in the parse core is inside a "
                "catch-all handler (locally or through all its callers) and each such handler hands a ParseError-"
                "family error to handle_error / raise; (R04b) no subscript after a fallen-through range check; "
                "(R04c) operations on the container parameter of each element parser are supported by every type "
                "it is dispatched for; (R04d) every while loop matches a termination argument, numeric shrink "
                "loops need a finiteness guard; (R04e) the wrapped function is called only with get_params' result.")
    run.rule(r04a, run)
    nb = run.rule(r04b, run)
    run.rule(r04c, run)
    mods = ["utype.utils.transform", "utype.parser.func", "utype.parser.rule", "utype.parser.field",
            "utype.parser.base", "utype.parser.cls", "utype.parser.options", "utype.schema"]
    if run.thorough:
        mods += ["utype.utils.base", "utype.utils.functional", "utype.utils.encode", "utype.utils.compat",
                 "utype.utils.datastructures", "utype.decorator", "utype.types"]
    nl = run.rule(r04d, run, mods)
    run.floor("R04d", "while loops in the analysed modules", nl, 4)
    run.rule(r04d_recursion, run, mods)
    run.rule(r04e, run)
    from . import c10
    run.rules_run.append("R04f")
    run.rule(c10.r10e, run, in_scope_functions(run), rule="R04f")
    run.rules_run.append("R04g")
    run.rule(r04g, run)
    run.rules_run.append("R04h")
    run.rule(r04h, run)
    run.rules_run.append("R04i")
    run.rule(r04i, run)
    run.rules_run.append("R04j")
    run.rule(r04j, run)
    run.rules_run.append("R04k")
    run.rule(r04k, run)
    # shared with C18: recursion through nested data classes ends at the input's depth - or, for a cyclic input, at the
    # interpreter's stack limit, which is only reached in reasonable time if a level is not re-parsed several times
    from . import c18
    run.rules_run.append("R18e")
    run.rule(c18.r18e, run)
