"""C07 - data-class instances stay valid under every sequence of mutations.

R07a mutator exhaustiveness   R07b parse-before-store   R07c guard-before-remove   R07d no shared storage in copy
R07e owner flush / sentinel   R07f dependants recomputed
"""
import ast
from typing import List, Optional, Tuple

from ..cfg import analysis, FuncAnalysis, Node, N, E, branch_has, branch_atoms
from ..lib import path_fact_sets, prov, Origin, PARSE_METHODS
from ..model import AnalysisError, FuncInfo, call_attr, call_name, dotted, kwarg, unparse, walk_shallow, norm_stmt, names_in

K_DICT_MUTATORS = ["__setitem__", "__delitem__", "__ior__", "clear", "pop", "popitem", "setdefault", "update"]

PARSED_CALLS = {"parse_value", "parse_output_value", "parse_addition", "get_default"}


def schema_class(run):
    m = run.repo.module("utype.schema")
    cands = [c for c in m.classes.values() if "dict" in [b.split(".")[-1] for b in c.base_names]]
    if len(cands) != 1:
        raise AnalysisError(f"R07: expected exactly one dict subclass in utype.schema, found {[c.name for c in cands]}")
    return cands[0]


def setter_closures(run) -> List[FuncInfo]:
    out = []
    for q in ("ClassParser.make_setter.setter",):
        out.append(run.repo.func("utype.parser.cls", q))
    return out


def is_super_call(c: ast.Call, name: str = None) -> bool:
    f = c.func
    if isinstance(f, ast.Attribute) and isinstance(f.value, ast.Call) and isinstance(f.value.func, ast.Name) \
            and f.value.func.id == "super":
        return name is None or f.attr == name
    return False


def is_dict_static_call(c: ast.Call, name: str = None) -> bool:
    f = c.func
    if isinstance(f, ast.Attribute) and isinstance(f.value, ast.Name) and f.value.id == "dict":
        return name is None or f.attr == name
    return False


def value_is_parsed(fa: FuncAnalysis, n: Node, e, allow_params=()) -> Tuple[bool, str]:
    """typestate of expression e at node n: PARSED iff every origin is the result of a parse call (or an allowed,
    already validated parameter)"""
    os_ = prov(fa).of_expr(n, e)
    if not os_:
        return False, "no definition"
    for o in os_:
        if o.kind == "call" and o.text.split(".")[-1] in PARSED_CALLS:
            continue
        if o.kind == "param" and o.text in allow_params:
            continue
        if o.kind in ("iter", "iter-unpack", "sub") and o.base and all(
                b.kind == "param" and b.text in allow_params or
                (b.kind == "call" and b.text.split(".")[-1] in ("items", "list") and True) for b in o.base):
            # elements of an allowed (validated) mapping parameter
            ok = True
            for b in o.base:
                if b.kind == "call":
                    # list(values.items()) / values.items()
                    inner = names_in(b.node)
                    if not (inner & set(allow_params)):
                        ok = False
            if ok:
                continue
        return False, f"origin {o.kind}:{o.text}"
    return True, ""


def r07a(run, S):
    for name in K_DICT_MUTATORS:
        ok = name in S.methods
        run.check("R07a", f"{S.ref}", f"dict mutator `{name}` is overridden by {S.name}", ok,
                  construct=f"{S.name}.{name} inherited from dict",
                  message=f"{S.name} does not override dict.{name}: the inherited method writes/removes raw data "
                          f"without parsing or immutability/required checks",
                  necessity=f"inst.{name}(...) stores an unparsed value (or removes a required field) on a "
                            f"validated instance")
    # an override must not delegate straight to the raw dict method with its own raw arguments
    for name in ("update", "setdefault", "__ior__"):
        f = S.methods.get(name)
        if not f:
            continue
        fa = analysis(f)
        raw = [(n, c) for n, c in fa.all_calls()
               if (is_super_call(c, name) or is_dict_static_call(c, name))]
        run.check("R07a", f, f"{name} does not delegate to dict.{name} with caller data", not raw,
                  construct=f"{name} delegates to dict.{name}",
                  message=f"{S.name}.{name} passes its arguments to the raw dict.{name}",
                  necessity="the caller's unparsed data lands in the instance",
                  node=raw[0][1] if raw else None)


def raw_stores(fa: FuncAnalysis) -> List[Tuple[Node, str, ast.AST, ast.AST]]:
    """(node, kind, key_expr, value_expr)"""
    out = []
    for n in fa.cfg.nodes:
        if n.kind != "stmt":
            continue
        a = n.ast
        for c in fa.calls_at(n):
            if is_super_call(c, "__setitem__") and len(c.args) == 2:
                out.append((n, "super().__setitem__", c.args[0], c.args[1]))
            elif is_dict_static_call(c, "__setitem__") and len(c.args) == 3:
                out.append((n, "dict.__setitem__", c.args[1], c.args[2]))
            elif (is_super_call(c, "update") or is_super_call(c, "__init__")) and c.args:
                out.append((n, "super()." + c.func.attr, None, c.args[0]))
            elif is_dict_static_call(c, "update") and len(c.args) >= 2:
                out.append((n, "dict.update", None, c.args[1]))
            elif is_super_call(c, "setdefault") and len(c.args) == 2:
                out.append((n, "super().setdefault", c.args[0], c.args[1]))
        if isinstance(a, ast.Assign):
            for t in a.targets:
                if isinstance(t, ast.Subscript) and isinstance(t.value, ast.Attribute) and t.value.attr == "__dict__":
                    out.append((n, unparse(t.value) + "[...] =", t.slice, a.value))
    return out


def r07b(run, S, funcs):
    total = 0
    for f in funcs:
        fa = analysis(f)
        allow = ()
        if f.name in ("__post_init__", "set_attributes"):
            allow = ("values",)      # the parser's result, established by R04e at the only call sites
        for n, kind, k, v in raw_stores(fa):
            total += 1
            if f.name == "copy" and unparse(v) == "self":
                run.ob("R07b", f, f"{kind} copies already validated storage (`self`)", True)
                continue
            ok, why = value_is_parsed(fa, n, v, allow)
            run.check("R07b", f, f"`{norm_stmt(n.ast)[:70]}` stores a parsed value", ok,
                      construct=f"raw store {kind} of `{unparse(v)}`",
                      message=f"`{norm_stmt(n.ast)}` writes `{unparse(v)}` into the instance's storage, and that value "
                              f"is not (only) the result of a parse call ({why})",
                      necessity="the stored value is the caller's raw object: e.g. with addition=int, s['more']='5' "
                                "keeps the string '5'", node=n.ast, detail=why)
    run.floor("R07b", "raw stores into instance storage", total, 6)


def _facts(fa, n):
    return {(unparse(a), p) for a, p in fa.facts.atoms_at(n)}


def raw_removals(fa: FuncAnalysis):
    out = []
    for n, c in fa.all_calls():
        if any(is_super_call(c, m) for m in ("__delitem__", "pop", "popitem", "clear")):
            out.append((n, c, c.func.attr))
        elif any(is_dict_static_call(c, m) for m in ("__delitem__", "pop", "popitem", "clear")):
            out.append((n, c, c.func.attr))
    return out


def r07c(run, S):
    total = 0
    for name in ("__delitem__", "__field_deleter__", "pop", "popitem", "clear"):
        f = S.methods.get(name)
        if f is None:
            continue   # R07a reports missing overrides
        fa = analysis(f)
        for n, c, kind in raw_removals(fa):
            total += 1
            all_msgs = []
            for facts in path_fact_sets(fa, n, ("field", "deleter", "immutable", "is_required")):
                all_msgs += _removal_gaps(fa, f, n, kind, facts)
            msgs = sorted(set(all_msgs))
            ok = not msgs
            run.check("R07c", f, f"raw removal `{unparse(c)[:60]}` is dominated by its guards", ok,
                      construct=f"unguarded removal {unparse(c)[:80]}",
                      message=f"{S.name}.{name}: `{unparse(c)}` is not dominated by " + " and ".join(msgs),
                      necessity="a required or immutable field can be removed from a validated instance",
                      node=c)
    run.floor("R07c", "raw removals in Schema mutators", total, 4)
    _r07c_generated(run)


def _removal_gaps(fa, f, n, kind, facts) -> List[str]:
    """the guards missing on one class of paths reaching the raw removal at n"""
    if True:
        if True:
            field_known = ("field" in f.params) or any(a == "not field" and not p for a, p in facts) \
                or any(a == "field" and p for a, p in facts)
            no_field = ("not field", True) in facts or ("field", False) in facts
            imm_schema = ("self.__options__.immutable", False) in facts
            msgs = []
            if not imm_schema:
                msgs.append("the schema-level immutable check")
            if kind in ("popitem", "clear") or (field_known and not no_field):
                # property deleter path: the developer's own deleter governs; mapping entry follows it
                prop_path = ("callable(deleter)", True) in facts
                if kind == "clear":
                    loops = [m for m in fa.cfg.nodes if m.kind == "iter" and "fields" in unparse(m.ast)
                             and fa.cfg.dominates(m, n)]
                    body_ok = False
                    for lp in loops:
                        tests = [unparse(x.test) for x in walk_shallow(lp.stmt) if isinstance(x, ast.If)
                                 and any(isinstance(b, ast.Raise) or (type(b).__name__ == "InlineBlock"
                                                                      and getattr(b, "tail", None) == "raise")
                                         for b in x.body)]
                        if any("immutable" in t for t in tests) and any("is_required" in t for t in tests):
                            body_ok = True
                    if not body_ok:
                        msgs.append("a loop over all fields raising for immutable and required ones")
                elif kind == "popitem":
                    msgs.append("per-field immutable / required checks (popitem removes whatever key is last)")
                elif not prop_path:
                    if not any(a == "field.immutable" and not p for a, p in facts):
                        msgs.append("the field-immutable check")
                    if not any(a.startswith("field.is_required(") and not p for a, p in facts):
                        msgs.append("the is_required check")
            return msgs


def _r07c_generated(run):
    # attribute-based base class: the generated deleter
    d = run.repo.func("utype.parser.cls", "ClassParser.make_deleter.deleter")
    da = analysis(d)
    pops = [(n, c) for n, c in da.all_calls() if call_attr(c) == "pop" and "__dict__" in unparse(c.func)]
    # `del obj.__dict__[name]` removes as well
    pops += [(n, n.ast) for n in da.cfg.nodes if n.kind == "stmt" and isinstance(n.ast, ast.Delete)
             and any("__dict__" in unparse(t) for t in n.ast.targets)]
    run.floor("R07c", "removals in the generated attribute deleter", len(pops), 1)
    for n, c in pops:
        ok = all(any("immutable" in a and not p for a, p in facts) and any(
            a.startswith("field.is_required(") and not p for a, p in facts)
            for facts in path_fact_sets(da, n, ("immutable", "is_required")))
        run.check("R07c", d, f"`{unparse(c)[:60]}` is dominated by immutable and is_required checks", ok,
                  construct=f"unguarded removal {unparse(c)[:80]}",
                  message=f"generated deleter: `{unparse(c)}` is not dominated by the immutable and is_required checks",
                  necessity="del inst.required_field succeeds", node=c)


def r07d(run, S):
    f = S.methods.get("copy")
    if f is None:
        run.ob("R07d", S.ref, "copy is inherited from dict (returns a plain dict, shares nothing)", True, nontrivial=False)
        return
    fa = analysis(f)
    n_assign = 0
    for n in fa.cfg.nodes:
        if n.kind == "stmt" and isinstance(n.ast, ast.Assign):
            for t in n.ast.targets:
                if isinstance(t, ast.Attribute) and t.attr == "__dict__":
                    n_assign += 1
                    v = n.ast.value
                    copying = isinstance(v, ast.Call) and (
                        call_attr(v) in ("dict", "copy", "deepcopy") or
                        (isinstance(v.func, ast.Attribute) and v.func.attr == "copy")) \
                        or isinstance(v, (ast.Dict, ast.DictComp))
                    run.check("R07d", f, f"`{norm_stmt(n.ast)}` binds a fresh mapping", copying,
                              construct="copy shares __dict__",
                              message=f"`{norm_stmt(n.ast)}` binds the copy's attribute storage to the very object "
                                      f"the original uses",
                              necessity="assigning a no_output attribute on the copy changes the original (and "
                                        "vice versa): the two instances are not independent", node=n.ast)
    # the copy must be populated from self
    pop = [c for n, c in fa.all_calls() if (is_dict_static_call(c, "update") or call_attr(c) == "update")]
    run.check("R07d", f, "copy populates the new object from self", bool(pop) or n_assign > 0,
              construct="copy does not copy", message="Schema.copy does not populate the new object")


def r07e(run, S):
    # (1) handle_error honours force_error - decided on the handle_error decision table (c10.context_tables)
    from . import c10 as _c10
    h, _g, rows_h, _r = _c10.context_tables(run)
    w = _c10._handle_error_mismatches(rows_h).get("force_error")
    run.check("R07e", h, "handle_error raises immediately when the context was created with force_error=True", w is None,
              construct="force_error is never consulted",
              message="RuntimeContext.handle_error does not raise at once for a context created with force_error=True "
                      "(attribute / item setters): such contexts still swallow errors when collect_errors is on"
                      + (f": for [{w[0]}] it {w[1]!r}, expected: {w[2]}" if w else ""),
              necessity="under Options(collect_errors=True), `inst.b = 'xx'` records the error in a throw-away "
                        "context and stores the <unprovided> sentinel")
    # (2) owners: create a context, hand it to a parse call, must force errors and test the sentinel before storing
    owners = [S.methods[m] for m in ("__field_setter__", "__setitem__", "__field_getter__") if m in S.methods]
    owners += setter_closures(run)
    n_own = 0
    for f in owners:
        fa = analysis(f)
        ctxs = [(n, c) for n, c in fa.all_calls() if call_attr(c) == "make_context"]
        for n, c in ctxs:
            n_own += 1
            fe = kwarg(c, "force_error")
            forced = isinstance(fe, ast.Constant) and fe.value is True
            flushed = any(call_attr(c2) == "raise_error" for _, c2 in fa.all_calls())
            run.check("R07e", f, f"`{unparse(c)[:60]}` is created with force_error=True (or flushed)", forced or flushed,
                      construct="setter context neither forced nor flushed",
                      message=f"{f.qualname}: the context `{unparse(c)}` is neither created with force_error=True nor "
                              f"flushed with raise_error()",
                      necessity="a parse failure in the setter is recorded and forgotten", node=c)
        # sentinel: the result of parse_value / parse_addition must be tested with unprovided(...) before a store
        for n, kind, k, v in raw_stores(fa):
            os_ = prov(fa).of_expr(n, v)
            parse_defs = [o for o in os_ if o.kind == "call" and o.text.split(".")[-1] in
                          ("parse_value", "parse_addition", "parse_output_value")]
            if not parse_defs:
                continue
            var = unparse(v)
            tested = any(a == f"unprovided({var})" and not p for a, p in _facts(fa, n))
            run.check("R07e", f, f"`{norm_stmt(n.ast)[:60]}` happens only after the sentinel test on `{var}`", tested,
                      construct=f"sentinel not tested before store of `{var}`",
                      message=f"{f.qualname}: `{norm_stmt(n.ast)}` stores the result of a parse call without first "
                              f"testing it with unprovided(...)",
                      necessity="for a field with on_error='exclude' (or under collected errors) parse_value returns "
                                "the <unprovided> sentinel, which is then stored as the field's value", node=n.ast)
    run.floor("R07e", "setter/getter contexts", n_own, 3)


def r07f(run, S):
    f = S.methods.get("__field_setter__")
    if f is None:
        raise AnalysisError("Schema.__field_setter__ not found")
    fa = analysis(f)
    loops = [n for n in fa.cfg.nodes if n.kind == "iter" and "dependants" in unparse(n.ast)]
    run.check("R07f", f, "__field_setter__ recomputes dependant properties", bool(loops),
              construct="no dependants loop", message="Schema.__field_setter__ has no loop over field.dependants",
              necessity="a property depending on the changed field keeps its old value")
    if not loops:
        return
    lp = loops[0]
    recompute = [c for x in walk_shallow(lp.stmt) if isinstance(x, ast.Call) for c in [x]
                 if call_attr(c) == "__coerce_property__"]
    run.check("R07f", f, "the dependants loop calls __coerce_property__", bool(recompute),
              construct="dependants loop does not recompute", message="the dependants loop never calls "
              "__coerce_property__")
    for n, kind, k, v in raw_stores(fa):
        # the loop itself must be reached; the only way round it is the arm in which the field has no dependants
        FP = f.params[2] if len(f.params) > 2 else "field"
        none = [b for b in fa.cfg.nodes if b.kind == "branch" and not b.is_for
                and any(t_.endswith(".dependants") and t_.startswith(FP) and not p_ for t_, p_ in branch_atoms(b))]
        reach = fa.cfg.reach_from_succ(n, kinds=(N,), avoid=[lp] + none)
        run.check("R07f", f, f"after `{norm_stmt(n.ast)[:50]}` the dependants recomputation is reached",
                  fa.cfg.exit not in reach, construct="store bypasses dependants recomputation",
                  message=f"`{norm_stmt(n.ast)}` can be followed by a return that skips the dependants loop",
                  necessity="dependant properties are stale after the assignment", node=n.ast)


def r07g(run):
    """every declared non-property field gets its own accessors; Final fields are immutable"""
    f = run.repo.func("utype.parser.cls", "ClassParser.assign_properties")
    fa = analysis(f)
    loops = [n for n in fa.cfg.nodes if n.kind == "iter" and "self.fields" in unparse(n.ast)]
    sets = [(n, c) for n, c in fa.all_calls() if call_attr(c) == "setattr"]
    run.check("R07g", f, "assign_properties installs a property per field", len(loops) == 1 and len(sets) >= 1,
              construct="assign_properties shape", message="assign_properties has no loop over self.fields installing properties")
    if len(loops) == 1 and sets:
        lp = loops[0]
        # the field variable of the loop, by role: the value element of the `.items()` target (or the sole target)
        tg = lp.stmt.target
        tg = tg.elts[-1] if isinstance(tg, ast.Tuple) else tg
        FV = tg.id if isinstance(tg, ast.Name) else "field"
        body_entry = [s for s, k in lp.succ if s.kind == "branch" and s.polarity][0]
        # every path through an iteration reaches the setattr unless the field is a @property field
        skips = [b for b in fa.cfg.nodes if b.kind == "branch" and not b.is_for and branch_has(b, f"{FV}.property", True)]
        reach = fa.cfg.reach_from_succ(body_entry, kinds=(N,), avoid=[n for n, c in sets] + skips)
        run.check("R07g", f, "the only fields skipped are @property fields", lp not in reach,
                  construct="field skipped without accessors",
                  message="assign_properties can skip a declared field (other than a @property field) without installing "
                          "its getter/setter/deleter",
                  necessity="a subclass re-declaring an inherited field keeps the base class accessor: assignments are "
                            "validated against the base field's type and flags")
        for n, c in sets:
            ok = len(c.args) == 3 and unparse(c.args[0]) == "self.obj" and unparse(c.args[1]) == f"{FV}.attname"
            run.check("R07g", f, "the property is installed on the parsed class under the field's attribute name", ok,
                      construct="property installed elsewhere", message=f"`{unparse(c)[:70]}` does not install on "
                      f"self.obj / field.attname", node=c)
        for what in ("setter", "deleter", "getter"):
            bound = [c for n, c in fa.all_calls() if call_attr(c) == "partial" and c.args and unparse(c.args[0]) == what]
            ok = all(kwarg(c, "field") is not None and unparse(kwarg(c, "field")) == FV for c in bound) and bool(bound)
            run.check("R07g", f, f"the {what} is bound to the field of this iteration", ok,
                      construct=f"{what} bound to another field", message=f"assign_properties binds the {what} without "
                      f"field=field")
    g = run.repo.cls("utype.parser.field", "ParserField").methods.get("immutable")
    if g is None:
        raise AnalysisError("ParserField.immutable not found")
    ga = analysis(g)
    ok = any(n.kind == "stmt" and isinstance(n.ast, ast.Return) and isinstance(n.ast.value, ast.Constant)
             and n.ast.value.value is True and ("self.final", True) in _facts(ga, n) for n in ga.cfg.nodes)
    run.check("R07g", g, "a Final field is immutable", ok, construct="Final not immutable",
              message="ParserField.immutable no longer answers True for Final fields",
              necessity="`x: Final[T] = Field(...)` can be reassigned and deleted after initialisation")
    ok = any(n.kind == "stmt" and isinstance(n.ast, ast.Return) and "immutable" in unparse(n.ast.value) for n in ga.cfg.nodes)
    run.check("R07g", g, "otherwise the declared Field(immutable=...) decides", ok, construct="immutable flag",
              message="ParserField.immutable ignores the declared flag")


def r07h(run, S):
    """fields are looked up by name through the parser's alias- and case-aware lookup, never by raw key"""
    scope = [f for f in run.repo.all_functions() if f.module.name in ("utype.schema", "utype.parser.cls", "utype.parser.func")]
    lookups = raw = 0
    for f in scope:
        fa = analysis(f)
        for n in fa.cfg.nodes:
            if n.ast is None or n.kind not in ("stmt", "test", "iter", "with"):
                continue
            for e in fa.node_exprs(n):
                for sub in walk_shallow(e):
                    if isinstance(sub, ast.Call) and call_attr(sub) == "get_field":
                        lookups += 1
                    recv = None
                    if isinstance(sub, ast.Call) and isinstance(sub.func, ast.Attribute) and sub.func.attr == "get":
                        recv = sub.func.value
                    elif isinstance(sub, ast.Subscript) and isinstance(sub.ctx, ast.Load):
                        recv = sub.value
                    if recv is None:
                        continue
                    is_fields = isinstance(recv, ast.Attribute) and recv.attr == "fields"
                    if isinstance(recv, ast.Name) and recv.id in fa.rd.locals:
                        os_ = prov(fa).of_name(n, recv.id)
                        is_fields = bool(os_) and all(o.kind == "attr" and o.text.endswith(".fields") for o in os_)
                    if not is_fields:
                        continue
                    raw += 1
                    run.check("R07h", f, f"`{unparse(sub)[:50]}` goes through get_field", False,
                              construct="raw keyed access to the fields table",
                              message=f"{f.qualname}: `{unparse(sub)[:70]}` indexes the parser's `fields` table by a raw "
                                      f"name instead of calling get_field()",
                              necessity="under case_insensitive options the table is keyed by the lower-cased name while "
                                        "dependants / aliases keep the declared spelling: the lookup misses and a dependent "
                                        "property is not recomputed (stale computed key)", node=sub)
    run.ob("R07h", S.ref, "no raw keyed access to a parser's fields table in the mutator / accessor code", raw == 0,
           detail=f"{lookups} get_field lookups")
    run.floor("R07h", "get_field lookups in the mutator / accessor code", lookups, 6)


def r07i(run, S):
    """the attribute view and the key view agree after a removal: every raw removal of a field's key from the mapping is
    followed, on every normal path to the exit, by the removal of the field's attribute from the instance storage - and a
    membership test that guards a removal tests the key that is removed (check-then-act agreement)"""
    removers = [m for m in ("__field_deleter__", "pop", "clear") if m in S.methods]
    run.floor("R07i", "removal mutators of the dict-based class", len(removers), 3)
    for name in removers:
        f = S.methods[name]
        fa = analysis(f)
        raw = []
        for n, c in fa.all_calls():
            if is_super_call(c) and c.func.attr in ("pop", "__delitem__", "clear", "popitem"):
                # removals of undeclared (extra) keys have no attribute counterpart
                def no_field(a, p):
                    # `<field local>` is falsy: the local bound to the get_field(...) lookup, whatever it is called
                    neg = isinstance(a, ast.UnaryOp) and isinstance(a.op, ast.Not)
                    v = a.operand if neg else a
                    if not isinstance(v, ast.Name):
                        return False
                    defs = fa.rd.defs_of(n, v.id)
                    if not (defs and all(d.kind == "stmt" and isinstance(d.ast, ast.Assign) and isinstance(d.ast.value, ast.Call)
                                         and call_attr(d.ast.value) == "get_field" for d in defs)):
                        return False
                    return p if neg else (p is False)
                if any(no_field(a, p) for a, p in fa.facts.atoms_at(n)):
                    continue
                raw.append((n, c))
        attr_rm = []
        for n, c in fa.all_calls():
            if isinstance(c.func, ast.Attribute) and c.func.attr in ("pop", "clear", "__delitem__") \
                    and unparse(c.func.value).endswith("__dict__"):
                attr_rm.append((n, c))
        for n in fa.cfg.nodes:
            if n.kind == "stmt" and isinstance(n.ast, ast.Delete) and "__dict__" in unparse(n.ast):
                attr_rm.append((n, n.ast))
        # `if K in self.__dict__: self.__dict__.pop(K)` removes K whenever it is there: the test counts as the removal
        same_key_tests = []
        for n2, c2 in attr_rm:
            if isinstance(c2, ast.Call) and c2.args:
                for b in fa.facts.branch_facts(n2):
                    t = b.test
                    if isinstance(t, ast.Compare) and len(t.ops) == 1 and isinstance(t.ops[0], ast.In) and b.polarity \
                            and unparse(t.comparators[0]).endswith("__dict__") and unparse(t.left) == unparse(c2.args[0]):
                        same_key_tests.append(b.pred[0][0])
        # a removal made for every declared field in a loop over the parser's fields: the loop is the removal point
        for n2, c2 in attr_rm:
            for b in fa.cfg.dominators().get(n2, set()):
                if b.kind == "branch" and b.is_for and b.polarity and ".fields" in unparse(b.stmt.iter):
                    same_key_tests.append(b.pred[0][0])
        for n, c in raw:
            reach = fa.cfg.reach_from_succ(n, kinds=(N,), avoid=[m for m, _ in attr_rm] + same_key_tests)
            ok = bool(attr_rm) and fa.cfg.exit not in reach
            run.check("R07i", f, f"`{unparse(c)[:45]}` is followed by the removal of the attribute on every path", ok,
                      construct=f"{name}: key removed, attribute kept",
                      message=f"Schema.{name}: `{unparse(c)[:60]}` removes the field's key from the mapping but a path to "
                              f"the exit leaves the field's value in the instance __dict__",
                      necessity="after s.pop('A') / del s.a / s.clear() the key is gone while s.a still answers the old "
                                "value: the attribute view and the key view disagree", node=c)
        # check-then-act agreement on the attribute storage
        for n, c in attr_rm:
            if not isinstance(c, ast.Call) or not c.args:
                continue
            popped = unparse(c.args[0])
            for a, p in fa.facts.atoms_at(n):
                if isinstance(a, ast.Compare) and len(a.ops) == 1 and isinstance(a.ops[0], ast.In) and p \
                        and unparse(a.comparators[0]).endswith("__dict__"):
                    tested = unparse(a.left)
                    run.check("R07i", f, f"the membership test guarding `{unparse(c)[:40]}` tests the key that is removed",
                              tested == popped, construct=f"{name}: tests {tested}, removes {popped}",
                              message=f"Schema.{name}: `{tested} in self.__dict__` guards `{unparse(c)}`: for a field whose "
                                      f"name (key / alias) differs from its attribute name the test is false and the "
                                      f"attribute is never removed",
                              necessity="a: int = Field(alias='A'): `del s.a` removes the key 'A' but s.a still answers 3",
                              node=c)


def check(run):
    run.rules_run += ["R07a", "R07b", "R07c", "R07d", "R07e", "R07f", "R07g", "R07h", "R07i"]
    run.explain("C07: (R07a) the dict subclass overrides every mutating method of dict; (R07b) every write to raw "
                "storage (super().__setitem__, dict.update, __dict__[k]=v) stores the result of a parse call; (R07c) "
                "every raw removal is dominated by the schema-immutable, field-immutable and is_required checks; "
                "(R07d) copy() binds fresh storage; (R07e) setter contexts are forced and handle_error honours "
                "force_error, and the parse result is tested against the sentinel before it is stored; (R07f) the "
                "dependants recomputation is reached after every store.")
    S = schema_class(run)
    run.rule(r07a, run, S)
    funcs = [S.methods[m] for m in S.methods] + setter_closures(run)
    funcs.append(run.repo.func("utype.parser.cls", "ClassParser.set_attributes"))
    run.rule(r07b, run, S, funcs)
    run.rule(r07c, run, S)
    run.rule(r07d, run, S)
    run.rule(r07e, run, S)
    run.rule(r07f, run, S)
    run.rule(r07g, run)
    run.rule(r07h, run, S)
    run.rule(r07i, run, S)
    # shared with C05: item assignment of an unknown key converts it with the declared addition type - which exists only if
    # every non-boolean addition policy was recorded as a type
    from . import c05
    run.rules_run.append("R05i")
    run.rule(c05.r05i, run)
    # shared with C13: `is_required` (which guards every removal, R07c) asks always_no_input; the static predicate must agree
    # with the dynamic one on every value-independent declaration, or a required field stops being required
    from . import c13
    run.rules_run.append("R13e")
    run.rule(c13.r13e, run)
