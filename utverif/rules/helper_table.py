"""Small shared helpers of the library as decision tables (round 8).

The functions below are tiny pure classifiers that many mechanisms lean on; the seeded regressions of rounds 4-7 that stayed
missed were mostly edits to them (`multi` tested with `type(f) in ...` or widened to abstract base classes, `is_local_var`
looking only at the last scope, `valid_attr` narrowed to ASCII, `apply()` dropping falsy constraints, a registration that
removes earlier entries).  No *shape* separates those edits from harmless ones, so each helper is interpreted by the
checker's own interpreter (absint.py; nothing of the library is imported or run) on one representative per **input class**
(a finite partition: exact built-in container / user subclass of it / text / bytes-like / mapping / scalar; a qualified name
with the `<locals>` marker in the last scope, in an earlier scope, nowhere; identifier classes; ...) and the answers are
compared with the row each dependent property needs.  Only rows whose other answer breaks a property are listed - each
row names the consequence.

  multi()            R12f  C12 (what is spread element-wise by the converters), C19
  copy_value()       R19f  C19 (a default is never shared: every mutable container reachable in it is rebuilt), C05
  is_local_var()     R17l  C17 (a class declared in a function body - at any nesting - is never cached across calls)
  valid_attr()       R15k  C15 (a property name that is a Python identifier is kept as the attribute name)
  apply()            R01g  C01, C02 (every constraint given to @apply reaches the rule, zero-valued ones included)
  register() effect  R16h  C16 (a registration adds one entry and removes none; order = priority, newest first)
"""
import importlib
import itertools

from ..absint import SAFE_MODULES, Closure, Interp, Obj, Raised
from ..model import AnalysisError


def stdlib_globals(module) -> dict:
    """the standard-library names the interpreted module imports (anywhere in it), restricted to the pure modules of
    absint.SAFE_MODULES; everything else stays an unknown name (exit 2 when the interpreted path needs it)"""
    out = {}
    for local, origin in (getattr(module, "imports", {}) or {}).items():
        parts = origin.split(".")
        if parts[0] not in SAFE_MODULES:
            continue
        obj = None
        for cut in range(len(parts), 0, -1):
            try:
                obj = importlib.import_module(".".join(parts[:cut]))
            except ImportError:
                continue
            try:
                for a in parts[cut:]:
                    obj = getattr(obj, a)
            except AttributeError:
                obj = None
            break
        if obj is not None:
            out[local] = obj
    return out


def inspect_model():
    """`inspect.isclass` over modelled classes (register() asserts it of every class criterion)"""
    return Obj("module inspect", isclass=lambda c: isinstance(c, type) or bool(isinstance(c, Obj) and c.__dict__.get("_is_class")))


def _interp(f, extra=None, methods=None):
    g = stdlib_globals(f.module)
    g.update(extra or {})
    return Interp(globals_=g, methods=methods or {}, module=f.module, max_steps=20000)


def _call(f, args, kwargs=None, extra=None, methods=None):
    ip = _interp(f, extra, methods)
    try:
        return ("ok", ip.call_function(f.node, tuple(args), dict(kwargs or {})))
    except Raised as r:
        return ("raise", r.cls)
    except RecursionError:
        raise AnalysisError(f"helper table: {f.qualname} does not terminate on the model")


# ---- representatives of the input classes ---------------------------------------------------------------------

class _L(list):
    pass


class _T(tuple):
    pass


class _S(set):
    pass


class _F(frozenset):
    pass


def _gen():
    yield 1


MULTI_ROWS = [
    # (label, value factory, expected, consequence of the other answer)
    ("an empty list", lambda: [], True, "an empty list default would be shared between instances"),
    ("a list", lambda: [1, 2], True, "list values are not spread / copied element-wise"),
    ("a tuple", lambda: (1, 2), True, "tuple values are not spread element-wise"),
    ("a set", lambda: {1, 2}, True, "set values are not spread / copied"),
    ("a frozenset", lambda: frozenset((1,)), True, "frozenset values are not spread"),
    ("a dict values view", lambda: {"a": 1}.values(), True, "`alias_from=d.values()` is taken as one alias"),
    ("a dict keys view", lambda: {"a": 1}.keys(), True, "`alias_from=d.keys()` is taken as one alias"),
    ("an instance of a user subclass of list", lambda: _L([1]), True,
     "a default of a list subclass is handed out uncopied: shared between instances (C19)"),
    ("an instance of a user subclass of tuple", lambda: _T(([1],)), True,
     "the mutable elements of a tuple-subclass default are shared between instances (C19)"),
    ("an instance of a user subclass of set", lambda: _S({1}), True,
     "a default of a set subclass is shared between instances (C19)"),
    ("an instance of a user subclass of frozenset", lambda: _F((1,)), True, "frozenset subclasses are not spread"),
    ("a str", lambda: "ab", False, "text is spread character by character"),
    ("an empty str", lambda: "", False, "text is spread character by character"),
    ("bytes", lambda: b"ab", False, "bytes are spread into integers instead of being decoded"),
    ("a bytearray", lambda: bytearray(b"ab"), False,
     "a bytearray source is spread into integers instead of being decoded (C12: conversions from bytes-like sources)"),
    ("a memoryview", lambda: memoryview(b"ab"), False,
     "a memoryview source is spread into integers instead of being decoded"),
    ("a dict", lambda: {"a": 1}, False, "a mapping is rebuilt from its keys (copy_value: dict([...]) raises)"),
    ("an int", lambda: 5, False, "a scalar is iterated: TypeError out of copy_value / the converters"),
    ("a float", lambda: 1.5, False, "a scalar is iterated"),
    ("True", lambda: True, False, "a scalar is iterated"),
    ("None", lambda: None, False, "None is iterated"),
]


def r_multi(run, rid="R12f"):
    """multi() classifies by *instance of* the six built-in multi-valued containers: exact instances and instances of user
    subclasses are multi-valued; text, bytes-like objects, mappings and scalars are not."""
    f = run.repo.func("utype.utils.functional", "multi")
    bad = []
    n = 0
    for label, make, want, why in MULTI_ROWS:
        n += 1
        st = _call(f, (make(),))
        got = bool(st[1]) if st[0] == "ok" else f"raises {st[1]}"
        if got != want:
            bad.append((label, got, want, why))
    run.check(rid, f, "multi() answers by instance-of for containers, user subclasses included, and rejects text, "
                      "bytes-like objects, mappings and scalars", not bad, construct="multi() input classes",
              message="multi(): " + "; ".join(f"for {l} it answers {g!r}, expected {w!r} ({why})" for l, g, w, why in bad[:3]),
              necessity="the converters, copy_value, the alias collection and distinct_add all branch on multi(): a class "
                        "answered differently is spread / copied differently everywhere at once")
    run.floor(rid, "input classes evaluated for multi()", n, 20)


def _mutable_paths(v, path=()):
    """(path, object) for every mutable container reachable through lists / tuples / dict values"""
    if isinstance(v, (list, set, dict)):
        yield path, v
    if isinstance(v, (list, tuple)):
        for i, x in enumerate(v):
            yield from _mutable_paths(x, path + (i,))
    elif isinstance(v, dict):
        for k, x in v.items():
            yield from _mutable_paths(x, path + (k,))


def _at(v, path):
    for p in path:
        v = v[p]
    return v


COPY_ROWS = [
    ("a list", lambda: [1, 2]),
    ("an empty list", lambda: []),
    ("a list of lists", lambda: [[1], [2, [3]]]),
    ("a dict holding a list", lambda: {"a": [1], "b": 2}),
    ("a dict holding a dict holding a list", lambda: {"a": {"b": [1]}}),
    ("a list holding a dict holding a set", lambda: [{"k": {1, 2}}]),
    ("a tuple holding a list", lambda: ([1], 2)),
    ("a set", lambda: {1, 2}),
    ("an instance of a list subclass", lambda: _L([1, 2])),
    ("a list holding an instance of a list subclass", lambda: [_L([1])]),
    ("a dict holding an instance of a list subclass", lambda: {"k": _L([1])}),
    ("an instance of a tuple subclass holding a list", lambda: _T(([1], 2))),
    ("an instance of a set subclass", lambda: _S({1})),
    ("a str", lambda: "text"),
    ("None", lambda: None),
    ("an int", lambda: 7),
]


def r_copy(run, rid="R19f"):
    """copy_value(default) is equal to the default, of the same type, and shares no mutable container with it at any
    depth (through lists, tuples, sets and dict values; user subclasses of the sequence types included)."""
    f = run.repo.func("utype.utils.functional", "copy_value")
    bad = []
    n = 0
    for label, make in COPY_ROWS:
        src = make()
        st = _call(f, (src,))
        n += 1
        if st[0] != "ok":
            bad.append((label, f"raises {st[1]}"))
            continue
        out = st[1]
        if isinstance(out, (Obj, Closure)):
            raise AnalysisError(f"helper table: copy_value returned a modelled object for {label}")
        if type(out) is not type(src) or out != src:
            bad.append((label, f"returns {out!r} ({type(out).__name__}) for {src!r} ({type(src).__name__})"))
            continue
        shared = [p for p, o in _mutable_paths(src) if _at(out, p) is o]
        if shared:
            where = "the value itself" if shared[0] == () else "the container at " + "".join(f"[{k!r}]" for k in shared[0])
            bad.append((label, f"hands out {where} uncopied"))
    run.check(rid, f, "copy_value rebuilds every mutable container reachable in a default (equal value, same type, no "
                      "shared container)", not bad, construct="copy_value sharing",
              message="copy_value: " + "; ".join(f"for {l} it {g}" for l, g in bad[:3]),
              necessity="get_default hands copy_value(default) to every instance / call: a shared container makes one "
                        "instance's mutation visible in the next (shared defaults)")
    run.floor(rid, "default shapes evaluated for copy_value", n, 14)


LOCAL_ROWS = [
    # (label, attributes, expected, consequence)
    ("a module-level class (`A`)", {"__qualname__": "A", "__name__": "A"}, False,
     "module-level classes lose the parser cache (a new parser per use)"),
    ("a class nested in a module-level class (`Outer.Inner`)", {"__qualname__": "Outer.Inner", "__name__": "Inner"}, False,
     "nested module-level classes lose the parser cache"),
    ("a class declared in a function (`f.<locals>.A`)", {"__qualname__": "f.<locals>.A", "__name__": "A"}, True,
     "a class re-created on every call is cached under the first call's object: references resolve to the stale class"),
    ("a class nested in a class declared in a function (`f.<locals>.Outer.Inner`)",
     {"__qualname__": "f.<locals>.Outer.Inner", "__name__": "Inner"}, True,
     "a self-referencing class inside a local class resolves its references against the first call's class"),
    ("a class declared in a method (`C.m.<locals>.A`)", {"__qualname__": "C.m.<locals>.A", "__name__": "A"}, True,
     "as for a function"),
    ("a class two functions deep (`f.<locals>.g.<locals>.A`)", {"__qualname__": "f.<locals>.g.<locals>.A", "__name__": "A"},
     True, "as for a function"),
    ("a class nested two classes deep in a function (`f.<locals>.A.B.C`)",
     {"__qualname__": "f.<locals>.A.B.C", "__name__": "C"}, True, "as for a function"),
    ("an object with only a __name__ (`A`)", {"__name__": "A"}, False, "as for a module-level class"),
]


def r_local(run, rid="R17l"):
    """is_local_var: an object is local iff its qualified name carries the `<locals>` marker in *any* scope."""
    f = run.repo.func("utype.utils.functional", "is_local_var")
    bad = []
    n = 0
    for label, attrs, want, why in LOCAL_ROWS:
        n += 1
        st = _call(f, (Obj("class", _is_class=True, **attrs),))
        got = bool(st[1]) if st[0] == "ok" else f"raises {st[1]}"
        if got != want:
            bad.append((label, got, want, why))
    run.check(rid, f, "an object is local iff `<locals>` occurs anywhere in its qualified name", not bad,
              construct="is_local_var scopes",
              message="is_local_var: " + "; ".join(f"for {l} it answers {g!r}, expected {w!r} ({why})" for l, g, w, why in bad[:3]),
              necessity="the parser cache and the forward-reference bookkeeping key on this answer: declaration inside a "
                        "function that runs twice behaves differently from the same declaration at module level")
    run.floor(rid, "qualified-name classes evaluated for is_local_var", n, 8)


ATTR_ROWS = [
    ("an ASCII identifier (`name`)", "name", True), ("an identifier with a leading underscore (`_x`)", "_x", True),
    ("an identifier with digits (`a1`)", "a1", True),
    ("a non-ASCII identifier (`café`)", "café", True), ("a CJK identifier (`名前`)", "名前", True),
    ("a keyword (`class`)", "class", False), ("a name starting with a digit (`1a`)", "1a", False),
    ("a name with a dash (`a-b`)", "a-b", False), ("a name with a space (`a b`)", "a b", False),
    ("the empty name", "", False), ("a name with a dot (`a.b`)", "a.b", False),
]


def r_attr(run, rid="R15k"):
    """valid_attr: exactly the Python identifiers that are not keywords (non-ASCII identifiers included)."""
    f = run.repo.func("utype.utils.functional", "valid_attr")
    bad = []
    n = 0
    for label, name, want in ATTR_ROWS:
        n += 1
        st = _call(f, (name,))
        got = bool(st[1]) if st[0] == "ok" else f"raises {st[1]}"
        if got != want:
            bad.append((label, got, want))
    run.check(rid, f, "valid_attr accepts exactly the non-keyword Python identifiers", not bad, construct="valid_attr classes",
              message="valid_attr: " + "; ".join(f"for {l} it answers {g!r}, expected {w!r}" for l, g, w in bad[:3]),
              necessity="property names of an object schema become attribute names: a rejected identifier is renamed to a "
                        "generated name (two such properties collide), an accepted non-identifier breaks class creation")
    run.floor(rid, "name classes evaluated for valid_attr", n, 11)


# constraint keyword -> zero-like value whose loss changes the verdict, truthy value
APPLY_ROWS = [
    ("gt", 0, "x > 0 no longer enforced"), ("ge", 0, "x >= 0 no longer enforced"), ("lt", 0, "x < 0 no longer enforced"),
    ("le", 0, "x <= 0 no longer enforced"), ("max_length", 0, "only the empty value was allowed"),
    ("length", 0, "only the empty value was allowed"), ("decimal_places", 0, "fractions were not allowed"),
    ("max_contains", 0, "no matching item was allowed"),
]
APPLY_TRUTHY = {"enum": (1, 2), "gt": 1, "ge": 1, "lt": 1, "le": 1, "min_length": 1, "max_length": 1, "length": 1,
                "regex": "a+", "max_digits": 3, "decimal_places": 2, "multiple_of": 3, "contains": "int-type",
                "max_contains": 2, "min_contains": 1, "unique_items": True}


def r_apply(run, rid="R01g"):
    """@apply(...) hands every constraint it was given - zero-valued bounds and lengths included, `const=None` / `0` /
    `False` included - to the rule under the same name; nothing it was not given is added."""
    f = run.repo.func("utype.decorator", "apply")
    bad = []
    n = 0
    for p in list(APPLY_TRUTHY) + ["const"]:
        run.check(rid, f, f"apply() takes the constraint `{p}`", p in f.params, construct=f"apply parameter {p}",
                  message=f"utype.apply has no `{p}` parameter")

    def one(kwargs, want, label, why=""):
        nonlocal n
        n += 1
        seen = []

        def annotate(_type, *a, constraints=None, **kw):
            seen.append(dict((a[0] if a else constraints) or {}))
            return Obj("class Rule", _is_class=True, __name__="Rule", __repr__="r", __str__="s")
        rule_cls = Obj("class Rule", _is_class=True, annotate=annotate)
        unprov = Obj("Unprovided", _truth=False)     # utils/datastructures.Unprovided: falsy, unprovided(v) tests v
        unprov.__dict__["_call"] = lambda v: isinstance(v, Obj) and v._cls == "Unprovided"
        extra = {"Unprovided": "Unprovided", "unprovided": unprov, "Lax": lambda v: ("Lax", v), "Rule": rule_cls,
                 "exc": Obj("module exc", ConfigError="ConfigError")}
        kw = dict(kwargs)
        if "const" not in kw:
            kw["const"] = unprov
        ip = _interp(f, extra)
        try:
            deco = ip.call_function(f.node, (rule_cls,), kw)
            deco(Obj("class int", _is_class=True, __name__="int", __repr__="r", __str__="s"))
        except Raised as r:
            bad.append((label, f"raises {r.cls}", why))
            return
        if len(seen) != 1:
            raise AnalysisError("helper table: apply() does not build the rule through rule_cls.annotate(type, constraints=...)")
        if seen[0] != want:
            bad.append((label, f"passes {seen[0]!r}, expected {want!r}", why))

    one({}, {}, "no constraint")
    for k, v in APPLY_TRUTHY.items():
        one({k: v}, {k: v}, f"{k}={v!r}")
    for k, v, why in APPLY_ROWS:
        one({k: v}, {k: v}, f"{k}={v!r}", why)
    for v in (None, 0, False, ""):
        one({"const": v}, {"const": v}, f"const={v!r}", "the constant is no longer enforced")
    one({"ge": 0, "le": 0}, {"ge": 0, "le": 0}, "ge=0, le=0", "both bounds lost")
    one({"round": 2}, {"decimal_places": ("Lax", 2)}, "round=2")
    run.check(rid, f, "every constraint given to @apply reaches the rule unchanged (zero-valued ones included)", not bad,
              construct="apply() constraint forwarding",
              message="utype.apply: " + "; ".join(f"with {l} it {g}" + (f" ({w})" if w else "") for l, g, w in bad[:3]),
              necessity="a constraint dropped at declaration is never enforced: values outside the declared type are "
                        "accepted and returned")
    run.floor(rid, "constraint declarations evaluated for apply()", n, 30)


def r_register(run, C, rid="R16h"):
    """the effect of one registration on the registry, as a table: register(...)(f) is interpreted on registries that
    already hold entries (among them one for the *same function* and one made with the *same classes*), for priorities
    below / equal / above the existing ones.  Afterwards the registry must hold every earlier entry (identical tuples,
    relative order kept) plus exactly one new entry (detector, f, priority), placed before every entry of lower or equal
    priority and after every entry of higher priority; the memo of resolve() must be empty."""
    reg = run.repo.func("utype.utils.base", "TypeRegistry.register")
    methods = {m.name: m.node for m in C.methods.values()}
    A = Obj("class A", _is_class=True)
    B = Obj("class B", _is_class=True)
    bad = {}
    n = 0
    prios = (0, 1, 2)
    depth = 4 if run.thorough else 3
    existing_sets = []
    for k in range(0, depth + 1):
        existing_sets += list(itertools.product(prios, repeat=k))
    for ex in existing_sets:
        for new_prio in prios:
            for same_fn in (False, True):
                for use_detector in (False, True):
                    ex_sorted = sorted(ex, key=lambda p: -p)      # a registry is always kept in priority order
                    old = [(f"detector{i}", "the-function" if (same_fn and i == 0) else f"fn{i}", p)
                           for i, p in enumerate(ex_sorted)]
                    self_ = Obj("TypeRegistry", validator=lambda fn: True, _registry=list(old), _cache={"stale": 1},
                                _lock=Obj("lock"), cache=True, name="registry", shortcut=None, base=None, default=None)
                    ip = Interp(globals_=dict(stdlib_globals(reg.module), inspect=inspect_model()), methods=methods,
                                module=reg.module, max_steps=20000)
                    kw = dict(priority=new_prio)
                    args = (self_, A)
                    if use_detector:
                        kw["detector"] = "given-detector"
                        args = (self_,)
                    n += 1
                    label = (f"registry priorities {list(ex_sorted)}, new priority {new_prio}, "
                             f"{'the same function registered again' if same_fn and ex else 'a new function'}, "
                             f"{'explicit detector' if use_detector else 'class criterion'}")
                    try:
                        deco = ip.call_function(reg.node, args, kw)
                        ret = deco("the-function")
                    except Raised as r:
                        bad.setdefault("a valid registration is accepted", (label, f"raises {r.cls}"))
                        continue
                    if ret != "the-function":
                        bad.setdefault("the decorator returns the function", (label, f"returns {ret!r}"))
                    now = list(self_._registry)
                    if any(not (isinstance(e, tuple) and len(e) == 3) for e in now):
                        raise AnalysisError("helper table: registry entries are no longer (detector, function, priority)")
                    new = [e for e in now if not any(e is o for o in old)]
                    kept = [e for e in now if any(e is o for o in old)]
                    if len(kept) != len(old) or any(a is not b for a, b in zip(kept, old)):
                        bad.setdefault("every earlier entry is kept, in its order",
                                       (label, f"{len(old) - len(kept)} earlier entr{'y' if len(old) - len(kept) == 1 else 'ies'} "
                                               f"dropped or reordered"))
                        continue
                    if len(new) != 1:
                        bad.setdefault("one registration adds exactly one entry", (label, f"{len(new)} new entries"))
                        continue
                    e = new[0]
                    if e[1] != "the-function" or e[2] != new_prio or (use_detector and e[0] != "given-detector"):
                        bad.setdefault("the new entry is (detector, function, priority)", (label, f"entry {e[1:]!r}"))
                        continue
                    pos = next(i for i, x in enumerate(now) if x is e)
                    want = sum(1 for p in ex_sorted if p > new_prio)
                    if pos != want:
                        bad.setdefault("the new entry precedes entries of lower or equal priority and follows higher ones",
                                       (label, f"placed at position {pos}, expected {want}"))
                        continue
                    if self_._cache:
                        bad.setdefault("the resolve memo is emptied", (label, "memo kept"))
    # sequences of registrations all made through the interpreted register(): same / different class criterion, same /
    # different function, every priority - the registry lists them by priority, newest first among equals, none missing
    steps = list(itertools.product(("A", "B"), prios, ("f", "g")))
    for seq in itertools.product(steps, repeat=3 if run.thorough else 2):
        self_ = Obj("TypeRegistry", validator=lambda fn: True, _registry=[], _cache={}, _lock=Obj("lock"), cache=True,
                    name="registry", shortcut=None, base=None, default=None)
        ip = Interp(globals_=dict(stdlib_globals(reg.module), inspect=inspect_model()), methods=methods, module=reg.module,
                    max_steps=40000)
        n += 1
        label = "registrations " + ", then ".join(f"({c}, priority={p}) -> {fn}" for c, p, fn in seq)
        try:
            for c, p, fn in seq:
                ip.call_function(reg.node, (self_, A if c == "A" else B), dict(priority=p))(fn)
        except Raised as r:
            bad.setdefault("a valid registration is accepted", (label, f"raises {r.cls}"))
            continue
        want = []
        for c, p, fn in seq:
            k = sum(1 for e in want if e[1] > p)
            want.insert(k, (fn, p))
        got = [(e[1], e[2]) for e in self_._registry]
        if got != want:
            bad.setdefault("a sequence of registrations is listed by priority, newest first among equals, none missing",
                           (label, f"registry lists {got!r}, expected {want!r}"))
    run.check(rid, reg, "a registration adds one entry at its priority position, keeps every earlier entry and empties the memo",
              not bad, construct="registration effect",
              message="TypeRegistry.register: " + "; ".join(f"[{k}] with {v[0]}: {v[1]}" for k, v in sorted(bad.items())[:3]),
              necessity="resolution scans the registry in order: a dropped, duplicated or misplaced entry changes which "
                        "converter answers for types registered earlier")
    run.floor(rid, "registration scenarios evaluated", n, 80)
