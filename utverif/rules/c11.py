"""C11 - exclude/preserve policies touch only the offending elements.

R11a policy matrix of every conversion handler   R11b required fields are never excluded   (+ R04c protocol conformance)
"""
import ast
from typing import Dict, List, Optional, Set, Tuple

from ..cfg import analysis, FuncAnalysis, Node, N, E, is_handle_error_call
from ..lib import prov, is_convert_call, convert_value_arg, handler_nodes, try_of_handler, exception_family, opt_attr
from ..model import AnalysisError, FuncInfo, call_attr, kwarg, unparse, walk_shallow, norm_stmt, names_in
from . import c04

POLICY_ATTRS = ("invalid_items", "invalid_keys", "invalid_values")
# sites that by position semantics offer no EXCLUDE (a fixed-length tuple cannot drop a position)
NO_EXCLUDE = {"utype.parser.rule:Rule._parse_tuple_args": "fixed-length tuple: positions cannot be dropped"}


def policy_of_test(fa: FuncAnalysis, n: Node, test) -> Optional[Tuple[str, str]]:
    """(policy source, literal) for `X == options.EXCLUDE` where X is options.invalid_* or a local bound to a policy"""
    if not (isinstance(test, ast.Compare) and len(test.ops) == 1 and isinstance(test.ops[0], ast.Eq)):
        return None
    l, r = test.left, test.comparators[0]
    lit = opt_attr(r)
    if lit not in ("EXCLUDE", "PRESERVE", "THROW"):
        return None
    a = opt_attr(l)
    if a in POLICY_ATTRS:
        return a, lit
    if isinstance(l, ast.Name):
        os_ = prov(fa).of_name(n, l.id)
        srcs = set()
        for o in os_:
            if o.kind == "call" and o.text.split(".")[-1] == "get_on_error":
                srcs.add("on_error/invalid_values")
            elif o.kind == "attr" and (o.text.endswith("on_error") or o.text.split(".")[-1] in POLICY_ATTRS):
                srcs.add("on_error/invalid_values")
            elif o.kind == "const":
                continue
            else:
                srcs.add("?")
        if srcs == {"on_error/invalid_values"}:
            return "on_error/invalid_values", lit
    return None


def policy_test_norm(fa: FuncAnalysis, n: Node, test):
    """(policy source, literal, polarity of the arm in which the policy holds) for a test written in either direction:
    `x == P`, `not x == P`, `x != P`"""
    pol = True
    while isinstance(test, ast.UnaryOp) and isinstance(test.op, ast.Not):
        test, pol = test.operand, not pol
    if isinstance(test, ast.Compare) and len(test.ops) == 1 and isinstance(test.ops[0], ast.NotEq):
        test = ast.Compare(left=test.left, ops=[ast.Eq()], comparators=test.comparators)
        pol = not pol
    p = policy_of_test(fa, n, test)
    return (p[0], p[1], pol) if p else None


def policy_holds(fa: FuncAnalysis, n: Node, lit: str) -> bool:
    """some dominating test establishes that the consulted policy *is* `lit` at n (written as `x == P` taken, or
    `x != P` not taken)"""
    for a, p in fa.facts.atoms_at(n):
        pn = policy_test_norm(fa, n, a)
        if pn and pn[1] == lit and bool(p) == pn[2]:
            return True
    return False


class Site:
    def __init__(self, f, fa, h, convert_node, convert_call):
        self.f, self.fa, self.h, self.cn, self.cc = f, fa, h, convert_node, convert_call


def sites(run) -> List[Site]:
    out = []
    seen = set()
    for f in c04.in_scope_functions(run):
        fa = analysis(f)
        for n, c in fa.all_calls():
            if not is_convert_call(fa, n, c):
                continue
            for s, k in n.succ:
                if k == E and s.kind == "handler" and id(s.handler) not in seen:
                    hn = handler_nodes(fa, s.handler)
                    if any(m.kind == "test" and policy_test_norm(fa, m, m.ast) for m in hn):
                        seen.add(id(s.handler))
                        out.append(Site(f, fa, s.handler, n, c))
    return out


def result_stores(fa: FuncAnalysis) -> List[Tuple[Node, ast.AST]]:
    """stores into the container(s) the function returns: (node, stored expression)"""
    ret_vars = set()
    for n in fa.cfg.nodes:
        if n.kind == "stmt" and isinstance(n.ast, ast.Return) and fa.cfg.is_live(n):
            v = n.ast.value
            inner = v.args[0] if isinstance(v, ast.Call) and len(v.args) == 1 and not isinstance(v.args[0], ast.Starred) else v
            if isinstance(inner, ast.Name):
                ret_vars.add(inner.id)
    out = []
    for n in fa.cfg.nodes:
        if n.kind != "stmt":
            continue
        for c in fa.calls_at(n):
            if isinstance(c.func, ast.Attribute) and isinstance(c.func.value, ast.Name) and c.func.value.id in ret_vars \
                    and c.func.attr in ("append", "add", "extend", "insert") and c.args:
                out.append((n, c.args[-1]))
        if isinstance(n.ast, ast.Assign):
            for t in n.ast.targets:
                if isinstance(t, ast.Subscript) and isinstance(t.value, ast.Name) and t.value.id in ret_vars:
                    out.append((n, n.ast.value))
                    out.append((n, t.slice))
    # a value-returning helper (`return value`) is not a container store
    return out


def r11a(run):
    from . import args_table
    args_table.emit(run, "R11a")             # the sequence / mapping element parsers: decided on their decision tables
    ss = [s for s in sites(run) if s.f.name not in args_table.TABLE_FUNCS]
    run.floor("R11a", "policy handlers in the parse core (outside the element-parser tables)", len(ss), 4)
    fam = exception_family(run.repo)
    for s in ss:
        f, fa, h = s.f, s.fa, s.h
        hn = handler_nodes(fa, h)
        hset = set(hn)
        tests = {}
        tpol = {}       # literal -> polarity of the branch in which the policy holds (`if not (x == P): ... else:` -> False)
        for m in hn:
            if m.kind == "test":
                p = policy_test_norm(fa, m, m.ast)
                if p:
                    tests[p[1]] = (m, p[0])
                    tpol[p[1]] = p[2]
        stores = result_stores(fa)
        is_container = any(fa.cfg.can_reach(s.cn, n) or n is s.cn for n, e in stores)
        raw_text = unparse(convert_value_arg(s.cc))
        label = f"{f.qualname} handler for `{unparse(s.cc)[:50]}`"
        loop_heads = [m for m in fa.cfg.nodes if m.kind == "iter"]

        def region(branch: Node) -> Set[Node]:
            return fa.cfg.reach_from_succ(branch, kinds=(N,), avoid=loop_heads) | {branch}

        def branch_of(test_node: Node, pol: bool) -> Optional[Node]:
            for x, k in test_node.succ:
                if x.kind == "branch" and x.polarity == pol:
                    return x
            return None

        def calls_in(nodes, name) -> List[ast.Call]:
            return [c for m in nodes if m in hset for c in fa.calls_at(m) if call_attr(c) == name]

        # --- EXCLUDE
        if "EXCLUDE" in tests:
            tn, src = tests["EXCLUDE"]
            b = branch_of(tn, tpol["EXCLUDE"])
            reg = region(b)
            dom = [m for m in hn if fa.cfg.dominates(b, m)]
            warn = calls_in(dom, "collect_waring")
            he = [c for c in calls_in(dom, "handle_error")]
            # the only handle_error allowed under EXCLUDE is the required-field one (R11b)
            he = [c for c in he if not any(
                unparse(a).startswith("self.is_required(") and p
                for m in dom for c2 in fa.calls_at(m) if c2 is c for a, p in fa.facts.atoms_at(m))]
            run.check("R11a", f, f"{label}: EXCLUDE warns and does not raise", bool(warn) and not he,
                      construct=f"EXCLUDE branch of {unparse(s.cc)[:60]}",
                      message=f"{label}: under the exclude policy the handler "
                              + ("does not issue the warning" if not warn else "hands the error to handle_error"),
                      necessity="an excluded element must be dropped silently (with a warning), not fail the parse", node=tn.ast)
            if is_container:
                kept = [(n, e) for n, e in stores if n in reg]
                run.check("R11a", f, f"{label}: EXCLUDE stores nothing for the offending element", not kept,
                          construct=f"EXCLUDE stores the element: {unparse(s.cc)[:60]}",
                          message=f"{label}: after the exclude branch `{norm_stmt(kept[0][0].ast) if kept else ''}` still "
                                  f"stores an element for the failed position",
                          necessity="the offending element stays in the result (raw or stale) instead of being removed",
                          node=kept[0][0].ast if kept else tn.ast)
            else:
                rets = [m for m in reg if m.kind == "stmt" and isinstance(m.ast, ast.Return)]
                bad = []
                for r in rets:
                    v = r.ast.value
                    t = unparse(v)
                    if t == "unprovided" or (isinstance(v, ast.Call) and call_attr(v) == "get_default"):
                        continue
                    bad.append(r)
                run.check("R11a", f, f"{label}: EXCLUDE returns the sentinel (or the default)", bool(rets) and not bad,
                          construct=f"EXCLUDE returns a value: {unparse(s.cc)[:60]}",
                          message=f"{label}: under the exclude policy the function can return "
                                  f"`{unparse(bad[0].ast.value) if bad else '?'}` instead of the unprovided sentinel",
                          necessity="the offending field / key / argument is kept instead of being dropped",
                          node=bad[0].ast if bad else tn.ast)
        else:
            ok = f.ref in NO_EXCLUDE
            run.check("R11a", f, f"{label}: no EXCLUDE branch ({NO_EXCLUDE.get(f.ref, 'not in the exemption table')})", ok,
                      construct=f"missing EXCLUDE branch: {unparse(s.cc)[:60]}",
                      message=f"{label}: the handler has no branch for the exclude policy",
                      necessity="with invalid_*='exclude' an offending element raises instead of being removed", node=h)
        # --- PRESERVE
        if "PRESERVE" in tests:
            tn, src = tests["PRESERVE"]
            b = branch_of(tn, tpol["PRESERVE"])
            reg = region(b)
            dom = [m for m in hn if fa.cfg.dominates(b, m)]
            warn = calls_in(dom, "collect_waring")
            he = calls_in(dom, "handle_error")
            run.check("R11a", f, f"{label}: PRESERVE warns and does not raise", bool(warn) and not he,
                      construct=f"PRESERVE branch of {unparse(s.cc)[:60]}",
                      message=f"{label}: under the preserve policy the handler "
                              + ("does not issue the warning" if not warn else "hands the error to handle_error"),
                      necessity="a preserved element must not fail the parse", node=tn.ast)
            if is_container:
                kept = []
                for n, e in stores:
                    if n not in reg:
                        continue
                    txt = unparse(e)
                    if txt == raw_text:
                        kept.append(n)
                    elif isinstance(e, ast.Name):
                        # val = _val  (raw copied into the stored variable inside the branch)
                        ds = fa.rd.defs_of(n, e.id)
                        if any(d in dom and isinstance(d.ast, ast.Assign) and unparse(d.ast.value) == raw_text for d in ds):
                            kept.append(n)
                run.check("R11a", f, f"{label}: PRESERVE stores the raw offending element `{raw_text}`", bool(kept),
                          construct=f"PRESERVE drops or alters the element: {unparse(s.cc)[:60]}",
                          message=f"{label}: under the preserve policy no store of the raw element `{raw_text}` is reached",
                          necessity="the offending element is lost (or replaced) instead of being put back unchanged",
                          node=tn.ast)
            else:
                rets = [m for m in reg if m.kind == "stmt" and isinstance(m.ast, ast.Return)]
                good = []
                for r in rets:
                    v = r.ast.value
                    if isinstance(v, ast.Name) and v.id == raw_text:
                        # the variable still holds the raw input on this path (the failed assignment did not happen)
                        ds = fa.rd.defs_of(r, v.id)
                        if any(d is fa.cfg.entry for d in ds):
                            good.append(r)
                run.check("R11a", f, f"{label}: PRESERVE returns the raw value `{raw_text}`", bool(rets) and len(good) == len(rets),
                          construct=f"PRESERVE does not return the raw value: {unparse(s.cc)[:60]}",
                          message=f"{label}: under the preserve policy the function returns "
                                  + ", ".join(f"`{unparse(r.ast.value)}`" for r in rets if r not in good)
                                  + f" instead of the raw `{raw_text}`",
                          necessity="the offending value is dropped or replaced instead of preserved", node=tn.ast)
        else:
            run.check("R11a", f, f"{label}: has a PRESERVE branch", False,
                      construct=f"missing PRESERVE branch: {unparse(s.cc)[:60]}",
                      message=f"{label}: the handler has no branch for the preserve policy",
                      necessity="with invalid_*='preserve' an offending element raises instead of being kept", node=h)
        # --- default: throw
        last = None
        for lit in ("PRESERVE", "EXCLUDE"):
            if lit in tests:
                tn = tests[lit][0]
                if last is None or fa.cfg.dominates(last, tn):
                    last = tn
        if last is not None:
            negs = [m for m in hn if all(
                any(b.pred[0][0] is tests[l][0] and b.polarity != tpol[l] for b in fa.facts.branch_facts(m))
                for l in tests)]
            he = []
            for m in negs:
                for c in fa.calls_at(m):
                    if is_handle_error_call(c) and c.args:
                        he.append((m, c))
            ok = bool(he) and all(c04.is_family_expr(fa, m, c.args[0], fam) for m, c in he)
            run.check("R11a", f, f"{label}: the default policy hands a ParseError to handle_error", ok,
                      construct=f"default policy of {unparse(s.cc)[:60]}",
                      message=f"{label}: with neither exclude nor preserve the handler does not report a ParseError",
                      necessity="under the default 'throw' policy an offending element must fail the parse", node=h)
        # the policy attribute matches the element kind
        expected = {"_parse_seq_args": {"invalid_items"}, "_parse_tuple_args": {"invalid_items"},
                    "parse_pos_type": {"invalid_items"}, "parse_addition": {"invalid_values"},
                    "parse_value": {"on_error/invalid_values"}, "parse_output_value": {"on_error/invalid_values"}}
        used = {src for (tn, src) in tests.values()}
        if f.name == "_parse_map_args":
            # the element kind by role: the converted value is the key (first) or the value (second) element of the
            # `.items()` loop target
            kind = "invalid_values"
            for b_ in fa.cfg.dominators()[s.cn]:
                if b_.kind == "branch" and b_.is_for and b_.polarity and isinstance(b_.stmt.target, ast.Tuple) \
                        and len(b_.stmt.target.elts) == 2 and unparse(b_.stmt.target.elts[0]) == raw_text:
                    kind = "invalid_keys"
            exp = {kind}
        else:
            exp = expected.get(f.name)
        if exp is not None:
            run.check("R11a", f, f"{label}: consults the policy for its element kind ({'/'.join(sorted(exp))})", used == exp,
                      construct=f"policy attribute of {unparse(s.cc)[:60]}",
                      message=f"{label}: the handler consults {sorted(used)} instead of {sorted(exp)}",
                      necessity="e.g. invalid_keys='exclude' would drop entries with invalid *values*", node=h)


def r11c(run):
    """error isolation: the conversion guarded by a policy handler runs on a child context"""
    ss = sites(run)
    for s in ss:
        f, fa, c = s.f, s.fa, s.cc
        base = c.func
        while isinstance(base, ast.Attribute):
            base = base.value
        ok = False
        what = unparse(c.func)
        if isinstance(base, ast.Name):
            os_ = prov(fa).of_name(s.cn, base.id)
            # the receiver (or the transformer it was taken from) comes from `with <ctx>.enter(...) as <name>`
            def child(o, depth=0):
                if o.kind == "with" and ".enter(" in o.text:
                    return True
                if o.kind == "attr" and o.base and depth < 3:
                    return all(child(b, depth + 1) for b in o.base)
                return False
            ok = bool(os_) and all(child(o) for o in os_)
        run.check("R11c", f, f"`{what}` (guarded by an exclude/preserve policy) runs on a child context", ok,
                  construct="policy-guarded conversion on the caller's context",
                  message=f"{f.qualname}: `{unparse(c)[:70]}` converts with the caller's own context; a nested constrained "
                          f"type records its failure there before raising",
                  necessity="the offending element is excluded / preserved by the handler, but its error stays in the "
                            "owner's context: the final raise_error() fails the whole parse although the policy says the "
                            "parse succeeds without the element", node=c)
    run.floor("R11c", "policy-guarded conversions", len(ss), 8)


def r11d(run):
    """an excluded field value falls back to what the field would have without the key: its default"""
    f = run.repo.func("utype.parser.field", "ParserField.parse_value")
    fa = analysis(f)
    rets = []
    for n in fa.cfg.nodes:
        if n.kind == "stmt" and isinstance(n.ast, ast.Return) and fa.cfg.is_live(n):
            if policy_holds(fa, n, "EXCLUDE"):
                rets.append(n)
    # also: paths of the EXCLUDE branch that leave it without returning
    tests = [m for m in fa.cfg.nodes if m.kind == "test" and policy_test_norm(fa, m, m.ast)
             and policy_test_norm(fa, m, m.ast)[1] == "EXCLUDE"]
    run.floor("R11d", "EXCLUDE tests in parse_value", len(tests), 1)
    for t in tests:
        tb = [s_ for s_, k in t.succ if s_.kind == "branch" and s_.polarity == policy_test_norm(fa, t, t.ast)[2]]
        body = fa.cfg.reach_from_succ(tb[0], kinds=(N,)) | {tb[0]} if tb else set()
        exits = [m for m in body if m.kind == "stmt" and isinstance(m.ast, ast.Return) and policy_holds(fa, m, "EXCLUDE")]
        falls = [m for m in body if m.kind == "stmt" and isinstance(m.ast, ast.Return) and m not in exits]
        ok = bool(exits) and all(isinstance(m.ast.value, ast.Call) and call_attr(m.ast.value) == "get_default" for m in exits) \
            and not falls
        run.check("R11d", f, "under EXCLUDE parse_value hands back the field's default (or the no-default sentinel)", ok,
                  construct="excluded value does not fall back to the default",
                  message="ParserField.parse_value: the EXCLUDE branch " + (
                      "falls through to `" + norm_stmt(falls[0].ast) + "`" if falls else
                      "returns " + ", ".join(sorted({unparse(m.ast.value)[:40] for m in exits})))
                      + " instead of self.get_default(...)",
                  necessity="the result of the exclude policy must equal strict parsing of the input with the offending "
                            "key removed, i.e. the default; a caller-side fallback is missing in the data-first strategy, "
                            "so the excluded field's default disappears there", node=t.ast)


def r11e(run):
    """a retry stage of the union must *fail* on an element it cannot convert under its stricter flags, not exclude or
    preserve it: otherwise the stage 'succeeds' with elements missing / unconverted that the caller's own options convert"""
    from . import c18
    f, table, stages = c18.union_stages(run)
    run.floor("R11e", "union retry stages", len(stages), 2)
    for sg, var, fl, lowered, extra, entered in stages:
        kws = dict(sg)
        missing = [p for p in POLICY_ATTRS if kws.get(p) != "throw"]
        run.check("R11e", f, f"stage `{var}` switches the exclude / preserve policies off", not missing,
                  construct=f"union stage [{'+'.join(sorted(fl))}] keeps the caller's exclude/preserve policies",
                  message=f"the retry stage `{var}` raises {sorted(fl)} but leaves {missing} as the caller set them: an "
                          f"element that only fails because of the stage's stricter flags is excluded / preserved and the "
                          f"stage reports success",
                  necessity="Optional[List[int]] given ['1', 2, 'x'] under invalid_items='exclude' returns [2] (the "
                            "convertible '1' is dropped by the strict stage) while List[int] returns [1, 2]; under "
                            "'preserve' it returns ['1', 2, 'x'] with '1' unconverted")


def r11b(run):
    f = run.repo.func("utype.parser.field", "ParserField.parse_value")
    fa = analysis(f)
    ok = False
    for n, c in fa.all_calls():
        if is_handle_error_call(c):
            req = any(isinstance(a, ast.Call) and call_attr(a) == "is_required" and unparse(a.func.value) == "self" and p
                      for a, p in fa.facts.atoms_at(n))
            if policy_holds(fa, n, "EXCLUDE") and req:
                ok = True
    run.check("R11b", f, "a required field is never silently excluded (EXCLUDE + is_required -> handle_error)", ok,
              construct="required field excluded", message="parse_value no longer raises for a required field under "
              "the exclude policy", necessity="a required field would silently disappear from the result")
    g = run.repo.func("utype.parser.field", "Field.__init__")
    ok2 = any(isinstance(x, ast.Raise) for n in analysis(g).cfg.nodes if n.kind == "stmt" and isinstance(n.ast, ast.Raise)
              for x in [n.ast]
              if {("required", True), ("on_error == 'exclude'", True)} <= {(unparse(a), p) for a, p in analysis(g).facts.atoms_at(n)})
    run.check("R11b", g, "declaring required=True with on_error='exclude' is a ConfigError", ok2,
              construct="required+exclude declaration", message="Field.__init__ accepts required fields with on_error='exclude'")


def r11g(run):
    """the per-field policy that parse_value consults (self.on_error through get_on_error) is the one declared on the
    field's own (input) Field, not on another declaration object of the same attribute"""
    f = run.repo.func("utype.parser.field", "ParserField.__init__")
    fa = analysis(f)
    sets = [n for n in fa.cfg.nodes if n.kind == "stmt" and isinstance(n.ast, ast.Assign)
            and unparse(n.ast.targets[0]) == "self.on_error"]
    run.floor("R11g", "assignments of the per-field error policy", len(sets), 1)
    for n in sets:
        srcs = {unparse(x) for x in ast.walk(n.ast.value) if isinstance(x, ast.Attribute) and x.attr == "on_error"}
        ok = srcs == {"self.field.on_error"} and not isinstance(n.ast.value, ast.IfExp)
        run.check("R11g", f, "the field's input error policy comes from its own Field declaration", ok,
                  construct="per-field policy taken from another declaration",
                  message=f"ParserField.__init__: `{norm_stmt(n.ast)[:80]}` reads {sorted(srcs)}: the policy applied to "
                          f"input values is not (only) the one declared on the field's input Field",
                  necessity="a property whose getter and setter carry different on_error policies excludes / preserves "
                            "invalid input by the getter's policy: on_error='exclude' on the setter raises instead",
                  node=n.ast)
    g = run.repo.func("utype.parser.field", "ParserField.get_on_error")
    ga = analysis(g)
    rets = [unparse(n.ast.value) for n in ga.cfg.nodes if n.kind == "stmt" and isinstance(n.ast, ast.Return) and ga.cfg.is_live(n)]
    ok = "self.on_error" in rets and any(opt_attr(n.ast.value) == "invalid_values" for n in ga.cfg.nodes
                                         if n.kind == "stmt" and isinstance(n.ast, ast.Return))
    run.check("R11g", g, "get_on_error: the field's own policy first, the options' invalid_values otherwise", ok,
              construct="get_on_error precedence", message=f"ParserField.get_on_error returns {rets}")


def check(run):
    run.rules_run += ["R11a", "R11b", "R11c", "R11d", "R11e", "R11g", "R04c", "R10f", "R10h"]
    run.explain("C11: every catch-all handler around a conversion that consults an exclude/preserve policy (directly or "
                "through a local bound to get_on_error / on_error) is partitioned by the policy literal: EXCLUDE warns, "
                "never raises, and no store of the element / no value return is reachable; PRESERVE warns, never raises, "
                "and a store / return of exactly the raw element that failed is reached; otherwise a ParseError goes to "
                "handle_error; the policy attribute matches the element kind (R11a). Required fields raise under EXCLUDE "
                "(R11b). Element parsers only apply operations every dispatched container type supports (R04c).")
    run.rule(r11a, run)
    run.rule(r11b, run)
    run.rule(r11c, run)
    run.rule(r11d, run)
    run.rule(r11e, run)
    run.rule(r11g, run)
    from . import c10
    run.rule(c10.r10f, run)
    run.rule(c10.r10h, run)
    run.rule(c04.r04c, run)
    from . import c10 as _c10
    run.rules_run.append("R11h")
    run.rule(_c10.option_defaults, run, "R11h", {'invalid_items': "'throw'", 'invalid_keys': "'throw'", 'invalid_values': "'throw'"}, "offending elements fail the parse unless a policy says otherwise")
