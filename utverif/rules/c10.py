"""C10 - collecting errors changes reporting only, never the verdict or the value.

R10a fall-through safety at every non-forced handle_error site   R10b flush discipline of context owners
R10c cap (max_errors) placement and relation                     R10d collect_errors is decided in one place
"""
import ast
from typing import Dict, List, Set, Tuple

from ..cfg import analysis, FuncAnalysis, Node, N, E, is_handle_error_call, is_forced, stmt_call, decompose
from ..lib import prov, call_index, handler_nodes, try_of_handler, enclosing_handler, opt_attr
from ..model import AnalysisError, FuncInfo, call_attr, kwarg, unparse, walk_shallow, norm_stmt, names_in
from . import c04

OWNERS = [
    ("utype.parser.rule", "Rule.parse"),
    ("utype.parser.rule", "LogicalType.logical_parse"),
    ("utype.parser.base", "BaseParser.__call__"),
    ("utype.parser.func", "FunctionParser.parse_params"),
]


def validate_policy(run):
    """the CFG's model of handle_error / raise_error is read off RuntimeContext's own source"""
    f = run.repo.func("utype.parser.options", "RuntimeContext.handle_error")
    if "force_raise" not in f.params:
        raise AnalysisError("RuntimeContext.handle_error has no force_raise parameter: the CFG policy is stale")
    he, g, rows_h, rows_r = context_tables(run)
    bad = _handle_error_mismatches(rows_h)
    run.floor("R10-policy", "rows of the handle_error decision table", len(rows_h), 300)
    w = bad.get("force_raise")
    run.check("R10-policy", f, "handle_error raises the error itself whenever force_raise is set (decision table)", w is None,
              construct="force_raise does not force the raise",
              message="RuntimeContext.handle_error does not raise unconditionally under force_raise=True"
                      + (f": for [{w[0]}] it {w[1]!r}, expected: {w[2]}" if w else ""),
              necessity="callers rely on force_raise=True never returning (they use the failed value afterwards)")
    w = bad.get("fail-fast")
    run.check("R10-policy", f, "handle_error raises the error itself when errors are not collected (decision table)", w is None,
              construct="fail-fast mode does not raise the error",
              message="RuntimeContext.handle_error does not raise the error at once with collect_errors off"
                      + (f": for [{w[0]}] it {w[1]!r}, expected: {w[2]}" if w else ""),
              necessity="the default mode reports the first failing item as a ParseError of its own kind; anything else "
                        "changes the verdict or the kind of failure")
    # raise_error: silent exactly when nothing is recorded and nothing is undecided; otherwise everything is reported
    wrong = None
    for (k_, t_), got, after in rows_r:
        want = "return" if k_ + t_ == 0 else ("collected", [f"e{i}" for i in range(k_)] + [f"t{i}" for i in range(t_)])
        if got != want and wrong is None:
            wrong = (f"{k_} recorded, {t_} undecided", got, want)
    run.check("R10-policy", g, "raise_error raises a CollectedParseError with every recorded and undecided error, and "
                               "returns silently only when there is none (decision table)", wrong is None,
              construct="raise_error early return not guarded by both lists" if (wrong and wrong[1] == "return")
              else "raise_error never raises",
              message="RuntimeContext.raise_error: " + (f"with {wrong[0]} it gives {wrong[1]!r}, expected {wrong[2]!r}" if wrong else ""),
              necessity="a union whose every branch failed (tmp_errors) or a collected error would be silently accepted")


def context_tables(run):
    """RuntimeContext.handle_error and raise_error as decision tables: both are interpreted (absint.py - the checker's own
    interpreter over modelled objects; nothing of the library runs) for every combination of force_raise, the context's
    force_error, collect_errors, max_errors in {None, 0, 1, 2, 3}, 0..2 errors recorded before and 0..1 undecided errors.
    -> (rows_handle, rows_raise); a row is (inputs, outcome, errors afterwards) with outcome
    'return' | ('raise-e',) | ('collected', [errors...]) | ('other', class)"""
    cached = getattr(run, "_context_tables", None)
    if cached is not None:
        return cached
    import itertools
    from ..absint import Interp, Obj, Raised
    C = run.repo.cls("utype.parser.options", "RuntimeContext")
    he = run.repo.func("utype.parser.options", "RuntimeContext.handle_error")
    re_ = run.repo.func("utype.parser.options", "RuntimeContext.raise_error")
    methods = {m.name: m.node for m in C.methods.values()}

    def collected(errors=None, **kw):
        return Obj("CollectedParseError", _exc=True, args=(tuple(errors if errors is not None else ()),),
                   _bases=("ParseError", "Exception"))
    excmod = Obj("module exc", CollectedParseError=collected)

    def ctx(k, t, force_error, collect, cap):
        return Obj("RuntimeContext", errors=[f"e{i}" for i in range(k)], tmp_errors=[f"t{i}" for i in range(t)],
                   force_error=force_error, warnings=[],
                   options=Obj("Options", collect_errors=collect, max_errors=cap))

    def outcome(call):
        try:
            call()
        except Raised as r:
            if r.cls == "CollectedParseError":
                return ("collected", list(r.args_[0]) if r.args_ else None)
            if r.cls == "TheError":
                return ("raise-e",)
            return ("other", r.cls)
        return "return"
    rows_h = []
    for force_raise, force_error, collect in itertools.product((False, True), repeat=3):
        for cap in (None, 0, 1, 2, 3):
            for k in (0, 1, 2):
                for t in (0, 1):
                    self_ = ctx(k, t, force_error, collect, cap)
                    e = Obj("TheError", _exc=True, args=("the error",), _bases=("ParseError", "Exception"))
                    ip = Interp(globals_={"exc": excmod}, methods=methods, module=he.module)
                    for kw in (({"force_raise": True},) if force_raise else ({}, {"force_raise": False})):
                        self_ = ctx(k, t, force_error, collect, cap)
                        got = outcome(lambda: ip.call_function(he.node, (self_, e), dict(kw)))
                        after = [("e" if x is e else x) for x in self_.errors]
                        rows_h.append(((force_raise, force_error, collect, cap, k, t), got, after))
    rows_r = []
    for k in (0, 1, 2):
        for t in (0, 1, 2):
            self_ = ctx(k, t, False, True, None)
            ip = Interp(globals_={"exc": excmod}, methods=methods, module=re_.module)
            got = outcome(lambda: ip.call_function(re_.node, (self_,), {}))
            rows_r.append(((k, t), got, list(self_.errors)))
    run._context_tables = (he, re_, rows_h, rows_r)
    return run._context_tables


def _handle_error_mismatches(rows_h):
    """-> {clause: (inputs, got, expected)} against the documented behaviour of handle_error"""
    bad = {}
    for (force_raise, force_error, collect, cap, k, t), got, after in rows_h:
        before = [f"e{i}" for i in range(k)]
        tmp = [f"t{i}" for i in range(t)]
        inp = (f"force_raise={force_raise}, context.force_error={force_error}, collect_errors={collect}, max_errors={cap}, "
               f"{k} error(s) recorded, {t} undecided")
        if after != before + ["e"]:
            bad.setdefault("recorded", (inp, f"errors afterwards {after}", f"{before + ['e']}"))
        if force_raise and got != ("raise-e",):
            bad.setdefault("force_raise", (inp, got, "raises the error itself"))
        elif force_error and not force_raise and got != ("raise-e",):
            bad.setdefault("force_error", (inp, got, "raises the error itself"))
        elif not collect and got != ("raise-e",):
            bad.setdefault("fail-fast", (inp, got, "raises the error itself"))
        if not (force_raise or force_error or not collect):
            if cap is not None and k + 1 >= cap:
                want = ("collected", before + ["e"] + tmp)
                g2 = got
                if isinstance(got, tuple) and got[0] == "collected" and got[1] is not None:
                    g2 = ("collected", [("e" if not isinstance(x, str) else x) for x in got[1]])
                if g2 != want:
                    clause = "cap" if not (isinstance(got, tuple) and got[0] == "collected") else "cap-content"
                    bad.setdefault(clause, (inp, g2, want))
            elif got != "return":
                bad.setdefault("below-cap", (inp, got, "returns (the error stays collected)"))
    return bad


def he_sites(funcs) -> List[Tuple[FuncInfo, FuncAnalysis, Node, ast.Call]]:
    out = []
    for f in funcs:
        fa = analysis(f)
        for n, c in fa.all_calls():
            if is_handle_error_call(c):
                out.append((f, fa, n, c))
    return out


def r10a(run, funcs):
    sites = he_sites(funcs)
    nonforced = [(f, fa, n, c) for f, fa, n, c in sites if not is_forced(c)]
    run.floor("R10a", "handle_error sites in the parse core", len(sites), 30)
    run.floor("R10a", "non-forced handle_error sites", len(nonforced), 25)
    for f, fa, n, c in nonforced:
        if f.name == "handle_error":
            continue
        h = enclosing_handler(fa, n)
        stale_vars = []
        if h is not None:
            t = try_of_handler(fa, h)
            body_defs = {}
            for st in t.body:
                for x in walk_shallow(st):
                    nd = fa.cfg.stmt_nodes.get(id(x))
                    if nd is not None:
                        for v in fa.rd.gen.get(nd, []):
                            body_defs.setdefault(v, []).append(nd)
            for v, dnodes in body_defs.items():
                defs_at_h = fa.rd.defs_of(n, v)
                # an accumulator (`value = validator(value, c)`) legitimately keeps the last good value
                accum = all(isinstance(d.ast, (ast.Assign, ast.AugAssign)) and v in names_in(d.ast.value)
                            for d in dnodes)
                stale = [d for d in defs_at_h if (d is fa.cfg.entry and v not in f.params)
                         or (d in dnodes and not accum)]
                if not stale:
                    continue
                # uses of v reachable on the fall-through path before any rebinding of v
                region = set()
                stack = [s for s, k in n.succ if k == N]
                while stack:
                    m = stack.pop()
                    if m in region:
                        continue
                    region.add(m)
                    if v in fa.rd.gen.get(m, []):
                        continue   # rebinding: do not look past it (m itself may still use v: handled below)
                    for s, k in m.succ:
                        if k == N:
                            stack.append(s)
                for m in region:
                    if m.kind not in ("stmt", "test", "iter", "with"):
                        continue
                    used = False
                    for e in fa.node_exprs(m):
                        # only loads count
                        for sub in walk_shallow(e):
                            if isinstance(sub, ast.Name) and sub.id == v and isinstance(sub.ctx, ast.Load):
                                used = True
                    if used and isinstance(m.ast, ast.Return) and all(d is not fa.cfg.entry for d in stale):
                        # returning a placeholder after a recorded error is harmless: the owner's flush raises
                        continue
                    if used:
                        stale_vars.append((v, m))
        ok = not stale_vars
        desc = ", ".join(f"`{v}` at `{norm_stmt(m.ast if m.kind != 'with' else m.stmt)[:60]}`" for v, m in stale_vars[:3])
        run.check("R10a", f, f"after `{norm_stmt(n.ast)[:60]}` returns (collect mode) no variable of the failed try "
                             f"body is read before being rebound", ok,
                  construct=f"stale/unbound use after fall-through of {norm_stmt(n.ast)[:80]}",
                  message=f"handle_error can return when errors are collected; the code that follows reads {desc}, "
                          f"whose only binding on that path is the failed assignment of an earlier iteration (or none)",
                  necessity="with collect_errors=True the failing element is stored under another element's key / "
                            "value, or an UnboundLocalError escapes; fail-fast mode never runs that code",
                  node=stale_vars[0][1].ast if stale_vars else c)


def collectors(run, funcs) -> Set[str]:
    """functions that may record an error in the context passed to them (their `context` parameter)"""
    M: Set[str] = set()
    by_ref = {f.ref: f for f in funcs}
    for f in funcs:
        fa = analysis(f)
        for n, c in fa.all_calls():
            if is_handle_error_call(c) and not is_forced(c) and isinstance(c.func.value, ast.Name) \
                    and c.func.value.id == "context" and "context" in f.params:
                M.add(f.ref)
    ci = call_index(run.repo)
    changed = True
    while changed:
        changed = False
        for f in funcs:
            if f.ref in M or "context" not in f.params:
                continue
            fa = analysis(f)
            for n, c in fa.all_calls():
                if not passes_context(c):
                    continue
                for g in ci.resolve(f, c):
                    if g.ref in M:
                        M.add(f.ref)
                        changed = True
                        break
                if f.ref in M:
                    break
    return M


def passes_context(c: ast.Call) -> bool:
    for a in c.args:
        if isinstance(a, ast.Name) and a.id == "context":
            return True
    for k in c.keywords:
        if isinstance(k.value, ast.Name) and k.value.id == "context":
            return True
    return False


def r10b(run, funcs):
    M = collectors(run, funcs)
    ci = call_index(run.repo)
    indirect = c04.indirect_table(run)
    total = 0
    for mod, q in OWNERS:
        f = run.repo.func(mod, q)
        fa = analysis(f)
        flush = [n for n, c in fa.all_calls() if call_attr(c) == "raise_error"
                 and isinstance(c.func, ast.Attribute) and isinstance(c.func.value, ast.Name)
                 and c.func.value.id == "context"]
        points = []
        for n, c in fa.all_calls():
            if is_handle_error_call(c) and not is_forced(c) and isinstance(c.func.value, ast.Name) \
                    and c.func.value.id == "context":
                points.append((n, c, "records an error"))
            elif passes_context(c):
                names = [call_attr(c)]
                targets = []
                if names[0] in indirect:
                    for nm in indirect[names[0]]:
                        targets += [g for g in ci.by_name.get(nm, [])]
                else:
                    targets = ci.resolve(f, c)
                if any(g.ref in M for g in targets):
                    points.append((n, c, "may record an error through a helper sharing this context"))
        run.check("R10b", f, "the context owner flushes collected errors (has a context.raise_error())", bool(flush),
                  construct="owner without raise_error", message=f"{q} never calls context.raise_error()",
                  necessity="errors recorded under collect_errors=True are never raised: invalid input is accepted")
        for n, c, why in points:
            total += 1
            # a normal return reachable from the collect point without passing a flush
            reach = fa.cfg.reach_from_succ(n, kinds=(N,), avoid=flush)
            bad = fa.cfg.exit in reach
            path = []
            if bad:
                # name the offending return
                for m in reach:
                    if m.kind == "stmt" and isinstance(m.ast, ast.Return):
                        path.append(f"{f.loc(m.ast)}: `{norm_stmt(m.ast)}` reachable without raise_error")
            run.check("R10b", f, f"`{norm_stmt(c)[:70]}` ({why}) cannot reach a normal return without "
                                 f"context.raise_error()", not bad,
                      construct=f"unflushed return after {norm_stmt(c)[:90]}",
                      message=f"{q}: `{norm_stmt(c)[:90]}` {why}, and a normal return is reachable from it without "
                              f"passing context.raise_error()",
                      necessity="with collect_errors=True the error is recorded in a context nobody flushes: the "
                                "value is accepted although fail-fast mode rejects it", node=c)
            if bad:
                run.violations[-1].path = path[:4]
    run.floor("R10b", "collect points in context owners", total, 8)
    # the entered child contexts are flushed by the convert target: transform_rule passes transformer.context
    g = run.repo.func("utype.parser.rule", "transform_rule")
    ga = analysis(g)
    ok = any(kwarg(c, "context") is not None and unparse(kwarg(c, "context")) == "transformer.context"
             for n, c in ga.all_calls())
    run.check("R10b", g, "constrained/logical types are parsed with the caller's (entered) context", ok,
              construct="transform_rule drops the context", message="transform_rule does not pass "
              "transformer.context: nested parses would run with default options and a detached error list")


def r10c(run):
    """the max_errors cap, decided on the handle_error decision table (context_tables): the error is recorded on every
    outcome; once the number of recorded errors reaches max_errors a CollectedParseError carrying every recorded and
    undecided error is raised; below the cap (or without one) the call returns"""
    f, _g, rows_h, _r = context_tables(run)
    bad = _handle_error_mismatches(rows_h)

    def txt(w):
        return f": for [{w[0]}] got {w[1]!r}, expected {w[2]!r}" if w else ""
    w = bad.get("recorded")
    run.check("R10c", f, "handle_error records the error (self.errors) on every outcome", w is None,
              construct="error not recorded before raise", message="handle_error does not append to self.errors on "
              "every path before raising" + txt(w), necessity="the collected error set would miss failing items")
    w = bad.get("cap")
    off_by_one = bool(w) and "max_errors=" in w[0]
    run.check("R10c", f, "reaching max_errors raises (cap relation: len(errors) >= max_errors, tested after recording)",
              w is None, construct="cap relation",
              message="handle_error does not stop collecting when len(self.errors) reaches max_errors" + txt(w),
              necessity="more than max_errors errors are collected (with `>` the limit is exceeded by one)")
    w = bad.get("below-cap")
    run.check("R10c", f, "below the cap (or without one) handle_error returns and keeps collecting", w is None,
              construct="cap test precedes the append",
              message="handle_error raises although fewer than max_errors errors are recorded (or no cap is set)" + txt(w),
              necessity="collection stops early: fewer failing items are reported than max_errors allows; with "
                        "max_errors=None nothing may be capped at all")
    w = bad.get("cap-content")
    run.check("R10c", f, "reaching the cap raises CollectedParseError with every recorded and undecided error", w is None,
              construct="cap does not raise", message="the max_errors branch does not raise a CollectedParseError "
              "carrying all recorded errors" + txt(w))


def r10d(run):
    """`collect_errors` is read only by RuntimeContext.handle_error (decision) and Options.__init__ (config check)"""
    allowed = {"utype.parser.options:RuntimeContext.handle_error", "utype.parser.options:Options.__init__"}
    readers = []
    for f in run.repo.all_functions():
        for sub in walk_shallow(f.node):
            if isinstance(sub, ast.Attribute) and sub.attr == "collect_errors" and isinstance(sub.ctx, ast.Load):
                readers.append((f, sub))
            elif isinstance(sub, ast.Name) and sub.id == "collect_errors" and isinstance(sub.ctx, ast.Load) \
                    and f.ref not in allowed:
                readers.append((f, sub))
    run.floor("R10d", "reads of collect_errors", len(readers), 1)
    for f, sub in readers:
        run.check("R10d", f, "collect_errors is consulted only by handle_error / Options.__init__", f.ref in allowed,
                  construct="collect_errors read outside handle_error",
                  message=f"{f.qualname} branches on collect_errors ({f.loc(sub)}): parse logic outside handle_error "
                          f"depends on the reporting mode",
                  necessity="any behaviour that differs by collect_errors other than raise-now vs raise-later changes "
                            "the verdict or the value between the two modes", node=sub)


def r10e(run, funcs, rule="R10e", floor=30):
    """errors are handed to the context the owner flushes: the receiver of handle_error / collect_tmp_error is the
    function's own `context` (parameter or its `context or ...` default), never a child created by enter()"""
    total = 0
    for f in funcs:
        fa = analysis(f)
        for n, c in fa.all_calls():
            if call_attr(c) not in ("handle_error", "collect_tmp_error") or not isinstance(c.func, ast.Attribute):
                continue
            recv = c.func.value
            if isinstance(recv, ast.Name) and recv.id == "self":
                continue
            total += 1
            ok = False
            why = f"receiver `{unparse(recv)}`"
            if isinstance(recv, ast.Name):
                os_ = prov(fa).of_name(n, recv.id)
                child = [o for o in os_ if o.kind == "with" and "enter" in o.text]
                ok = not child and bool(os_) and all(
                    o.kind == "param" or (o.kind in ("call", "attr") and "enter" not in o.text) for o in os_)
                if child:
                    why = f"`{recv.id}` is the child context created by `{child[0].text[:40]}`"
            run.check(rule, f, f"`{unparse(c)[:50]}` reports to the context its owner flushes", ok,
                      construct=f"error handed to a child context: {unparse(c)[:60]}",
                      message=f"{f.qualname}: `{unparse(c)[:70]}` records the error in a context nobody flushes ({why})",
                      necessity="with collect_errors=True the error is appended to a throw-away list: the invalid item is "
                                "accepted (and a decorated function's body runs with the raw value)", node=c)
    run.floor(rule, "error hand-off sites", total, floor)


# documented implications among Options parameters: assigned parameter -> parameter whose value implies it
OPTION_IMPLICATIONS = {"addition": {"no_data_loss"}, "ignore_required": {"force_default"}}


def r10f(run):
    """Options.__init__ only rewrites a parameter on behalf of the caller when that parameter itself (or a documented
    implying parameter) says so: everything else must stay 'not provided', because merging copies provided keys"""
    f = run.repo.func("utype.parser.options", "Options.__init__")
    fa = analysis(f)
    params = set(f.params) - {"self"}
    total = 0
    for n in fa.cfg.nodes:
        if n.kind != "stmt" or not isinstance(n.ast, ast.Assign) or not isinstance(n.ast.targets[0], ast.Name):
            continue
        p = n.ast.targets[0].id
        if p not in params:
            continue
        total += 1
        mentioned = set()
        for a, pol in fa.facts.atoms_at(n):
            mentioned |= names_in(a)
        ok = p in mentioned and any(p in names_in(a) and pol and unparse(a) == p for a, pol in fa.facts.atoms_at(n)) \
            or bool(mentioned & OPTION_IMPLICATIONS.get(p, set())) and (p not in OPTION_IMPLICATIONS or True)
        if p in OPTION_IMPLICATIONS:
            ok = bool(mentioned & OPTION_IMPLICATIONS[p])
        run.check("R10f", f, f"`{norm_stmt(n.ast)[:40]}` rewrites `{p}` only when the caller set it (or a documented "
                             f"implication holds)", ok, construct=f"option {p} rewritten unconditionally",
                  message=f"Options.__init__: `{norm_stmt(n.ast)}` runs under {sorted(mentioned) or 'no condition on the parameters'}: "
                          f"`{p}` becomes an explicitly provided key although the caller did not pass it",
                  necessity="Options.__and__ / generate_from copy every provided key of the right-hand options over the "
                            "left-hand ones: an explicit max_errors=None erases the cap of "
                            "Options(collect_errors=True, max_errors=N) on every merge (functions with **kwargs merge "
                            "options), so more than N errors are collected", node=n.ast)
    run.floor("R10f", "parameter rewrites in Options.__init__", total, 3)


def r10h(run):
    """the merge record is complete: every option the caller passed is recorded in `_options`, whatever its value.  The
    stores into the record sit in the loop over the constructor's locals under three guards only: the value is not the
    `unprovided` sentinel, the name is not private, the name is an option attribute"""
    f = run.repo.func("utype.parser.options", "Options.__init__")
    fa = analysis(f)
    # the record: the local published as self._options
    rec = {unparse(n.ast.value) for n in fa.cfg.nodes if n.kind == "stmt" and isinstance(n.ast, ast.Assign)
           and unparse(n.ast.targets[0]) == "self._options" and isinstance(n.ast.value, ast.Name)}
    stores = [n for n in fa.cfg.nodes if n.kind == "stmt" and isinstance(n.ast, ast.Assign)
              and isinstance(n.ast.targets[0], ast.Subscript) and unparse(n.ast.targets[0].value) in rec]
    run.floor("R10h", "stores into the options merge record", len(stores), 1)
    for n in stores:
        loops = [b for b in fa.cfg.dominators()[n] if b.kind == "branch" and b.is_for and b.polarity]
        key = val = None
        if loops and isinstance(loops[-1].stmt.target, ast.Tuple) and len(loops[-1].stmt.target.elts) == 2:
            key, val = (unparse(x) for x in loops[-1].stmt.target.elts)
        ok_shape = key is not None and unparse(n.ast.targets[0].slice) == key and unparse(n.ast.value) == val \
            and "locals()" in unparse(loops[-1].stmt.iter)
        run.check("R10h", f, "the record is filled from the constructor's own arguments", ok_shape,
                  construct="options record shape", message=f"`{norm_stmt(n.ast)}` is not `record[name] = value` inside the "
                  f"loop over locals()", node=n.ast)
        if not ok_shape:
            continue
        allowed = {(f"unprovided({val})", False), (f"{key}.startswith('_')", False), (f"hasattr(self, {key})", True)}
        inner = []
        for b in fa.facts.branch_facts(n):
            if fa.cfg.dominates(loops[-1], b) and b is not loops[-1]:
                inner += [(unparse(a).replace('"', "'"), bool(p)) for a, p in decompose(b.test, b.polarity)]
        extra = [t for t in inner if t not in allowed]
        run.check("R10h", f, "an option that was passed is recorded whatever its value", not extra,
                  construct="options record skips passed options",
                  message=f"Options.__init__: `{norm_stmt(n.ast)}` additionally requires "
                          + ", ".join(f"`{t}`={p}" for t, p in extra)
                          + ": an option passed explicitly with such a value is not part of the merge record",
                  necessity="Options.__and__ / generate_from / runtime options copy recorded keys only: "
                            "loose & Options(invalid_items='throw', ignore_constraints=False) stays loose, and "
                            "Cls.__from__(data, options=Options(invalid_values='throw')) keeps the class's exclude policy",
                  node=n.ast)


def r10i(run, funcs):
    """after an error was recorded (collecting mode falls through) the owner does not finish with a made-up result: an
    early `return {}` / `[]` right after handle_error skips the rest of the work, so the collected error names only the
    first failure"""
    total = 0
    for f, fa, n, c in he_sites(funcs):
        if is_forced(c):
            continue
        total += 1
        # straight-line successors of the call: the statements reached without passing a test or a loop head
        cur, seen = n, set()
        bad = None
        while True:
            nxt = [s_ for s_, k in cur.succ if k == N]
            if len(nxt) != 1 or nxt[0] in seen:
                break
            cur = nxt[0]
            seen.add(cur)
            if cur.kind in ("test", "iter", "exit", "handler"):
                break
            if cur.kind == "stmt" and isinstance(cur.ast, ast.Return):
                v = cur.ast.value
                empty = isinstance(v, (ast.Dict, ast.List, ast.Tuple, ast.Set)) and not (
                    v.keys if isinstance(v, ast.Dict) else v.elts)
                empty = empty or (isinstance(v, ast.Call) and unparse(v.func) in ("dict", "list", "tuple", "set") and not v.args
                                  and not v.keywords)
                if empty:
                    bad = cur
                break
        run.check("R10i", f, f"`{unparse(c)[:50]}` is not followed by a made-up empty result", bad is None,
                  construct=f"empty result returned right after a recorded error in {f.name}",
                  message=f"{f.qualname}: after `{unparse(c)[:60]}` the function returns `{unparse(bad.ast.value) if bad else ''}`"
                          f": with collect_errors the remaining items are never examined",
                  necessity="the collected error no longer names every failing item (and fail-fast and collecting mode "
                            "stop agreeing on what was examined)", node=bad.ast if bad else c)
    run.floor("R10i", "collecting handle_error sites", total, 20)


def option_defaults(run, rule: str, expected: dict, why: str):
    """the defaults the property presupposes ("with the default options ..."): read from the class body of Options *and*
    from the defaults of its constructor - the two must agree with each other and with the documented value"""
    from ..fold import Folder
    O = run.repo.cls("utype.parser.options", "Options")
    init = O.methods.get("__init__")
    n = 0
    for name, want in expected.items():
        n += 1
        got = []
        if name in O.assigns:
            got.append(("class attribute", unparse(O.assigns[name])))
        if init is not None and name in init.params:
            d = init.param_default(name)
            if d is not None:
                got.append(("constructor default", unparse(d)))
        # the constructor takes `unprovided` (= "not given", so that merging copies only what was written) and falls back to
        # the class attribute, which carries the documented default
        ok = any(w == "class attribute" and t == want for w, t in got) and all(
            t == want or (w == "constructor default" and t == "unprovided") for w, t in got)
        run.check(rule, O.ref, f"Options.{name} defaults to {want}", ok, construct=f"default of Options.{name}",
                  message=f"Options.{name}: " + ", ".join(f"{w} {t}" for w, t in got) + f" (documented default: {want})",
                  necessity=why)
    run.floor(rule, "option defaults compared", n, 1)


def r10g(run, rule="R10g"):
    """entering a route always opens a new layer: RuntimeContext.enter returns a freshly constructed context on every
    path (error isolation of combinator arguments, items and fields hangs on the layer being the caller's alone)"""
    f = run.repo.func("utype.parser.options", "RuntimeContext.enter")
    fa = analysis(f)
    rets = [n for n in fa.cfg.nodes if n.kind == "stmt" and isinstance(n.ast, ast.Return) and fa.cfg.is_live(n)]
    run.floor(rule, "returns of RuntimeContext.enter", len(rets), 1)
    for n in rets:
        v = n.ast.value
        fresh = isinstance(v, ast.Call) and (unparse(v.func) in ("self.__class__", "RuntimeContext", "type(self)", "cls"))
        if not fresh and isinstance(v, ast.Name):
            defs = fa.rd.defs_of(n, v.id)
            fresh = bool(defs) and all(d.kind == "stmt" and isinstance(d.ast, ast.Assign) and isinstance(d.ast.value, ast.Call)
                                       and unparse(d.ast.value.func) in ("self.__class__", "RuntimeContext", "type(self)")
                                       for d in defs)
        parent = fresh and isinstance(v, ast.Call) and kwarg(v, "context") is not None and unparse(kwarg(v, "context")) == "self"
        run.check(rule, f, f"`{norm_stmt(n.ast)[:50]}` hands out a new layer whose parent is this context",
                  fresh and (parent or not isinstance(v, ast.Call)),
                  construct=f"enter() returns {unparse(v)[:40] if not fresh else 'a layer without parent'}",
                  message=f"RuntimeContext.enter: `{norm_stmt(n.ast)[:70]}` does not construct a new context with "
                          f"context=self: callers that isolate an attempt with `with context.enter(...)` share the layer",
                  necessity="errors recorded by one argument of a combinator (or one item) stay in the context the next "
                            "one is judged in: AnyOf rejects although an argument accepts, OneOf / Not accept what they "
                            "must reject", node=n.ast)


def check(run):
    run.rules_run += ["R10-policy", "R10a", "R10b", "R10c", "R10d", "R10e", "R10f", "R10g", "R10h", "R10i"]
    run.explain("C10: the may-return model of handle_error is validated against its source; (R10a) at each of the "
                "non-forced handle_error sites the code after the call does not read variables whose only binding "
                "is the failed try body (stale/unbound), nor index past a fallen-through range check; (R10b) every "
                "context owner passes raise_error() between any point that may record an error (directly or through "
                "helpers sharing the context) and a normal return; (R10c) the max_errors cap follows the append on "
                "every returning path with relation >=; (R10d) only handle_error branches on collect_errors.")
    funcs = c04.in_scope_functions(run) + list(run.repo.module("utype.parser.options").functions.values())
    run.rule(validate_policy, run)
    run.rule(r10a, run, funcs)
    run.rule(c04.r04b, run, c04.in_scope_functions(run))
    run.rule(r10b, run, funcs)
    run.rule(r10c, run)
    run.rule(r10d, run)
    run.rule(r10e, run, c04.in_scope_functions(run))
    run.rule(r10f, run)
    run.rule(r10h, run)
    run.rule(r10g, run)
    run.rule(r10i, run, funcs)
    run.rules_run.append("R10j")
    run.rule(option_defaults, run, "R10j", {"collect_errors": "False", "max_errors": "None"},
             "without an explicit cap every failing item is named; collection is off unless asked for")
    # shared clauses that are necessary for C10 as well
    from . import c06, c07
    pd, A, B = c06.siblings(run)
    run.rules_run += ["R06d", "R07e"]
    run.rule(c06.r06d, run, A, B)
    run.rule(c07.r07e, run, c07.schema_class(run))
