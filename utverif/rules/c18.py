"""C18 - the depth limit is exact and parse cost stays bounded.

R18a None-exact route test / depth accounting   R18b enter sites pass a route   R18c parent context is threaded
R18d stage-guard monotonicity of the union retries
"""
import ast
import itertools
from typing import Dict, List, Optional

from ..cfg import analysis, FuncAnalysis, Node, N, E, decompose
from ..lib import prov, is_convert_call, opt_attr
from ..model import AnalysisError, call_attr, kwarg, unparse, walk_shallow, norm_stmt, names_in, kwarg_given
from .c09 import branch_of


class _Opaque:
    def __repr__(self):
        return "?"


def _fmt_depth(v):
    if not isinstance(v, tuple):
        return "undetermined" if v is None else repr(v)
    base, k = v
    return (f"parent.depth + {k}" if k else "parent.depth") if base == "P" else str(k)


def _is_depth_alias(fa, n, e) -> bool:
    if not isinstance(e, ast.Name):
        return False
    defs = fa.rd.defs_of(n, e.id)
    return bool(defs) and all(d.kind == "stmt" and isinstance(d.ast, ast.Assign) and unparse(d.ast.value) == "self.depth"
                              for d in defs)


def _depth_after_init(f, has_ctx: bool, route):
    """(base, k) = the value stored in self.depth by the constructor for this input shape, base 'P' = the parent's depth;
    None when it cannot be determined.  A tiny interpreter over the statements that can touch the depth: assignments (names,
    self attributes, tuples), `+=`, if / else on the context and the route, conditional expressions; everything else is
    opaque and irrelevant unless it flows into the depth (then the result is None)."""
    OPQ = _Opaque()
    env = {"context": ("CTX" if has_ctx else None), "route": route, "self": "SELF"}
    attrs = {}

    def truth(v):
        if isinstance(v, _Opaque):
            raise LookupError
        if v == "CTX" or v == "SELF":
            return True
        if isinstance(v, tuple) and len(v) == 2 and v[0] in ("P", 0):
            raise LookupError
        return bool(v)

    def ev(e):
        if isinstance(e, ast.Constant):
            return e.value
        if isinstance(e, ast.Name):
            return env.get(e.id, OPQ)
        if isinstance(e, ast.Attribute):
            t = unparse(e)
            if t in attrs:
                return attrs[t]
            base = ev(e.value)
            if base == "CTX" and e.attr == "depth":
                return ("P", 0)
            if base == "SELF" and e.attr == "context":
                return env["context"]
            return OPQ
        if isinstance(e, ast.IfExp):
            try:
                return ev(e.body) if truth(ev(e.test)) else ev(e.orelse)
            except LookupError:
                return OPQ
        if isinstance(e, ast.BinOp) and isinstance(e.op, (ast.Add, ast.Sub)):
            l, r = ev(e.left), ev(e.right)
            sign = 1 if isinstance(e.op, ast.Add) else -1
            if isinstance(l, int) and not isinstance(l, bool):
                l = (0, l)
            if isinstance(r, int) and not isinstance(r, bool):
                r = (0, r)
            if isinstance(l, tuple) and isinstance(r, tuple) and len(l) == 2 and len(r) == 2:
                if r[0] == 0:
                    return (l[0], l[1] + sign * r[1])
                if l[0] == 0 and sign == 1:
                    return (r[0], l[1] + r[1])
            return OPQ
        if isinstance(e, ast.UnaryOp) and isinstance(e.op, ast.Not):
            try:
                return not truth(ev(e.operand))
            except LookupError:
                return OPQ
        if isinstance(e, ast.BoolOp):
            try:
                vals = [ev(v) for v in e.values]
                if isinstance(e.op, ast.And):
                    for v in vals:
                        if not truth(v):
                            return v
                    return vals[-1]
                for v in vals:
                    if truth(v):
                        return v
                return vals[-1]
            except LookupError:
                return OPQ
        if isinstance(e, ast.Compare) and len(e.ops) == 1:
            l, r = ev(e.left), ev(e.comparators[0])
            if isinstance(l, _Opaque) or isinstance(r, _Opaque):
                return OPQ
            op = e.ops[0]
            if isinstance(op, ast.Is):
                return l is r
            if isinstance(op, ast.IsNot):
                return l is not r
            if isinstance(op, ast.Eq):
                return l == r
            if isinstance(op, ast.NotEq):
                return l != r
            return OPQ
        if isinstance(e, ast.Tuple):
            return ["TUPLE"] + [ev(x) for x in e.elts]
        return OPQ

    def assign(t, v):
        if isinstance(t, ast.Name):
            env[t.id] = v
        elif isinstance(t, ast.Attribute):
            attrs[unparse(t)] = v
        elif isinstance(t, (ast.Tuple, ast.List)):
            if isinstance(v, list) and v and v[0] == "TUPLE" and len(v) - 1 == len(t.elts):
                for x, y in zip(t.elts, v[1:]):
                    assign(x, y)
            else:
                for x in t.elts:
                    assign(x, OPQ)

    class _Stop(Exception):
        pass

    def block(stmts):
        for st in stmts:
            if st.__class__.__name__ == "InlineBlock":
                block(st.body)
            elif isinstance(st, ast.Assign):
                v = ev(st.value)
                for t in st.targets:
                    assign(t, v)
            elif isinstance(st, ast.AnnAssign) and st.value is not None:
                assign(st.target, ev(st.value))
            elif isinstance(st, ast.AugAssign):
                cur = ev(st.target)
                assign(st.target, ev(ast.BinOp(left=st.target, op=st.op, right=st.value))
                       if isinstance(st.op, (ast.Add, ast.Sub)) else OPQ)
            elif isinstance(st, ast.If):
                if "max_depth" in unparse(st.test):
                    raise _Stop()
                try:
                    taken = truth(ev(st.test))
                except LookupError:
                    # a test the depth cannot depend on (options, hooks): both arms must leave the depth alone
                    before = (dict(env), dict(attrs))
                    block(st.body)
                    a_ = attrs.get("self.depth")
                    env.clear(); env.update(before[0]); attrs.clear(); attrs.update(before[1])
                    block(st.orelse)
                    if attrs.get("self.depth") != a_:
                        attrs["self.depth"] = OPQ
                    continue
                block(st.body if taken else st.orelse)
            elif isinstance(st, (ast.Return, ast.Raise)):
                raise _Stop()
            # expression statements, with, try ...: no effect on the depth unless they assign (then opaque)
            elif isinstance(st, (ast.With, ast.Try, ast.For, ast.While)):
                for x in ast.walk(st):
                    if isinstance(x, (ast.Assign, ast.AugAssign)):
                        for t in (x.targets if isinstance(x, ast.Assign) else [x.target]):
                            assign(t, OPQ)
    try:
        block(f.node.body)
    except _Stop:
        pass
    v = attrs.get("self.depth")
    if isinstance(v, int) and not isinstance(v, bool):
        v = (0, v)
    return v if isinstance(v, tuple) and len(v) == 2 and v[0] in ("P", 0) else None


def r18a(run):
    f = run.repo.func("utype.parser.options", "RuntimeContext.__init__")
    fa = analysis(f)
    if "route" not in f.params:
        raise AnalysisError("RuntimeContext.__init__ has no `route` parameter")
    d = f.param_default("route")
    run.ob("R18a", f, "route defaults to None (no route = a new nesting level)", isinstance(d, ast.Constant) and d.value is None)
    tests = 0
    for n in fa.cfg.nodes:
        if n.kind != "test":
            continue
        for a, p in decompose(n.ast, True) + decompose(n.ast, False):
            if isinstance(a, ast.Name) and a.id == "route":
                tests += 1
                run.check("R18a", f, "the route parameter is tested with `is None` / `is not None`", False,
                          construct="truthiness test on route",
                          message=f"`{norm_stmt(n.stmt)}` tests the route by truthiness: index 0 and key '' count as "
                                  f"'no route'",
                          necessity="the first element of every list (route 0) is charged an extra nesting level: "
                                    "max_depth=2 rejects N(kids=[{'name': 'a'}]) whose true depth is 2", node=n.ast)
            elif isinstance(a, ast.Compare) and unparse(a.left) == "route" and len(a.ops) == 1 \
                    and isinstance(a.ops[0], (ast.Is, ast.IsNot)) and isinstance(a.comparators[0], ast.Constant) \
                    and a.comparators[0].value is None:
                tests += 1
                run.ob("R18a", f, f"`{unparse(a)}` is a None-exact route test", True)
    run.floor("R18a", "route tests in RuntimeContext.__init__", tests, 1)
    # depth accounting, decided by evaluating the constructor symbolically over its finite input shapes: with P the
    # parent's depth, the depth stored for (context present / absent) x (route None / 0 / '' / a name) must be
    # (P or 0) + (1 if route is None else 0) - however the arithmetic is written (in place, through locals, tuples ...)
    for has_ctx in (True, False):
        for route in (None, 0, "", "x"):
            got = _depth_after_init(f, has_ctx, route)
            want = (("P" if has_ctx else 0), 1 if route is None else 0)
            label = f"context {'given' if has_ctx else 'absent'}, route={route!r}"
            run.check("R18a", f, f"stored depth for {label} is {_fmt_depth(want)}", got == want,
                      construct=f"depth accounting: {label}",
                      message=f"RuntimeContext.__init__ stores depth {_fmt_depth(got)} for {label}; a layer without a route "
                              f"is one level below its parent, a layer with a route (any index, any key - 0 and '' too) is at "
                              f"its parent's level: expected {_fmt_depth(want)}",
                      necessity="depth restarting, or elements / falsy keys charged a level: max_depth=d no longer accepts "
                                "exactly the values of data-class nesting depth <= d (cyclic input is not rejected, or the "
                                "first list element is)")
    # the limit violation is raised, never handed to handle_error (which may return in collect mode)
    he = [c for n_, c in fa.all_calls() if call_attr(c) == "handle_error"]
    run.check("R18a", f, "the depth error is raised unconditionally (not collected)", not he,
              construct="depth error handed to handle_error",
              message="RuntimeContext.__init__ reports the depth violation through handle_error: with collect_errors=True "
                      "it is only recorded and parsing continues below the limit",
              necessity="too-deep and cyclic inputs are converted in full (until RecursionError) under collect_errors")
    cmp_ok = False
    for n in fa.cfg.nodes:
        if n.kind == "test" and "max_depth" in unparse(n.ast):
            for a, p in decompose(n.ast, True):
                if isinstance(a, ast.Compare) and len(a.ops) == 1:
                    l, op, r = unparse(a.left), a.ops[0], unparse(a.comparators[0])
                    dl = l == "self.depth" or _is_depth_alias(fa, n, a.left)
                    dr = r == "self.depth" or _is_depth_alias(fa, n, a.comparators[0])
                    if dl and r.endswith("max_depth") and isinstance(op, ast.Gt):
                        cmp_ok = True
                    if dr and l.endswith("max_depth") and isinstance(op, ast.Lt):
                        cmp_ok = True
            if not any(isinstance(a, ast.Compare) and "depth" in unparse(a) for a, p in decompose(n.ast, True)):
                continue        # a guard on the limit alone (`if not limit: return`), not the comparison
            tb = [s for s, k in n.succ if s.kind == "branch" and s.polarity]
            raises = tb and any(m.kind == "stmt" and isinstance(m.ast, ast.Raise) and "DepthExceedError" in unparse(m.ast)
                                for m in fa.cfg.reach_from_succ(tb[0], kinds=(N,)) | {tb[0]})
            run.check("R18a", f, "exceeding max_depth raises DepthExceedError", bool(raises),
                      construct="depth check does not raise", message="the max_depth test does not raise DepthExceedError")
    run.check("R18a", f, "the limit test is `depth > max_depth`", cmp_ok, construct="depth relation",
              message="the max_depth test is not `self.depth > max_depth`",
              necessity="with `>=` a value of depth exactly d is rejected; with other relations deeper values pass")


def r18b(run):
    total = 0
    for f in run.repo.all_functions():
        if not f.module.name.startswith("utype.parser") and f.module.name != "utype.schema":
            continue
        fa = None
        for sub in walk_shallow(f.node):
            if isinstance(sub, ast.Call) and call_attr(sub) == "enter" and isinstance(sub.func, ast.Attribute):
                recv = unparse(sub.func.value)
                if "context" not in recv:
                    continue
                total += 1
                r = sub.args[0] if sub.args else kwarg(sub, "route")
                ok = r is not None and not (isinstance(r, ast.Constant) and r.value is None)
                run.check("R18b", f, f"`{unparse(sub)[:60]}` passes a route", ok, construct="enter without route",
                          message=f"`{unparse(sub)}` enters a child context without a route (None)",
                          necessity="a route-less child context counts as a new nesting level: elements are charged depth",
                          node=sub)
    run.floor("R18b", "context.enter sites", total, 12)
    # enter() forwards itself as parent and the route
    e = run.repo.func("utype.parser.options", "RuntimeContext.enter")
    ctor = [c for c in walk_shallow(e.node) if isinstance(c, ast.Call) and kwarg(c, "context") is not None]
    ok = bool(ctor) and all(unparse(kwarg(c, "context")) == "self" and kwarg(c, "route") is not None
                            and unparse(kwarg(c, "route")) == "route" for c in ctor)
    run.check("R18b", e, "enter() creates the child with context=self and the given route", ok,
              construct="enter does not chain", message="RuntimeContext.enter does not pass context=self / route=route",
              necessity="depth and routes would restart in every child context")
    oc = [c for c in ctor if kwarg(c, "options") is not None]

    def opt_text(c):
        v = kwarg(c, "options")
        if isinstance(v, ast.Name):
            # through a local: the texts of its definitions
            return " ".join(unparse(x.value) for x in walk_shallow(e.node) if isinstance(x, ast.Assign)
                            and any(isinstance(t, ast.Name) and t.id == v.id for t in x.targets))
        return unparse(v)
    ok = bool(oc) and all("self.options" in opt_text(c) for c in oc)
    run.check("R18b", e, "enter() derives the child's options from the parent's", ok, construct="enter options",
              message="RuntimeContext.enter does not build the child's options from self.options",
              necessity="max_depth (and every other option) would be lost below the first level")


def r18c(run):
    f = run.repo.func("utype.parser.cls", "init_dataclass")
    fa = analysis(f)
    mk = [(n, c) for n, c in fa.all_calls() if call_attr(c) == "make_context"]
    run.floor("R18c", "context creations in init_dataclass", len(mk), 1)
    for n, c in mk:
        v = kwarg(c, "context")
        ok = isinstance(v, ast.Name) and v.id == "context" and fa.rd.is_param_only(n, "context")
        run.check("R18c", f, f"`{unparse(c)[:60]}` chains to the caller's context", ok,
                  construct="data-class context without parent",
                  message=f"`{unparse(c)}` creates the data-class context without the caller's context",
                  necessity="nesting depth is not accumulated: max_depth never triggers and cyclic input overflows "
                            "the stack", node=c)
    g = run.repo.func("utype.parser.cls", "transform_dataclass")
    calls = [c for c in walk_shallow(g.node) if isinstance(c, ast.Call) and call_attr(c) == "init_dataclass"]
    ok = bool(calls) and all(kwarg(c, "context") is not None and unparse(kwarg(c, "context")) == "transformer.context"
                             for c in calls)
    run.check("R18c", g, "the data-class converter passes transformer.context", ok, construct="converter drops context",
              message="transform_dataclass does not pass context=transformer.context to init_dataclass",
              necessity="nested data classes start a fresh context: depth is lost")
    for mod, q in (("utype.parser.options", "Options.make_context"), ("utype.parser.cls", "ClassParser.make_context"),
                   ("utype.parser.base", "BaseParser.make_context")):
        h = run.repo.func(mod, q)
        fwd = [c for c in walk_shallow(h.node) if isinstance(c, ast.Call) and kwarg(c, "context") is not None
               and unparse(kwarg(c, "context")) == "context"]
        run.check("R18c", h, f"{q} forwards its context argument", bool(fwd), construct="make_context drops context",
                  message=f"{q} does not forward context=context", necessity="depth accounting breaks at this hop")
    # the generated __init__ takes the context prepared by init_dataclass
    i = run.repo.func("utype.parser.cls", "ClassParser.make_init.__init__")
    ia = analysis(i)
    uses = any(isinstance(c, ast.Call) and call_attr(c) == "getattr" and len(c.args) >= 2 and
               isinstance(c.args[1], ast.Constant) and c.args[1].value == "__context__" for c in walk_shallow(i.node))
    sets = any(isinstance(t, ast.Attribute) and t.attr == "__context__" for s_ in walk_shallow(f.node)
               if isinstance(s_, ast.Assign) for t in s_.targets)
    run.check("R18c", i, "the generated __init__ picks up the context attached by init_dataclass", uses and sets,
              construct="__context__ hand-over", message="init_dataclass / generated __init__ no longer hand the "
              "context over through __context__", necessity="nested instances would be parsed in a fresh context")
    # every other __init__ that make_init installs: a declared (custom) __init__ is wrapped by the function parser, whose
    # per-call wrapper makes its own context
    mi = run.repo.func("utype.parser.cls", "ClassParser.make_init")
    ma = analysis(mi)
    wraps_ = [(n, n.ast.value) for n in ma.cfg.nodes if n.kind == "stmt" and isinstance(n.ast, ast.Assign)
              and unparse(n.ast.targets[0]) == "__init__" and isinstance(n.ast.value, ast.Call)
              and call_attr(n.ast.value) == "wrap"]
    if wraps_:
        w = run.repo.func("utype.parser.func", "FunctionParser.wrap.f")
        takes = any(isinstance(x, ast.Constant) and x.value == "__context__" for x in ast.walk(w.node)) or any(
            isinstance(x, ast.Attribute) and x.attr == "__context__" for x in ast.walk(w.node))
        for n, c in wraps_:
            run.check("R18c", mi, "a declared __init__ is parsed in the context attached by init_dataclass", takes,
                      construct="declared __init__ parsed in a context without parent",
                      message=f"ClassParser.make_init installs `{unparse(c)[:60]}` for a class that declares its own "
                              f"__init__: the wrapper (FunctionParser.wrap) creates a fresh context per call and never "
                              f"reads the instance's __context__",
                      necessity="every nested instance of such a class starts at depth 0: max_depth never triggers, a "
                                "cyclic input recurses until the interpreter's stack limit through three union stages "
                                "per level (does not return)", node=c)


def _flag_env_eval(e, env: Dict[str, bool], resolve=None) -> Optional[bool]:
    if isinstance(e, ast.UnaryOp) and isinstance(e.op, ast.Not):
        v = _flag_env_eval(e.operand, env, resolve)
        return None if v is None else (not v)
    if isinstance(e, ast.BoolOp):
        vals = [_flag_env_eval(v, env, resolve) for v in e.values]
        if any(v is None for v in vals):
            return None
        return all(vals) if isinstance(e.op, ast.And) else any(vals)
    a = opt_attr(e)
    if a in env:
        return env[a]
    if isinstance(e, ast.Name) and resolve is not None:
        d = resolve(e.id)
        if d is not None:
            return _flag_env_eval(d, env, resolve)
    return None


def flag_guards(fa, n, FLAGS):
    """(guards, resolver): dominating branches that test the flags, directly or through a local boolean"""
    def resolver_at(node):
        def resolve(name):
            if name not in fa.rd.locals:
                return None
            ds = [d for d in fa.rd.defs_of(node, name) if d is not fa.cfg.entry]
            if len(ds) == 1 and ds[0].kind == "stmt" and isinstance(ds[0].ast, ast.Assign):
                return ds[0].ast.value
            return None
        return resolve
    guards = []
    for b in fa.facts.branch_facts(n):
        res = resolver_at(b.pred[0][0])
        mentions = any(opt_attr(x) in FLAGS for x in ast.walk(b.test))
        if not mentions:
            for x in ast.walk(b.test):
                if isinstance(x, ast.Name):
                    d = res(x.id)
                    if d is not None and any(opt_attr(y) in FLAGS for y in ast.walk(d)):
                        mentions = True
        if mentions:
            guards.append((b, res))
    return guards


def union_stages(run):
    """the staged retries of the union, read off the stage table of logic_table.py (logical_parse interpreted with every
    attempt failing, for each combination of the caller's flags): [(signature, name, flags raised, flags lowered, other
    keywords, {caller flags: entered?})] for every stage that enters its child contexts with explicit options"""
    from . import logic_table as lt
    f = run.repo.func("utype.parser.rule", "LogicalType.logical_parse")
    table = lt.stage_table(run)
    sigs = []
    for k in sorted(table):
        for sg in table[k]:
            if sg is not None and sg not in sigs:
                sigs.append(sg)
    out = []
    for sg in sigs:
        if sg and sg[0] == "?":
            raise AnalysisError(f"R18d: cannot resolve the options `{sg[1]}` of a union stage to an Options(...) call")
        fl = lt.stage_flags(sg)
        lowered = [k for k, v in sg if k in lt.FLAGS and v is not True]
        extra = [k for k, v in sg if k not in lt.FLAGS and not (k in lt.POLICIES and v == "throw")]
        entered = {k: (sg in table[k]) for k in table}
        out.append((sg, lt.stage_name(sg), fl, lowered, extra, entered))
    return f, table, out


def r18d(run):
    FLAGS = ("no_data_loss", "no_explicit_cast")
    f, table, stages = union_stages(run)
    run.floor("R18d", "staged retries (child contexts with explicit options) in the union branch", len(stages), 2)
    for sg, var, fl, lowered, extra, entered in stages:
        detail = [f"{dict(zip(FLAGS, k))} still enters the stage" for k, v in sorted(entered.items())
                  if v and fl and all(dict(zip(FLAGS, k))[x] for x in fl)]
        run.check("R18d", f, f"stage `{var}` ({'+'.join(sorted(fl))}) is skipped when the current options already "
                             f"include its flags", not detail and bool(fl),
                  construct=f"stage guard of [{'+'.join(sorted(fl))}] not monotone",
                  message=f"the retry stage using `{var}` is entered although the context already has "
                          f"{sorted(fl)} set: " + ("; ".join(detail) or "the stage raises no flag"),
                  necessity="a union nested inside a union re-runs the strict stages at every level: the number of "
                            "conversions multiplies per nesting level (exponential in depth)")
        run.check("R18d", f, f"stage `{var}` only raises conversion flags", not extra and not lowered and bool(fl),
                  construct=f"stage [{'+'.join(sorted(fl))}] lowers or adds options",
                  message=f"`{var}` sets {lowered + extra} besides raising {sorted(fl)}: merged into the child context it "
                          f"overrides what the caller asked for",
                  necessity="Options(no_explicit_cast=True) on the caller is switched off inside the stage: a str is cast "
                            "to int for Union / Optional targets although the plain target refuses it")
    # a final unguarded common stage exists
    common = all(v and v[-1] is None for v in table.values())
    run.check("R18d", f, "the union has a final unconditional conversion stage", common,
              construct="no common stage", message="every conversion stage of the union is guarded by the flags")
    # Options.__and__ merges (child options keep the parent's flags) - needed for monotonicity to carry downwards
    g = run.repo.func("utype.parser.options", "Options.__and__")
    merges = any(isinstance(c, ast.Call) and call_attr(c) == "update" for c in walk_shallow(g.node))
    run.check("R18d", g, "Options.__and__ merges both option sets", merges, construct="options merge",
              message="Options.__and__ no longer merges the two option sets",
              necessity="the strict flags of an outer stage would be lost in nested contexts")


def r18e(run):
    """the strictness a union stage asked for must survive the data-class boundary, otherwise every nested data class
    restarts the staged retries (3 attempts per level: 3^depth conversions for one invalid leaf)"""
    f = run.repo.func("utype.parser.options", "Options.make_context")
    fa = analysis(f)
    ctor = [(n, c) for n, c in fa.all_calls() if call_attr(c) == "RuntimeContext"]
    run.floor("R18e", "context constructions in Options.make_context", len(ctor), 1)
    for n, c in ctor:
        o = kwarg(c, "options")
        srcs = prov(fa).of_expr(n, o) if o is not None else []
        texts = {x.text for x in srcs}
        # some definition of the child's options must combine the parent's options when the class does not override
        merged = False
        for d in fa.cfg.nodes:
            if d.kind == "stmt" and isinstance(d.ast, (ast.Assign, ast.AugAssign)) and d.ast.value is not None:
                tv = unparse(d.ast.value)
                tgt = unparse(d.ast.targets[0] if isinstance(d.ast, ast.Assign) else d.ast.target)
                if isinstance(o, ast.Name) and tgt == o.id and "context.options" in tv and (
                        "&" in tv or "no_data_loss" in tv or "no_explicit_cast" in tv or "__and__" in tv):
                    merged = True
        run.check("R18e", f, "a nested data-class context keeps the conversion flags of the context it is created from",
                  merged, construct="stage flags dropped at the data-class boundary",
                  message=f"Options.make_context builds the child's options from {sorted(texts)} only: the parent's "
                          f"no_data_loss / no_explicit_cast (set by a union retry stage) are not carried into a nested "
                          f"data class unless the parent overrides",
                  necessity="inside a nested data class every union starts its staged retries again: for "
                            "class Node: v: Leaf; child: Optional['Node'] one invalid leaf at depth d costs (3^d - 1)/2 "
                            "leaf conversions (d=10: 29524) - exponential in the nesting depth", node=c)


def r18f(run):
    """retry multiplicity: only the union branch retries, and only through its guarded stages - no branch re-enters the
    whole combinator on the same value, and no other branch enters child contexts with conversion options"""
    f = run.repo.func("utype.parser.rule", "LogicalType.logical_parse")
    fa = analysis(f)
    val = f.params[1]
    self_calls = [(n, c) for n, c in fa.all_calls() if call_attr(c) in ("logical_parse", "__call__") and
                  isinstance(c.func, ast.Attribute) and unparse(c.func.value) in ("cls", "self")]
    for n, c in self_calls:
        same = c.args and unparse(c.args[0]) == val and fa.rd.is_param_only(n, val)
        run.check("R18f", f, f"`{unparse(c)[:50]}` does not re-parse the same value with the whole combinator", not same,
                  construct=f"logical_parse re-enters itself on the same value ({branch_of(fa, n)} branch)",
                  message=f"the `{branch_of(fa, n)}` branch calls `{unparse(c)[:70]}` on the unchanged input before (or "
                          f"besides) its own pass",
                  necessity="every nesting level of such a type parses its input twice: an invalid leaf under d levels "
                            "costs 2^d - 1 conversions instead of d", node=c)
    staged = [(n, c) for n, c in fa.all_calls() if call_attr(c) == "enter" and kwarg_given(c, "options") is not None]
    for n, c in staged:
        b = branch_of(fa, n)
        run.check("R18f", f, f"staged child contexts exist only in the union branch (`{b}`)", b == "|",
                  construct=f"staged retry outside the union branch ({b})",
                  message=f"the `{b}` branch enters a child context with explicit conversion options: "
                          f"`{unparse(c)[:70]}`", necessity="an extra full pass per nesting level multiplies the work",
                  node=c)
    run.ob("R18f", f, "no branch re-enters the combinator on its own input", True,
           detail=f"{len(self_calls)} self call(s), {len(staged)} staged child contexts", nontrivial=False)


# functions that legitimately start a nesting level with a parent context (a data class / decorated function entry)
LEVEL_CREATORS = {
    "utype.parser.cls:init_dataclass": "a nested data class is one nesting level",
    "utype.parser.func:call": "the free helper `call(func, ...)`: a decorated function applied inside another parse is one level",
    "utype.parser.base:BaseParser.make_context": "forwarding helper of the parser",
    "utype.parser.cls:ClassParser.make_context": "forwarding helper of the parser",
    "utype.parser.options:Options.make_context": "the constructor call itself",
}


def r18g(run):
    """only data-class (and decorated-function) entries create a route-less context chained to a parent: that is what
    charges one nesting level.  Anything else that does so - e.g. a rule class wrapping the caller's context because it
    carries its own options - adds a level per use and makes the limit inexact"""
    total = 0
    for f in run.repo.all_functions():
        if not (f.module.name.startswith("utype.parser") or f.module.name in ("utype.schema", "utype.utils.transform")):
            continue
        for c in walk_shallow(f.node):
            if not isinstance(c, ast.Call):
                continue
            nm = call_attr(c)
            if nm not in ("make_context", "RuntimeContext", "context_cls"):
                continue
            parent = kwarg(c, "context")
            if parent is None or isinstance(parent, ast.Constant) and parent.value is None:
                continue
            total += 1
            has_route = kwarg(c, "route") is not None
            ok = has_route or f.ref in LEVEL_CREATORS
            run.check("R18g", f, f"`{unparse(c)[:50]}` (child of a parent context, no route) is a data-class level", ok,
                      construct=f"route-less child context created in {f.qualname}",
                      message=f"{f.qualname}: `{unparse(c)[:80]}` chains a new context to `{unparse(parent)}` without a "
                              f"route; RuntimeContext.__init__ charges one nesting level for it",
                      necessity="every use of such a type below a data class consumes a level: max_depth=d rejects values "
                                "whose data-class nesting depth is below d (the limit is no longer exact)", node=c)
    run.floor("R18g", "contexts chained to a parent", total, 4)


def r18h(run):
    """(i) shape rejections that need no conversion come before the conversions (the strict union stages rely on failing
    fast); (ii) no handler re-runs the conversion of its own try body (a retry per level doubles the work per level)"""
    from . import c04
    g = run.repo.func("utype.parser.rule", "Rule._parse_tuple_args")
    ga = analysis(g)
    exceed = [n for n, c in ga.all_calls() if call_attr(c) == "handle_error" and c.args and "TupleExceedError" in unparse(c.args[0])]
    convs = [n for n, c in ga.all_calls() if is_convert_call(ga, n, c)]
    run.floor("R18h", "surplus rejections in _parse_tuple_args", len(exceed), 1)
    for e in exceed:
        late = [c for c in convs if ga.cfg.can_reach(c, e, kinds=(N,)) and not ga.cfg.can_reach(e, c, kinds=(N,))]
        run.check("R18h", g, "surplus tuple items are rejected before any item is converted", not late,
                  construct="length rejection after the conversions",
                  message="_parse_tuple_args converts the items before it rejects a tuple that is too long",
                  necessity="each strict stage of an enclosing union converts the nested value completely and then fails "
                            "on the length: three full descents per nesting level (3^depth for Optional[Tuple[int, 'T']])",
                  node=e.ast)
    total = 0
    for f in c04.in_scope_functions(run):
        for t in walk_shallow(f.node):
            if not isinstance(t, ast.Try):
                continue
            body_calls = {call_attr(c) for st in t.body for c in walk_shallow(st) if isinstance(c, ast.Call)}
            body_calls &= {"init_dataclass", "transformer", "apply", "parse", "logical_parse", "parse_value", "parse_data",
                           "__call__", "parser"}
            if not body_calls:
                continue
            total += 1
            for h in t.handlers:
                again = {call_attr(c) for st in h.body for c in walk_shallow(st) if isinstance(c, ast.Call)} & body_calls
                run.check("R18h", f, f"the handler of `try: {sorted(body_calls)}` does not run the conversion again", not again,
                          construct=f"handler retries {sorted(again)}",
                          message=f"{f.qualname}: an `except {unparse(h.type) if h.type else ''}` handler calls "
                                  f"{sorted(again)} again after the same call failed in the try body",
                          necessity="ParseError derives from TypeError / ValueError: every ordinary nested failure is "
                                    "retried at every level, so rejecting one invalid leaf under d data-class levels costs "
                                    "2^d conversions", node=h)
    run.floor("R18h", "try blocks around conversions", total, 8)


def r18i(run, rule="R18i"):
    """a data class is parsed under its own declared options (limits, addition policy, mode) at every nesting level: the
    context factories hand out `self` - or the caller's options only under the documented override - never a merge and
    never another object chosen by a further condition"""
    f = run.repo.func("utype.parser.options", "Options.make_context")
    fa = analysis(f)
    ctx_param = next((p for p in f.params if p == "context"), None)
    ctors = [(n, c) for n, c in fa.all_calls() if unparse(c.func) == "RuntimeContext" and kwarg(c, "options") is not None]
    run.floor(rule, "RuntimeContext constructions in Options.make_context", len(ctors), 1)
    for n, c in ctors:
        ov = kwarg(c, "options")
        exprs = []
        if isinstance(ov, ast.Name) and ov.id in fa.rd.locals:
            for d in fa.rd.defs_of(n, ov.id):
                if d.kind == "stmt" and isinstance(d.ast, ast.Assign):
                    exprs.append((d, d.ast.value))
                else:
                    exprs.append((d, None))
        else:
            exprs.append((n, ov))
        for d, e in exprs:
            txt = unparse(e) if e is not None else "?"
            if txt == "self":
                ok, why = True, "the declared options"
            elif ctx_param and txt == f"{ctx_param}.options":
                facts = {(unparse(a), bool(p)) for a, p in fa.facts.atoms_at(d)}
                ok = (f"{ctx_param}.options.override", True) in facts and (
                    ("self.override", False) in facts or ("not self.override", True) in facts)
                extra = {t for t, p in facts} - {f"{ctx_param}.options.override", "self.override", "not self.override", ctx_param}
                ok = ok and not extra
                why = "the caller's options under override" if ok else f"the caller's options under {sorted(facts)}"
            else:
                ok, why = False, f"`{txt}`"
                # the one admissible combination: the class's own options plus the *conversion flags* of the creating
                # context (what a repair of F34 / R18e would do) - nothing else of the caller's options
                if isinstance(e, ast.BinOp) and isinstance(e.op, ast.BitAnd) and unparse(e.left) == "self" \
                        and isinstance(e.right, ast.Call) and not e.right.args and e.right.keywords \
                        and all(k.arg in ("no_data_loss", "no_explicit_cast") for k in e.right.keywords):
                    ok, why = True, "the declared options plus the creating context's conversion flags"
            run.check(rule, f, f"the context of a (nested) parse carries {why}", ok,
                      construct=f"make_context hands out {txt[:50]}",
                      message=f"Options.make_context: the new context's options can be `{txt}` "
                              f"({why}): neither the options the class declares nor the caller's under override",
                      necessity="a nested class is parsed with its parent's limits / addition policy / mode (or loses its "
                                "own max_depth): the depth limit, min/max properties and the published schema no longer "
                                "describe what the parser enforces", node=d.ast if d.ast is not None else c)
    # the parsers' factories delegate to their own options
    n_fact = 0
    for modname in ("utype.parser.base", "utype.parser.cls", "utype.parser.func"):
        for C in run.repo.module(modname).classes.values():
            g = C.methods.get("make_context")
            if g is None:
                continue
            ga = analysis(g)
            for n, c in ga.all_calls():
                if call_attr(c) != "make_context":
                    continue
                n_fact += 1
                recv = c.func.value
                srcs = [unparse(recv)]
                if isinstance(recv, ast.Name) and recv.id in ga.rd.locals:
                    srcs = [unparse(d.ast.value) if d.kind == "stmt" and isinstance(d.ast, ast.Assign) else "?"
                            for d in ga.rd.defs_of(n, recv.id)]
                bad = [t for t in srcs if t != "self.options"]
                run.check(rule, g, f"{C.name}.make_context builds the context from the parser's own options", not bad,
                          construct=f"{C.name}.make_context uses {', '.join(bad)[:50]}",
                          message=f"{g.qualname}: the context is built from {bad} instead of self.options",
                          necessity="nested instances inherit options of the enclosing parse and lose their own max_depth",
                          node=c)
    run.floor(rule, "parser context factories", n_fact, 2)


def r18j(run):
    """the options a class is decorated with reach its nested self-references only if the decorator hands back the class
    it was given: a self-reference inside the class body resolves to the class object the parser was built for"""
    f = run.repo.func("utype.parser.options", "Options.__call__")
    fa = analysis(f)
    subst = [x for x in ast.walk(f.node) if isinstance(x, ast.ClassDef)]
    arg = f.params[1] if len(f.params) > 1 else "fn"
    for c in subst:
        returned = any(n.kind == "stmt" and isinstance(n.ast, ast.Return) and unparse(n.ast.value) == c.name for n in fa.cfg.nodes)
        based = any(unparse(b) == arg for b in c.bases)
        run.check("R18j", f, "Options(...) used as a class decorator configures the class it was given", not (returned and based),
                  construct="class decorator returns a substitute subclass",
                  message=f"Options.__call__ returns `class {c.name}({arg})`: a subclass carrying the options, while "
                          f"self-references inside `{arg}` ('Node' in Optional['Node']) resolve to `{arg}` itself, whose "
                          f"__options__ are the undecorated ones",
                  necessity="@Options(max_depth=3) class Node(Schema): child: Optional['Node']: only the top level is "
                            "limited; nested levels are the undecorated class without max_depth - depth 8 is accepted and "
                            "a cyclic input does not return", node=c)
    run.ob("R18j", f, "decorator form of Options examined", True, nontrivial=False, detail=f"{len(subst)} substitute classes")


def r18l(run, rule="R18l"):
    """class options are inherited: the parser of a subclass that declares no options of its own is built with the options
    found through normal attribute lookup (getattr), never with the class's own namespace only"""
    f = run.repo.func("utype.parser.base", "BaseParser.apply_for")
    obj = f.params[1] if len(f.params) > 1 else "obj"
    reads = []
    for x in walk_shallow(f.node):
        if isinstance(x, ast.Constant) and x.value == "__options__":
            reads.append(x)
    inherit = own_only = 0
    for c in walk_shallow(f.node):
        if isinstance(c, ast.Call) and any(isinstance(a, ast.Constant) and a.value == "__options__" for a in c.args):
            if isinstance(c.func, ast.Name) and c.func.id == "getattr" and c.args and unparse(c.args[0]) == obj:
                inherit += 1
            else:
                own_only += 1       # obj.__dict__.get('__options__'), vars(obj).get(...), ...
    for x in walk_shallow(f.node):
        if isinstance(x, ast.Attribute) and x.attr == "__options__" and unparse(x.value) == obj:
            inherit += 1
        if isinstance(x, ast.Subscript) and isinstance(x.slice, ast.Constant) and x.slice.value == "__options__":
            own_only += 1
    run.check(rule, f, "the options of a class are found through attribute lookup (inherited from its bases)",
              inherit >= 1 and own_only == 0, construct="class options read from the class's own namespace",
              message=f"BaseParser.apply_for reads `__options__` {inherit} time(s) through getattr / attribute access and "
                      f"{own_only} time(s) from the class's own namespace: a subclass that inherits its options is parsed "
                      f"with none",
              necessity="class Base(Schema): __options__ = Options(max_depth=2); class Node(Base): child: Optional['Node'] - "
                        "the limit (and every other option) is lost for Node: depth 5 is accepted, a cyclic input is not "
                        "rejected")


def check(run):
    run.rules_run += ["R18a", "R18b", "R18c", "R18d", "R18e", "R18f", "R18g", "R18h", "R18i", "R18j"]
    run.explain("C18: (R18a) the route parameter of RuntimeContext is tested None-exactly, depth is inherited, "
                "incremented by one on the no-route branch only and compared with `>`; (R18b) every context.enter site "
                "passes a non-None route and enter() chains context/route/options; (R18c) data-class contexts are "
                "created with the caller's context along init_dataclass / transform_dataclass / make_context / the "
                "generated __init__; (R18d) each staged retry of the union is guarded so that it is skipped when the "
                "current options already include the stage's flags (truth table over the guard), child contexts use "
                "the stage's options, and a final unconditional stage exists.")
    run.rule(r18a, run)
    run.rule(r18b, run)
    run.rule(r18c, run)
    run.rule(r18d, run)
    run.rule(r18e, run)
    run.rule(r18f, run)
    run.rule(r18g, run)
    run.rule(r18h, run)
    run.rule(r18i, run)
    run.rule(r18j, run)
    run.rules_run.append("R18l")
    run.rule(r18l, run)
    # shared with C10: with collect_errors the depth error is only recorded; the limit rejects at every position only if
    # each context owner passes raise_error() before it returns
    from . import c04, c10
    run.rules_run.append("R10b")
    run.rule(c10.r10b, run, c04.in_scope_functions(run) + list(run.repo.module("utype.parser.options").functions.values()))
    from . import c10 as _c10
    run.rules_run.append("R18k")
    run.rule(_c10.option_defaults, run, "R18k", {'max_depth': 'None'}, "nesting is unlimited unless max_depth is set: a default limit rejects deep valid data")
