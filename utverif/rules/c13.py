"""C13 - the generated JSON Schema is valid and describes what the parser does (tables and views only).

R13a keyword / primitive / operator / format tables against the JSON-Schema vocabulary (folded from source)
R13b input/output view consistency in generate_for_field / generate_for_dataclass
R13c `required`, `properties`, `dependentRequired` use the parser's own predicates and one key
R13d additionalProperties is emitted from options.addition (type -> schema, bool -> literal, None -> absent)
R13e static/dynamic predicate agreement (always_no_input vs is_no_input, output pair) by finite-domain evaluation
R13f container keywords in _get_args
R13g encoder return kinds agree with the primitive the generator announces for the encoded type
R13h the (possibly de-duplicated) name returned by set_def is the one referenced

Undecided: validity of the whole document under draft 2020-12 and validation of parser outputs (value-level).
"""
import ast
import itertools
from types import SimpleNamespace
from typing import Dict, List, Optional, Set, Tuple

from ..cfg import analysis, decompose, N, E
from ..evalfn import Evaluator
from ..fold import Folder, Sym, flatten_keys
from ..lib import opt_attr, prov
from ..model import AnalysisError, call_attr, dotted, kwarg, unparse, walk_shallow, norm_stmt, names_in

CONST = "utype.specs.json_schema.constant"
GEN = "utype.specs.json_schema.generator"

# K-jsonschema: meaning of each utype constraint per JSON primitive -> the standard keyword with that meaning
K_GEN = {
    "integer": {"multiple_of": "multipleOf", "le": "maximum", "lt": "exclusiveMaximum", "ge": "minimum",
                "gt": "exclusiveMinimum", "enum": "enum", "const": "const"},
    "array": {"max_length": "maxItems", "min_length": "minItems", "unique_items": "uniqueItems",
              "max_contains": "maxContains", "min_contains": "minContains", "contains": "contains",
              "enum": "enum", "const": "const"},
    "object": {"max_length": "maxProperties", "min_length": "minProperties", "enum": "enum", "const": "const"},
    "string": {"regex": "pattern", "max_length": "maxLength", "min_length": "minLength", "enum": "enum",
               "const": "const"},
    "boolean": {"enum": "enum", "const": "const"},
    "null": {"enum": "enum", "const": "const"},
}
K_GEN["number"] = K_GEN["integer"]
STANDARD_KEYWORDS = {"multipleOf", "maximum", "exclusiveMaximum", "minimum", "exclusiveMinimum", "maxLength",
                     "minLength", "pattern", "maxItems", "minItems", "uniqueItems", "maxContains", "minContains",
                     "contains", "maxProperties", "minProperties", "required", "dependentRequired", "enum", "const",
                     "type", "items", "prefixItems", "properties", "patternProperties", "additionalProperties",
                     "propertyNames", "allOf", "anyOf", "oneOf", "not", "format", "title", "description", "default",
                     "deprecated", "readOnly", "writeOnly", "examples", "$ref", "$defs", "if", "then", "else",
                     "dependentSchemas", "unevaluatedItems", "unevaluatedProperties", "contentEncoding",
                     "contentMediaType", "contentSchema"}
K_PRIMITIVE = {"NoneType": "null", "bool": "boolean", "dict": "object", "Mapping": "object", "list": "array",
               "tuple": "array", "set": "array", "frozenset": "array", "deque": "array", "Iterator": "array",
               "int": "integer", "float": "number", "Decimal": "number"}
K_OPERATORS = {"&": "allOf", "|": "anyOf", "^": "oneOf", "~": "not"}
K_FORMAT = {"datetime": "date-time", "date": "date", "time": "time", "timedelta": "duration", "UUID": "uuid",
            "IPv4Address": "ipv4", "IPv6Address": "ipv6"}
# subclass facts the tables' first-match order depends on (Python data model)
SUBCLASS_BEFORE = [("bool", "int"), ("datetime", "date")]


def r13a(run, F):
    where = f"{CONST}:TYPE_CONSTRAINTS_MAP"
    tcm = F.module_value(CONST, "TYPE_CONSTRAINTS_MAP")
    if not isinstance(tcm, dict):
        raise AnalysisError("TYPE_CONSTRAINTS_MAP does not fold to a dict")
    n = 0
    seen_prims = set()
    for prims, mp in tcm.items():
        prims = prims if isinstance(prims, tuple) else (prims,)
        if not isinstance(mp, dict):
            raise AnalysisError(f"TYPE_CONSTRAINTS_MAP[{prims}] does not fold to a dict")
        for prim in prims:
            if prim not in K_GEN:
                run.check("R13a", where, f"{prim!r} is a JSON primitive", False, construct=f"primitive {prim}",
                          message=f"TYPE_CONSTRAINTS_MAP is keyed by {prim!r}, not one of the seven JSON types")
                continue
            seen_prims.add(prim)
            for cons, kw in mp.items():
                n += 1
                want = K_GEN[prim].get(cons)
                if want is not None:
                    run.check("R13a", where, f"{prim}: constraint {cons!r} is emitted as {want!r}", kw == want,
                              construct=f"{prim}: {cons} -> {kw}",
                              message=f"for {prim} values the constraint {cons!r} is emitted as {kw!r}; the keyword "
                                      f"with that meaning is {want!r}",
                              necessity="a swapped keyword (minimum for exclusiveMinimum, maxItems for minItems) makes "
                                        "parser outputs fail validation or the schema admit what the parser rejects")
                else:
                    run.check("R13a", where, f"{prim}: non-standard constraint {cons!r} -> {kw!r} does not reuse a "
                                             f"standard keyword", kw not in STANDARD_KEYWORDS,
                              construct=f"{prim}: {cons} -> standard keyword {kw}",
                              message=f"{cons!r} has no JSON-Schema counterpart for {prim} but is emitted under the "
                                      f"standard keyword {kw!r}",
                              necessity="validators apply the standard keyword's meaning to a value that has another one")
    run.floor("R13a", "constraint keyword entries", n, 25)
    for prim in ("integer", "number", "array", "object", "string"):
        run.check("R13a", where, f"constraint keywords are declared for {prim}", prim in seen_prims,
                  construct=f"no keyword map for {prim}", message=f"TYPE_CONSTRAINTS_MAP has no entry for {prim!r}: "
                  f"constraints are emitted under their Python names")
    # primitives
    pm = F.module_value(CONST, "PRIMITIVE_MAP")
    order = []
    for k, v in pm.items():
        for t in (k if isinstance(k, tuple) else (k,)):
            order.append(t.name if isinstance(t, Sym) else repr(t))
            want = K_PRIMITIVE.get(order[-1])
            run.check("R13a", f"{CONST}:PRIMITIVE_MAP", f"{order[-1]} is announced as {want!r}", v == want,
                      construct=f"primitive of {order[-1]}", message=f"PRIMITIVE_MAP announces {order[-1]} as {v!r} "
                      f"(expected {want!r})", necessity="the `type` keyword of every schema of that origin is wrong: "
                      "parser outputs fail validation")
    for sub, sup in SUBCLASS_BEFORE[:1]:
        ok = sub in order and sup in order and order.index(sub) < order.index(sup)
        run.check("R13a", f"{CONST}:PRIMITIVE_MAP", f"{sub} is matched before its base class {sup}", ok,
                  construct=f"{sub} after {sup}", message=f"PRIMITIVE_MAP lists {sup} before {sub}: issubclass first-match "
                  f"announces {sub} as the primitive of {sup}", necessity="bool fields are announced as integer")
    prims = F.module_value(CONST, "PRIMITIVES")
    run.check("R13a", f"{CONST}:PRIMITIVES", "PRIMITIVES are the seven JSON types",
              set(prims) == {"null", "boolean", "object", "array", "integer", "number", "string"},
              construct="PRIMITIVES", message=f"PRIMITIVES is {prims}")
    ops = F.module_value(CONST, "OPERATOR_NAMES")
    for k, want in K_OPERATORS.items():
        run.check("R13a", f"{CONST}:OPERATOR_NAMES", f"combinator {k!r} is emitted as {want!r}", ops.get(k) == want,
                  construct=f"operator {k}", message=f"OPERATOR_NAMES[{k!r}] is {ops.get(k)!r}, expected {want!r}",
                  necessity="a union published as allOf (or the reverse) rejects the parser's outputs")
    fm = F.module_value(CONST, "FORMAT_MAP")
    forder = []
    for k, v in fm.items():
        for t in (k if isinstance(k, tuple) else (k,)):
            nm = t.name if isinstance(t, Sym) else repr(t)
            forder.append(nm)
            if nm in K_FORMAT:
                run.check("R13a", f"{CONST}:FORMAT_MAP", f"{nm} has format {K_FORMAT[nm]!r}", v == K_FORMAT[nm],
                          construct=f"format of {nm}", message=f"FORMAT_MAP gives {nm} the format {v!r}",
                          necessity="format-aware validators reject the encoded value")
    sub, sup = SUBCLASS_BEFORE[1]
    run.check("R13a", f"{CONST}:FORMAT_MAP", f"{sub} is matched before its base class {sup}",
              sub in forder and sup in forder and forder.index(sub) < forder.index(sup), construct=f"{sub} after {sup}",
              message="FORMAT_MAP lists date before datetime: datetime fields are announced with format 'date'",
              necessity="an encoded datetime ('2020-01-02T03:04:05') is not a valid 'date'")
    # generate_for_rule picks the map of the rule's primitive and falls back to the constraint's own name
    f = run.repo.func(GEN, "JsonSchemaGenerator.generate_for_rule")
    fa = analysis(f)
    ok = False
    # roles: the loop over t.__validators__ binds (constraint, value, validator); the emission stores the value element
    # under a key that is looked up by the constraint element with itself as the fallback
    vloops = [m for m in fa.cfg.nodes if m.kind == "iter" and "__validators__" in unparse(m.ast)
              and isinstance(m.stmt, ast.For) and isinstance(m.stmt.target, ast.Tuple) and len(m.stmt.target.elts) >= 2]
    for m in vloops:
        cons_v, val_v = unparse(m.stmt.target.elts[0]), unparse(m.stmt.target.elts[1])
        for n_ in fa.cfg.nodes:
            if n_.kind == "stmt" and isinstance(n_.ast, ast.Assign) and isinstance(n_.ast.targets[0], ast.Subscript) \
                    and unparse(n_.ast.value) == val_v and fa.cfg.dominates(m, n_):
                key = n_.ast.targets[0].slice
                kdefs = prov(fa).of_expr(n_, key)
                ok = ok or any(o.kind == "call" and call_attr(o.node) == "get" and len(o.node.args) == 2
                               and unparse(o.node.args[0]) == cons_v and unparse(o.node.args[1]) == cons_v for o in kdefs)
    run.check("R13a", f, "each validator is emitted as data[<keyword of its constraint>] = <its value>", ok,
              construct="constraint emission", message="generate_for_rule no longer emits data[map.get(constraint, "
              "constraint)] = value", necessity="constraints are published under another name or with another value")
    # the selection test `<primitive local> in <key of the TYPE_CONSTRAINTS_MAP loop>`
    tloops = [m for m in fa.cfg.nodes if m.kind == "iter" and "TYPE_CONSTRAINTS_MAP" in unparse(m.ast)
              and isinstance(m.stmt, ast.For) and isinstance(m.stmt.target, ast.Tuple)]
    tkeys = {unparse(m.stmt.target.elts[0]) for m in tloops}
    sel = [n_ for n_ in fa.cfg.nodes if n_.kind == "test" and isinstance(n_.ast, ast.Compare)
           and isinstance(n_.ast.ops[0], ast.In) and isinstance(n_.ast.left, ast.Name)
           and unparse(n_.ast.comparators[0]) in tkeys
           and any("primitive" in unparse(d.ast.value).lower() or "'type'" in unparse(d.ast.value)
                   for d in fa.rd.defs_of(n_, n_.ast.left.id) if d.kind == "stmt" and isinstance(d.ast, ast.Assign))]
    run.check("R13a", f, "the keyword map is selected by the rule's primitive", bool(sel), construct="keyword map choice",
              message="generate_for_rule does not select the keyword map with `primitive in types`")


def _facts(fa, n):
    return {(unparse(a), p) for a, p in fa.facts.atoms_at(n)}


def r13b(run):
    f = run.repo.func(GEN, "JsonSchemaGenerator.generate_for_field")
    fa = analysis(f)
    INPUT_ONLY = {"always_no_input", "is_no_input"}
    OUTPUT_ONLY = {"always_no_output", "is_no_output", "output_options"}
    uses = 0
    for n in fa.cfg.nodes:
        if n.ast is None or n.kind not in ("stmt", "test"):
            continue
        for sub in walk_shallow(n.ast):
            if isinstance(sub, ast.Attribute) and sub.attr in INPUT_ONLY | OUTPUT_ONLY:
                uses += 1
                fs = _facts(fa, n)
                want = sub.attr in OUTPUT_ONLY
                ok = ("self.output", want) in fs
                run.check("R13b", f, f"`{sub.attr}` is used only in the {'output' if want else 'input'} view", ok,
                          construct=f"{sub.attr} in the wrong view",
                          message=f"`{norm_stmt(n.stmt)[:70]}` consults {sub.attr} "
                                  f"{'without' if ('self.output', not want) not in fs else 'under the opposite of'} "
                                  f"the matching self.output test",
                          necessity="the input schema lists properties by the output rule (or the reverse): a "
                                    "no_input field is announced as accepted", node=sub)
    run.floor("R13b", "view-specific predicate uses in generate_for_field", uses, 2)
    # type selection: output_type under self.output, type otherwise
    FP = f.params[1] if len(f.params) > 1 else "f"      # the field parameter
    # the expression handed to generate_for_type, resolved per view through its definitions: in the output view it is
    # `<field>.output_type` (first, before any fall-back), in the input view `<field>.type` - however the choice is written
    # (a conditional expression, two branches, a parallel assignment)
    def primary(n, e, view: bool, depth=0) -> Set[str]:
        if depth > 6:
            return {"?"}
        if isinstance(e, ast.Attribute) and isinstance(e.value, ast.Name) and e.value.id == FP:
            return {e.attr}
        if isinstance(e, ast.IfExp):
            t = unparse(e.test)
            if t == "self.output":
                return primary(n, e.body if view else e.orelse, view, depth + 1)
            if t == "not self.output":
                return primary(n, e.orelse if view else e.body, view, depth + 1)
            return primary(n, e.body, view, depth + 1) | primary(n, e.orelse, view, depth + 1)
        if isinstance(e, ast.BoolOp) and isinstance(e.op, ast.Or):
            return primary(n, e.values[0], view, depth + 1)
        if isinstance(e, ast.Name):
            out: Set[str] = set()
            for d in fa.rd.defs_of(n, e.id):
                if d.kind != "stmt" or not isinstance(d.ast, ast.Assign) or len(d.ast.targets) != 1 \
                        or not isinstance(d.ast.targets[0], ast.Name):
                    out.add("?")
                    continue
                if ("self.output", not view) in _facts(fa, d):
                    continue            # a definition made in the other view
                out |= primary(d, d.ast.value, view, depth + 1)
            return out or {"?"}
        return {"?"}
    gens = [(n, c) for n, c in fa.all_calls() if call_attr(c) == "generate_for_type" and c.args]
    ok = bool(gens)
    for n, c in gens:
        if ("self.output", True) in _facts(fa, n):
            views = [True]
        elif ("self.output", False) in _facts(fa, n):
            views = [False]
        else:
            views = [True, False]
        for view in views:
            got = primary(n, c.args[0], view)
            if got != ({"output_type"} if view else {"type"}):
                ok = False
    run.check("R13b", f, "the field's schema is generated from output_type in the output view and type otherwise", ok,
              construct="field type view", message="generate_for_field does not select f.output_type / f.type by self.output",
              necessity="the output schema describes the input type of a field whose output type differs")


def _dc_roles(ga):
    """locals of generate_for_dataclass by role: (the class parser, the document under construction, the view's options)"""
    parser = data = opts = None
    for n in ga.cfg.nodes:
        if n.kind == "stmt" and isinstance(n.ast, (ast.Assign, ast.AnnAssign)) and n.ast.value is not None:
            tg = n.ast.targets[0] if isinstance(n.ast, ast.Assign) else n.ast.target
            if isinstance(tg, ast.Name) and "__parser__" in unparse(n.ast.value) and parser is None:
                parser = tg.id
    for n, c in ga.all_calls():
        if call_attr(c) == "update" and isinstance(c.func.value, ast.Name) and any(k.arg == "properties" for k in c.keywords):
            data = c.func.value.id
    for n in ga.cfg.nodes:
        if n.kind == "stmt" and isinstance(n.ast, ast.Assign) and isinstance(n.ast.targets[0], ast.Name) \
                and parser and unparse(n.ast.value) == f"{parser}.options":
            opts = n.ast.targets[0].id
    if not (parser and data and opts):
        raise AnalysisError(f"generate_for_dataclass: roles not found (parser={parser}, document={data}, options={opts})")
    return parser, data, opts


def dataclass_document_table(run):
    """generate_for_dataclass interpreted (absint.py) over its decision domain: view (input / output), output options present
    or not, the effective options' addition policy (None / True / False / a type), no_default and defer_default, and one
    probe field that is listed or not, required or not under the effective options, declared with / without a default,
    deferred or not, with / without dependencies and whose table key differs from its declared name; a second field is always
    listed and required.  -> list of (clause, rule, label, got, want) mismatches"""
    import itertools
    from ..absint import Interp, Obj, Raised
    g = run.repo.func(GEN, "JsonSchemaGenerator.generate_for_dataclass")
    C = run.repo.cls(GEN, "JsonSchemaGenerator")
    methods = {m.name: m.node for m in C.methods.values()}
    out = []
    n = 0
    for output, has_oo, addition, o_nodef, o_defer, listed, req, f_nodef, f_defer, deps in itertools.product(
            (False, True), (False, True), (None, True, False, int), (False, True), (False, True),
            (True, False), (True, False), (False, True), (False, True), (False, True)):
        n += 1
        own = Obj("Options", tag="class options", mode=None, addition=addition if not (output and has_oo) else "own-unused",
                  no_default=o_nodef if not (output and has_oo) else "own-unused",
                  defer_default=o_defer if not (output and has_oo) else "own-unused")
        oo = Obj("Options", tag="output options", mode=None, addition=addition, no_default=o_nodef, defer_default=o_defer) \
            if has_oo else None
        eff = oo if (output and has_oo) else own
        probe = Obj("ParserField", name="Probe", dependencies={"b", "a"} if deps else set(), no_default=f_nodef,
                    defer_default=f_defer, is_required=lambda opts, _r=req: (_r if opts is eff else "asked-with-other-options"))
        always = Obj("ParserField", name="Always", dependencies=set(), no_default=True, defer_default=False,
                     is_required=lambda opts: True if opts is eff else "asked-with-other-options")
        parser = Obj("ClassParser", name="Cls", options=own, output_options=oo, in_out_identical=True,
                     fields={"probe": probe, "always": always}, schema_annotations=None)
        t = Obj("T", __parser__=parser)

        def gen_field(f_, options=None, _p=probe, _l=listed):
            if f_ is _p and not _l:
                return None
            return {"schema-of": f_.name, "under": getattr(options, "tag", options)}
        self_ = Obj("JsonSchemaGenerator", output=output, defs=None, options=Obj("Options", tag="generator options"),
                    ref_prefix="#/$defs/", generate_for_field=gen_field, generate_for_type=lambda ty: {"schema-of-type": ty},
                    names={})
        ip = Interp(methods=methods, module=g.module, globals_={"ClassParser": "ClassParser"})
        label = (f"{'output' if output else 'input'} view, output_options {'set' if has_oo else 'unset'}, addition={addition!r}, "
                 f"options.no_default={o_nodef}, options.defer_default={o_defer}; probe field: listed={listed}, required={req}, "
                 f"no_default={f_nodef}, defer_default={f_defer}, dependencies={deps}")
        try:
            doc = ip.call_function(g.node, (self_, t), {})
        except Raised as r:
            out.append(("the document is built", "R13c", label, f"raises {r.cls}", "a document"))
            continue
        if not isinstance(doc, dict):
            out.append(("the document is built", "R13c", label, repr(doc)[:40], "a document"))
            continue
        tag = eff.tag
        want_props = {"Always": {"schema-of": "Always", "under": tag}}
        if listed:
            want_props = {"Probe": {"schema-of": "Probe", "under": tag}, "Always": want_props["Always"]}
        if doc.get("properties") != want_props:
            clause = "properties lists exactly the fields of the view, under their declared names, generated with the view's options"
            out.append((clause, "R13c", label, doc.get("properties"), want_props))
        want_req = []
        if listed and (req is True or (output and not o_nodef and not f_nodef and not (f_defer or o_defer))):
            want_req.append("Probe")
        want_req.append("Always")
        if list(doc.get("required", [])) != want_req:
            out.append(("required lists exactly the listed fields whose absence is an error (output view: or that carry an "
                        "applied default)", "R13c", label, doc.get("required"), want_req))
        want_dep = {"Probe": ["a", "b"]} if (listed and deps) else None
        if doc.get("dependentRequired") != want_dep:
            out.append(("dependentRequired maps a listed field's declared name to its dependencies as a sorted JSON array",
                        "R13c", label, doc.get("dependentRequired"), want_dep))
        if addition is None:
            want_add = "absent"
        elif addition is int:
            want_add = {"schema-of-type": int}
        else:
            want_add = addition
        got_add = doc.get("additionalProperties", "absent") if "additionalProperties" in doc else "absent"
        if got_add != want_add or (isinstance(want_add, bool) and got_add is not want_add):
            out.append(("additionalProperties is absent without a policy, the literal for a boolean policy, the type's schema "
                        "for a typed one - read from the view's options", "R13d", label, got_add, want_add))
        if doc.get("type") != "object":
            out.append(("the document announces an object", "R13c", label, doc.get("type"), "object"))
    return g, out, n


def r13c(run):
    g, mism, n = dataclass_document_table(run)
    run.floor("R13c", "abstract input classes of generate_for_dataclass evaluated", n, 2000)
    clauses = {}
    for clause, rule, label, got, want in mism:
        clauses.setdefault((rule, clause), (label, got, want))
    ALL = [("R13c", "the document is built"),
           ("R13c", "properties lists exactly the fields of the view, under their declared names, generated with the view's options"),
           ("R13c", "required lists exactly the listed fields whose absence is an error (output view: or that carry an applied default)"),
           ("R13c", "dependentRequired maps a listed field's declared name to its dependencies as a sorted JSON array"),
           ("R13c", "the document announces an object"),
           ("R13d", "additionalProperties is absent without a policy, the literal for a boolean policy, the type's schema for a "
                    "typed one - read from the view's options")]
    for rule, clause in ALL:
        w = clauses.get((rule, clause))
        run.check(rule, g, clause, w is None, construct=f"generate_for_dataclass: {clause[:70]}",
                  message=f"generate_for_dataclass: {clause} - but for [{w[0] if w else ''}] the document has "
                          f"{w[1] if w else ''!r} instead of {w[2] if w else ''!r}",
                  necessity="the generated schema and the parser disagree: parsed outputs fail validation against the output "
                            "schema, or the input schema lists / requires / admits other keys than the parser takes")
    for (rule, clause), w in clauses.items():
        if (rule, clause) not in ALL:
            run.check(rule, g, clause, False, construct=f"generate_for_dataclass: {clause[:70]}",
                      message=f"generate_for_dataclass: {clause}: for [{w[0]}] got {w[1]!r}, expected {w[2]!r}")


def r13d(run):
    # decided together with R13c by the document table (the additionalProperties clause is reported as R13d there)
    run.ob("R13d", GEN, "additionalProperties clause evaluated by the document table of R13c", True, nontrivial=False)


# ---- R13e -----------------------------------------------------------------------------------------

MODES = [None, "r", "w", "a"]
FIELD_MODES = [None, "r", "w", "rw", "ra", "rwa"]
FLAGS = [False, True, "r", "w", "a", "ra", ["r"], ("w", "a")]


def _decl_ok(flag, fmode) -> bool:
    """Field.__init__ rejects a mode-string flag that is not a subset of the field's mode"""
    if isinstance(flag, str) and fmode:
        return set(flag).issubset(set(fmode))
    return True


def r13e(run):
    P = run.repo.cls("utype.parser.field", "ParserField")
    pairs = [("always_no_input", "is_no_input", "no_input"), ("always_no_output", "is_no_output", "no_output")]
    # the declaration constraint used to prune the domain must still be enforced by Field.__init__
    init = run.repo.func("utype.parser.field", "Field.__init__")
    src = unparse(init.node)
    for flag in ("no_input", "no_output"):
        if f"set({flag}).issubset(set(mode))" not in src:
            raise AnalysisError(f"Field.__init__ no longer validates `{flag}` against `mode`: the R13e domain is stale")
    methods = {k: v.node for k, v in P.methods.items()}
    methods["__class_assigns__"] = dict(getattr(P, "assigns", {}) or {})
    total = 0
    for static, dynamic, attr in pairs:
        fs, fd = P.methods.get(static), P.methods.get(dynamic)
        if fs is None or fd is None:
            raise AnalysisError(f"ParserField.{static}/{dynamic} not found")
        run.touch(fs)
        run.touch(fd)
        disagreements = []
        for final, no_default, flag, fmode, omode in itertools.product([False, True], [False, True], FLAGS, FIELD_MODES, MODES):
            if not _decl_ok(flag, fmode):
                continue
            if attr == "no_output" and final:
                continue   # `final` only concerns input
            total += 1
            self_ns = SimpleNamespace(final=final, no_default=no_default, mode=fmode, **{attr: flag})
            opts = SimpleNamespace(mode=omode)
            sv = Evaluator(fs.node, {"self": self_ns, "options": opts}, methods).run()
            dv = Evaluator(fd.node, {"self": self_ns, "options": opts, "value": object()}, methods).run()
            if bool(sv) != bool(dv):
                disagreements.append((final, no_default, flag, fmode, omode, bool(sv), bool(dv)))
        # group by the shape that causes the disagreement: flag kind x whether the runtime mode is inside the field mode
        shapes = {}
        for final, nd, flag, fmode, omode, sv, dv in disagreements:
            kind = "mode-string" if isinstance(flag, (str, list, tuple)) else repr(flag)
            inside = "inside" if (fmode and omode is not None and omode in fmode) else "outside" if fmode else "no field mode"
            hit = "listed" if isinstance(flag, (str, list, tuple)) and omode is not None and omode in flag else "not listed"
            shapes.setdefault((kind, inside, hit, sv, dv), []).append((final, nd, flag, fmode, omode))
        run.ob("R13e", fs, f"{static} agrees with {dynamic} on every value-independent declaration", not shapes,
               detail=f"{len(disagreements)} disagreeing points")
        for (kind, inside, hit, sv, dv), ex in sorted(shapes.items(), key=str):
            final, nd, flag, fmode, omode = ex[0]
            run.violate("R13e", fs, f"{static} != {dynamic}: {attr} {kind}, runtime mode {hit} in it and {inside} the field mode "
                                    f"(static {sv}, dynamic {dv})",
                        f"{static}(options) is {sv} but {dynamic}(value, options) is {dv} for "
                        f"Field(mode={fmode!r}, {attr}={flag!r}{', final' if final else ''}) under Options(mode={omode!r}) "
                        f"({len(ex)} point(s) of this shape)",
                        necessity="the schema generator decides `properties` / `required` with the static predicate while "
                                  "the parser consumes or emits the key with the dynamic one: the input schema omits a "
                                  "property the parser still takes (or lists one it ignores)", node=fs.node)
    run.notes.append(f"R13e: {total} declaration x mode points evaluated")
    if total < 500:
        raise AnalysisError("R13e: evaluation domain collapsed")


def r13f(run):
    f = run.repo.func(GEN, "JsonSchemaGenerator._get_args")
    fa = analysis(f)
    want = [("tuple", True, "items"), ("tuple", False, "prefixItems"), ("SEQ_TYPES", None, "items"),
            ("MAP_TYPES", None, "patternProperties")]
    # roles: the keyword local is the one used as the key of the returned one-entry dicts; the origin local is bound to
    # `<rule>.__origin__`; the rule is the parameter
    RP = f.params[1] if len(f.params) > 1 else "r"
    knames = {unparse(n.ast.value.keys[0]) for n in fa.cfg.nodes if n.kind == "stmt" and isinstance(n.ast, ast.Return)
              and isinstance(n.ast.value, ast.Dict) and len(n.ast.value.keys) == 1 and isinstance(n.ast.value.keys[0], ast.Name)}
    onames = {n.ast.targets[0].id for n in fa.cfg.nodes if n.kind == "stmt" and isinstance(n.ast, ast.Assign)
              and isinstance(n.ast.targets[0], ast.Name) and unparse(n.ast.value) == f"{RP}.__origin__"}
    if len(onames) > 1:
        raise AnalysisError(f"R13f: _get_args has no single origin local (found {sorted(onames)})")
    # (after alias propagation the origin is read as `<rule>.__origin__` itself)
    ORI = f"{RP}.__origin__"
    ares = {n.ast.targets[0].id for n in fa.cfg.nodes if n.kind == "stmt" and isinstance(n.ast, ast.Assign)
            and isinstance(n.ast.targets[0], ast.Name) and isinstance(n.ast.value, ast.ListComp)
            and "generate_for_type" in unparse(n.ast.value)}
    assigns = [n for n in fa.cfg.nodes if n.kind == "stmt" and isinstance(n.ast, ast.Assign)
               and unparse(n.ast.targets[0]) in knames and isinstance(n.ast.value, ast.Constant)]
    run.floor("R13f", "container keyword choices", len(assigns), 4)
    found = set()
    for n in assigns:
        fs = _facts(fa, n)
        kw = n.ast.value.value
        is_tuple = (f"issubclass({ORI}, tuple)", True) in fs
        ell = (f"{RP}.__ellipsis_args__", True) in fs
        seq = (f"issubclass({ORI}, SEQ_TYPES)", True) in fs
        mp = (f"issubclass({ORI}, MAP_TYPES)", True) in fs
        if is_tuple and ell:
            key = ("tuple", True)
        elif is_tuple:
            key = ("tuple", False)
        elif seq:
            key = ("SEQ_TYPES", None)
        elif mp:
            key = ("MAP_TYPES", None)
        else:
            key = ("?", None)
        exp = {(a, b): c for a, b, c in want}.get(key)
        found.add(key)
        run.check("R13f", f, f"{key[0]}{' (variadic)' if key[1] else ''} arguments are published under {exp!r}", kw == exp,
                  construct=f"{key[0]} {key[1]} -> {kw}", message=f"_get_args publishes the arguments of a "
                  f"{key[0]}{' with ellipsis' if key[1] else ''} origin under {kw!r} (expected {exp!r})",
                  necessity="fixed tuples published as `items` demand every element to match the first type; "
                            "lists published as prefixItems constrain only the first element", node=n.ast)
    run.check("R13f", f, "all four container shapes are published", found >= {(a, b) for a, b, c in want},
              construct="container shapes", message=f"_get_args handles {sorted(map(str, found))}")
    rets = [n for n in fa.cfg.nodes if n.kind == "stmt" and isinstance(n.ast, ast.Return)
            and isinstance(n.ast.value, ast.Dict) and n.ast.value.keys]
    for n in rets:
        v = n.ast.value.values[0]
        fs = _facts(fa, n)
        if (f"issubclass({ORI}, tuple)", True) in fs and (f"{RP}.__ellipsis_args__", False) in fs:
            ok = unparse(v) in ares
        elif (f"issubclass({ORI}, MAP_TYPES)", True) in fs:
            ok = isinstance(v, ast.Dict)
        else:
            ok = isinstance(v, ast.Subscript) and unparse(v.value) in ares and unparse(v.slice) == "0"
        run.check("R13f", f, f"`{norm_stmt(n.ast)[:50]}` carries the right argument schemas", ok,
                  construct="container value", message=f"`{norm_stmt(n.ast)}` publishes the wrong argument schemas",
                  node=n.ast)


# ---- R13g -----------------------------------------------------------------------------------------

def _ret_kind(fa, n, e, depth=0) -> Set[str]:
    """JSON kind(s) of a returned expression by provenance"""
    if depth > 4:
        return {"unknown"}
    if isinstance(e, ast.Constant):
        if e.value is None:
            return {"null"}
        if isinstance(e.value, bool):
            return {"boolean"}
        if isinstance(e.value, str):
            return {"string"}
        if isinstance(e.value, int):
            return {"integer"}
        if isinstance(e.value, float):
            return {"number"}
    if isinstance(e, ast.JoinedStr):
        return {"string"}
    if isinstance(e, ast.IfExp):
        return _ret_kind(fa, n, e.body, depth + 1) | _ret_kind(fa, n, e.orelse, depth + 1)
    if isinstance(e, ast.BoolOp):
        out = set()
        for v in e.values:
            out |= _ret_kind(fa, n, v, depth + 1)
        return out
    if isinstance(e, ast.Subscript) and isinstance(e.slice, ast.Slice):
        return _ret_kind(fa, n, e.value, depth + 1)
    if isinstance(e, ast.BinOp) and isinstance(e.op, (ast.Add, ast.Mod)):
        a, b = _ret_kind(fa, n, e.left, depth + 1), _ret_kind(fa, n, e.right, depth + 1)
        if a == {"string"} or b == {"string"}:
            return {"string"}    # str + x / x + str either is a str or raises
        return a | b
    if isinstance(e, ast.Call):
        nm = call_attr(e)
        if isinstance(e.func, ast.Name):
            if nm == "str":
                return {"string"}
            if nm == "int":
                return {"integer"}
            if nm == "float":
                return {"number"}
            if nm in ("list", "sorted"):
                return {"array"}
            if nm == "dict":
                return {"object"}
            g = fa.f.module.functions.get(nm)
            if g is not None:
                ga = analysis(g)
                out = set()
                for m in ga.cfg.nodes:
                    if m.kind == "stmt" and isinstance(m.ast, ast.Return) and ga.cfg.is_live(m):
                        out |= _ret_kind(ga, m, m.ast.value, depth + 1)
                return out or {"unknown"}
        if isinstance(e.func, ast.Attribute):
            if nm in ("isoformat", "decode", "format", "hex", "strftime", "join"):
                return {"string"}
        return {"unknown"}
    if isinstance(e, ast.Name):
        out = set()
        for o in prov(fa).of_name(n, e.id):
            if o.kind in ("call", "sub", "const", "literal", "expr") and o.node is not None \
                    and not isinstance(o.node, ast.stmt):
                out |= _ret_kind(fa, o.at, o.node, depth + 1)
            else:
                out.add("unknown")
        return out or {"unknown"}
    if isinstance(e, ast.Attribute) and e.attr == "value":
        return {"enum-value"}
    if isinstance(e, (ast.List, ast.ListComp)):
        return {"array"}
    if isinstance(e, (ast.Dict, ast.DictComp)):
        return {"object"}
    return {"unknown"}


ENC = "utype.utils.encode"
DEFAULT_PRIM = "string"


def _callee_summary(f, atom) -> str:
    """for a guard that calls a helper of the same module: the helper's returned conditions (so that a widened helper
    is a different construct than the one a known finding lists)"""
    if isinstance(atom, ast.Call) and isinstance(atom.func, ast.Name):
        g = f.module.functions.get(atom.func.id)
        if g is not None and g.cls is None:
            ga = analysis(g)
            parts = []
            for m in ga.cfg.nodes:
                if m.kind == "stmt" and isinstance(m.ast, ast.Return) and ga.cfg.is_live(m):
                    cond = " and ".join(sorted(("" if p else "not ") + unparse(a) for a, p in ga.facts.atoms_at(m)))
                    parts.append((cond + " -> " if cond else "") + unparse(m.ast.value))
            return "{" + "; ".join(sorted(parts)) + "}"
    return ""


def r13g(run, F):
    mod = run.repo.module(ENC)
    pm = F.module_value(CONST, "PRIMITIVE_MAP")
    prim_of = {}
    for k, v in pm.items():
        for t in (k if isinstance(k, tuple) else (k,)):
            prim_of[t.name if isinstance(t, Sym) else repr(t)] = v
    encs = []
    for f in mod.functions.values():
        for d in f.node.decorator_list:
            if isinstance(d, ast.Call) and (call_attr(d) or "").startswith("register_encoder"):
                types = [unparse(a).split(".")[-1] for a in d.args]
                encs.append((f, types))
    run.floor("R13g", "registered encoders", len(encs), 12)
    for f, types in encs:
        fa = analysis(f)
        for t in types:
            if t in ("Enum", "__class__"):
                continue   # Enum: the member's own value; `unprovided` -> null
            announced = prim_of.get(t, DEFAULT_PRIM)
            compat = {announced} | ({"integer"} if announced == "number" else set())
            for n in fa.cfg.nodes:
                if n.kind != "stmt" or not isinstance(n.ast, ast.Return) or not fa.cfg.is_live(n):
                    continue
                kinds = _ret_kind(fa, n, n.ast.value)
                guard = sorted(f"{t_}={p}" + _callee_summary(f, a_) for (t_, p), (a_, _p) in
                               zip([(unparse(a), p) for a, p in fa.facts.atoms_at(n)], fa.facts.atoms_at(n)))
                # the finding is keyed by *which predicates* decide the branch (and what the module-level ones compute),
                # not by how the tests are nested, negated or merged
                preds = {}
                for a_, _p in fa.facts.atoms_at(n):
                    for x in ast.walk(a_):
                        if isinstance(x, ast.Call) and call_attr(x):
                            preds[call_attr(x)] = _callee_summary(f, x) if isinstance(x.func, ast.Name) else ""
                key_guard = ", ".join(k_ + v_ for k_, v_ in sorted(preds.items())) or "always"
                ok = kinds <= compat
                if "unknown" in kinds:
                    raise AnalysisError(f"R13g: cannot classify `{norm_stmt(n.ast)}` in {f.ref}")
                run.check("R13g", f, f"{t}: `{norm_stmt(n.ast)[:40]}` is a JSON {announced}", ok,
                          construct=f"{t} encoded as {'/'.join(sorted(kinds))} depending on [{key_guard}]",
                          message=f"the generator announces {t} as {announced!r} but `{norm_stmt(n.ast)}` "
                                  f"(when {', '.join(guard) or 'always'}) publishes a JSON {'/'.join(sorted(kinds))}",
                          necessity="the encoded output of the parser does not validate against the generated output "
                                    "schema for values taking this branch", node=n.ast)


def r13h(run):
    C = run.repo.cls(GEN, "JsonSchemaGenerator")
    total = 0
    for f in C.methods.values():
        fa = analysis(f)
        for n in fa.cfg.nodes:
            if n.kind != "stmt" or n.ast is None:
                continue
            for c in fa.calls_at(n):
                if call_attr(c) == "set_def" and isinstance(c.func, ast.Attribute):
                    total += 1
                    dropped = isinstance(n.ast, ast.Expr) and n.ast.value is c
                    run.check("R13h", f, f"the name returned by `{unparse(c)[:50]}` is used", not dropped,
                              construct="set_def result dropped",
                              message=f"`{norm_stmt(n.ast)}` ignores the name set_def returns; set_def de-duplicates "
                                      f"names, so the reference built from the old name points at another definition",
                              necessity="two classes with the same __name__ in one document: the $ref of the second "
                                        "resolves to the first class's schema", node=c)
    run.floor("R13h", "set_def calls", total, 3)
    sd = C.methods.get("set_def")
    fa = analysis(sd)
    rets = [n for n in fa.cfg.nodes if n.kind == "stmt" and isinstance(n.ast, ast.Return) and fa.cfg.is_live(n)]
    ok = bool(rets) and all(unparse(n.ast.value) == "name" for n in rets)
    st = [n for n in fa.cfg.nodes if n.kind == "stmt" and isinstance(n.ast, ast.Assign)
          and unparse(n.ast.targets[0]) == "self.names[name]"]
    run.check("R13h", sd, "set_def returns the name under which it registered the definition", ok and bool(st),
              construct="set_def return", message="set_def does not return the registered (de-duplicated) name")


def r13i(run):
    """generators of different views / modes share no state: nothing is written through a class-level container"""
    C = run.repo.cls(GEN, "JsonSchemaGenerator")
    class_level = {k for k, v in C.assigns.items() if isinstance(v, (ast.Dict, ast.List, ast.Set, ast.Call))}
    total = 0
    for f in C.methods.values():
        fa = analysis(f)
        for n in fa.cfg.nodes:
            if n.kind != "stmt" or n.ast is None:
                continue
            hits = []
            st = n.ast
            tg = st.targets if isinstance(st, ast.Assign) else [st.target] if isinstance(st, ast.AugAssign) else []
            for t in tg:
                if isinstance(t, ast.Subscript) and isinstance(t.value, ast.Attribute) and unparse(t.value.value) in ("self", "cls") \
                        and t.value.attr in class_level:
                    hits.append(t.value.attr)
            for c in fa.calls_at(n):
                if isinstance(c.func, ast.Attribute) and isinstance(c.func.value, ast.Attribute) \
                        and unparse(c.func.value.value) in ("self", "cls") and c.func.value.attr in class_level \
                        and c.func.attr in ("update", "setdefault", "append", "add", "pop", "clear", "extend"):
                    hits.append(c.func.value.attr)
            for h in hits:
                total += 1
                run.check("R13i", f, f"`{norm_stmt(st)[:50]}` does not write class-level state", False,
                          construct=f"generator writes the class-level container {h}",
                          message=f"{f.qualname}: `{norm_stmt(st)[:70]}` stores into `{h}`, a container defined on the "
                                  f"class and therefore shared by every generator whatever its mode / view / defs",
                          necessity="the schema of a rule that embeds a data class depends on the view: whichever view is "
                                    "generated first is served for the other (the output schema then requires a "
                                    "no_output field)", node=st)
    run.ob("R13i", C.ref, "no generator method writes through a class-level container", total == 0,
           detail=f"class-level containers: {sorted(class_level)}", nontrivial=False)


def check(run):
    run.rules_run += ["R13a", "R13b", "R13c", "R13d", "R13e", "R13f", "R13g", "R13h", "R13i", "R06f"]
    run.explain("Static tables-and-views check of the JSON-Schema generator: keyword, primitive, operator and format "
                "tables folded from source and compared with the JSON-Schema vocabulary; input/output view members used "
                "only under the matching self.output polarity; properties / required / dependentRequired keyed alike and "
                "decided by the parser's own is_required; additionalProperties cases; exhaustive finite-domain evaluation "
                "of the static (always_no_*) against the dynamic (is_no_*) field predicates; container keywords; encoder "
                "return kinds against announced primitives; de-duplicated $defs names.")
    F = Folder(run.repo)
    run.rule(r13a, run, F)
    run.rule(r13b, run)
    run.rule(r13c, run)
    run.rule(r13d, run)
    run.rule(r13e, run)
    run.rule(r13f, run)
    run.rule(r13g, run, F)
    run.rule(r13h, run)
    run.rule(r13i, run)
    from . import c06
    _pd, _A, _B = c06.siblings(run)
    run.rule(c06.r06f, run, _A, _B)
    # additionalProperties says whether unknown keys are rejected / kept / converted: only if the extra-key pass runs
    # whenever the addition policy says so (shared with C06 / C12)
    run.rules_run.append("R06i")
    run.rule(c06.r06i, run, _A, _B)
    # the generator describes each class by parser.options / output_options of that class: the parser must parse a nested
    # class under exactly those (shared with C18)
    from . import c18
    run.rules_run.append("R18i")
    run.rule(c18.r18i, run)
