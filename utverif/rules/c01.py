"""C01 - parsed results conform to the declared type and constraints (mechanism completeness).

R01a converter-return provenance   R01b container completeness   R01c validator chain in Rule.parse
R01d binding stores
"""
import ast
from typing import Dict, List, Optional, Set, Tuple

from ..cfg import analysis, FuncAnalysis, Node, N, E, branch_atoms, branch_has, decompose
from ..lib import prov, is_convert_call, convert_type_arg, Origin, opt_attr
from ..model import AnalysisError, FuncInfo, call_attr, call_name, kwarg, unparse, walk_shallow, norm_stmt, names_in, dotted
from . import c04

PASSTHROUGH_HELPERS = {"_attempt_from", "_from_byte_like", "_attempt_from_number"}   # may return their argument


def converters(run) -> List[Tuple[FuncInfo, ast.Call]]:
    out = []
    for f in run.repo.all_functions():
        for d in f.node.decorator_list:
            if isinstance(d, ast.Call) and call_attr(d) == "register" and dotted(d.func) and \
                    dotted(d.func).endswith("registry.register") and "encoder" not in dotted(d.func):
                # the transformer registry only (encoders are C14)
                if f.module.name == "utype.utils.encode":
                    continue
                out.append((f, d))
    return out


def reg_classes(d: ast.Call) -> List[str]:
    return [unparse(a) for a in d.args]


def guard_ok(fa: FuncAnalysis, n: Node, name: str, tparam: Optional[str], reg: ast.Call) -> Tuple[bool, str]:
    classes = reg_classes(reg)
    allow_sub = kwarg(reg, "allow_subclasses")
    exact = isinstance(allow_sub, ast.Constant) and allow_sub.value is False
    for a, p in fa.facts.atoms_at(n):
        if not p:
            continue
        if isinstance(a, ast.Call) and call_attr(a) == "isinstance" and len(a.args) == 2 and unparse(a.args[0]) == name:
            cls_ = unparse(a.args[1])
            if tparam and cls_ == tparam:
                return True, f"isinstance({name}, {tparam})"
            if exact and cls_ in classes:
                return True, f"isinstance({name}, {cls_}) for the exactly-registered class"
        if isinstance(a, ast.Call) and call_attr(a) == "callable" and a.args and unparse(a.args[0]) == name \
                and any("Callable" in c for c in classes):
            return True, f"callable({name})"
        if isinstance(a, ast.Compare) and len(a.ops) == 1 and isinstance(a.ops[0], ast.Eq):
            l, r = unparse(a.left), unparse(a.comparators[0])
            if l == f"type({name})" and tparam and r == tparam:
                return True, f"type({name}) == {tparam}"
        if isinstance(a, ast.Compare) and len(a.ops) == 1 and isinstance(a.ops[0], ast.Is) \
                and unparse(a.left) == name and unparse(a.comparators[0]) == "None" and "type(None)" in classes:
            return True, f"{name} is None"
    return False, ""


def r01a(run):
    convs = converters(run)
    run.floor("R01a", "registered converters", len(convs), 20)
    sites = bare = 0
    for f, reg in convs:
        classes = reg_classes(reg)
        if classes == ["Any"]:
            run.ob("R01a", f, "registration for Any only: identity by definition", True, nontrivial=False)
            continue
        fa = analysis(f)
        ps = f.params
        if len(ps) < 3:
            raise AnalysisError(f"R01a: converter {f.ref} does not have (transformer, data, type) parameters")
        data, t = ps[1], ps[2]
        for n in fa.cfg.nodes:
            if n.kind != "stmt" or not isinstance(n.ast, ast.Return) or not fa.cfg.is_live(n):
                continue
            sites += 1
            # a conditional expression returns either arm
            arms = []

            def split(e, conds):
                if isinstance(e, ast.IfExp):
                    split(e.body, conds + [(e.test, True)])
                    split(e.orelse, conds + [(e.test, False)])
                else:
                    arms.append((e, conds))
            split(n.ast.value, [])
            for v, conds in arms:
                if not isinstance(v, ast.Name):
                    run.ob("R01a", f, f"`{norm_stmt(n.ast)[:60]}` returns a construction / delegated / literal value", True)
                    continue
                bare += 1
                os_ = prov(fa).of_name(n, v.id)
                # results of foreign parse functions (json.loads, ast.literal_eval, ...) are as unconstrained as the input
                foreign = [o for o in os_ if o.kind == "call" and isinstance(o.node.func, ast.Attribute)
                           and isinstance(o.node.func.value, ast.Name) and o.node.func.value.id in f.module.imports
                           and o.node.func.value.id not in ("self",)]
                for o in os_:
                    if o.kind == "call" and isinstance(o.node.func, ast.Attribute) and isinstance(o.node.func.value, ast.Name) \
                            and o.node.func.value.id in fa.rd.locals:
                        # locally imported module (`import ast` inside the function)
                        defs = prov(fa).of_name(o.at, o.node.func.value.id)
                        if defs and all(d.kind == "def" for d in defs):
                            foreign.append(o)
                raw = [o for o in os_ if o.kind == "param" or
                       (o.kind == "call" and o.text.split(".")[-1] in PASSTHROUGH_HELPERS) or
                       o.kind in ("iter", "iter-unpack", "sub", "unbound", "global")] + foreign
                if not raw:
                    run.ob("R01a", f, f"`return {v.id}`: every definition is a construction or a delegated conversion", True)
                    continue
                ok, why = guard_ok(fa, n, v.id, t, reg)
                if not ok:
                    # a guard in the conditional expression itself
                    for test, pol in conds:
                        if pol and isinstance(test, ast.Call) and call_attr(test) == "isinstance" and test.args \
                                and unparse(test.args[0]) == v.id:
                            ok, why = True, f"{unparse(test)} in the conditional expression"
                what = "the unconverted input" if not foreign else "the result of a foreign parse function"
                run.check("R01a", f, f"`return {v.id}` ({what}) is dominated by a type guard ({why})", ok,
                          construct=f"unguarded return of {'the input' if not foreign else 'a foreign parse result'} `{v.id}`",
                          message=f"converter {f.qualname} returns `{v.id}`, which is "
                                  + ("(an alias of) its input" if not foreign else
                                     f"the result of `{unparse(foreign[0].node)[:50]}` (any JSON / literal type)")
                                  + f", on a path without a positive type guard on it against the target type `{t}`",
                          necessity="any input of another type reaching that path is handed back unchanged: the parse "
                                    "returns a value that is not an instance of the declared type", node=n.ast)
    run.floor("R01a", "converter return sites", sites, 70)
    run.floor("R01a", "converter returns of a bare name", bare, 15)
    # the dispatchers
    T = run.repo.cls("utype.utils.transform", "TypeTransformer")
    for name in ("apply", "__call__", "handle_unresolved"):
        f = T.methods.get(name)
        if f is None:
            raise AnalysisError(f"TypeTransformer.{name} not found")
        fa = analysis(f)
        data, t = f.params[1], f.params[2]
        for n in fa.cfg.nodes:
            if n.kind != "stmt" or not isinstance(n.ast, ast.Return) or not fa.cfg.is_live(n):
                continue
            v = n.ast.value
            if isinstance(v, ast.Name) and v.id == data:
                facts = {(unparse(a), p) for a, p in fa.facts.atoms_at(n)}
                ok = (f"type({data}) == {t}", True) in facts or (f"isinstance({data}, {t})", True) in facts
                waiver = (f"self.unresolved_types == 'throw'", False) in facts and \
                         (f"self.unresolved_types == 'init'", False) in facts
                run.check("R01a", f, f"{name}: `return {data}` only under an exact/instance type guard"
                                     + (" or the documented unresolved_types='ignore' waiver" if waiver else ""),
                          ok or (waiver and name == "handle_unresolved"),
                          construct=f"{name} returns the input unguarded",
                          message=f"TypeTransformer.{name} returns its input without `type({data}) == {t}` / "
                                  f"`isinstance({data}, {t})`",
                          necessity="every conversion funnels through this dispatcher: an unguarded shortcut returns "
                                    "non-conforming values for every target type", node=n.ast)
    # handle_unresolved: 'throw' raises
    h = T.methods["handle_unresolved"]
    ha = analysis(h)
    ok = any(n.kind == "stmt" and isinstance(n.ast, ast.Raise) and
             ("self.unresolved_types == 'throw'", True) in {(unparse(a), p) for a, p in ha.facts.atoms_at(n)}
             for n in ha.cfg.nodes)
    run.check("R01a", h, "unresolved_types='throw' raises for a non-instance", ok, construct="unresolved throw",
              message="handle_unresolved no longer raises under unresolved_types == 'throw'",
              necessity="values of unknown types would be accepted unchecked under the default options")


# ---- R01e: with subclasses admitted, the *requested* class builds the result ---------------------------------------

FINAL_CLASSES = {"bool", "type(None)", "NoneType"}       # cannot be subclassed: a literal of the class is the class
SELF_TYPED_METHODS = {"replace"}                         # datetime/date/time.replace keep the receiver's class (3.8+)


def typed_by_request(fa: FuncAnalysis, n: Node, e, T: str, final: bool, depth=0) -> Tuple[bool, str]:
    """the expression evaluates to an instance of the requested class `T` (the converter's type parameter), judged from
    its shape: built by T / a classmethod of T / a delegated conversion given T, or guarded by isinstance(., T)"""
    if depth > 6 or e is None:
        return False, "too deep"
    if isinstance(e, ast.IfExp):
        a, wa = typed_by_request(fa, n, e.body, T, final, depth + 1)
        if not a and isinstance(e.test, ast.Call) and call_name(e.test) == "isinstance" and len(e.test.args) == 2 \
                and unparse(e.test.args[0]) == unparse(e.body) and unparse(e.test.args[1]) == T:
            a = True
        b, wb = typed_by_request(fa, n, e.orelse, T, final, depth + 1)
        return a and b, wa if not a else wb
    if isinstance(e, ast.Constant):
        return (final, "a literal" if not final else "")
    if isinstance(e, ast.Call):
        fn = e.func
        if isinstance(fn, ast.Name) and fn.id == T:
            return True, ""
        if isinstance(fn, ast.Attribute):
            if isinstance(fn.value, ast.Name) and fn.value.id == T:
                return True, ""                                      # classmethod of the requested class
            if fn.attr in SELF_TYPED_METHODS:
                return typed_by_request(fa, n, fn.value, T, final, depth + 1)
        if is_convert_call(fa, n, e) or (isinstance(fn, ast.Attribute) and isinstance(fn.value, ast.Name)
                                         and fn.value.id == "self" and fn.attr.startswith("to_")):
            targ = convert_type_arg(e)
            if targ is not None and unparse(targ) == T:
                return True, ""
            return False, f"`{unparse(e)[:50]}` converts to a fixed class, not to `{T}`"
        return False, f"`{unparse(e)[:50]}` is not built by `{T}`"
    if isinstance(e, ast.Subscript):
        root = e.value
        while isinstance(root, ast.Attribute):
            root = root.value
        if isinstance(root, ast.Name) and root.id == T:
            return True, ""                                          # t.__members__[name]
        return False, f"`{unparse(e)[:50]}` is not built by `{T}`"
    if isinstance(e, ast.Name):
        for a, p in fa.facts.atoms_at(n):
            if p and isinstance(a, ast.Call) and call_name(a) == "isinstance" and len(a.args) == 2 \
                    and unparse(a.args[0]) == e.id and unparse(a.args[1]) == T:
                return True, ""
            if p and isinstance(a, ast.Compare) and len(a.ops) == 1 and isinstance(a.ops[0], ast.Eq) \
                    and unparse(a.left) == f"type({e.id})" and unparse(a.comparators[0]) == T:
                return True, ""
        defs = fa.rd.defs_of(n, e.id)
        if not defs:
            return False, f"`{e.id}` has no definition"
        for d in defs:
            if d is fa.cfg.entry:
                return False, f"`{e.id}` is the unguarded input"
            if d.kind == "stmt" and isinstance(d.ast, ast.Assign) and len(d.ast.targets) == 1 \
                    and isinstance(d.ast.targets[0], ast.Name):
                ok, why = typed_by_request(fa, d, d.ast.value, T, final, depth + 1)
                if not ok:
                    return False, why
                continue
            return False, f"`{e.id}` is bound by `{norm_stmt(d.ast)[:40] if d.ast is not None else d.kind}`"
        return True, ""
    return False, f"`{unparse(e)[:50]}` is not built by `{T}`"


def r01e(run):
    """a converter registered with subclasses admitted is dispatched for every subclass of its registered classes and is
    handed that subclass as `t`: a return that is not built by `t` (a literal, `data.time()`, `sign * t(...)` - arithmetic
    on a subclass instance yields the base class) hands back an instance of the base class, not of the declared type"""
    total = 0
    for f, reg in converters(run):
        classes = reg_classes(reg)
        allow_sub = kwarg(reg, "allow_subclasses")
        if isinstance(allow_sub, ast.Constant) and allow_sub.value is False:
            continue
        if classes == ["Any"] or not classes:
            # detector / attribute based registrations (data classes) build through their own parser: R01d, C05
            continue
        final = all(c in FINAL_CLASSES for c in classes)
        fa = analysis(f)
        if len(f.params) < 3:
            continue
        data, T = f.params[1], f.params[2]
        for n in fa.cfg.nodes:
            if n.kind != "stmt" or not isinstance(n.ast, ast.Return) or not fa.cfg.is_live(n) or n.ast.value is None:
                continue
            total += 1
            ok, why = typed_by_request(fa, n, n.ast.value, T, final)
            if not ok and final and isinstance(n.ast.value, ast.Call) and unparse(n.ast.value.func) in classes:
                ok, why = True, "constructor of the (final) registered class"
            if not ok and any(isinstance(a, ast.Call) and call_name(a) == "getattr" and len(a.args) >= 2
                              and unparse(a.args[0]) == T and "__abstractmethods__" in unparse(a.args[1]) and p
                              for a, p in fa.facts.atoms_at(n)):
                # Sequence / Iterable / Mapping requested as such: the documented fallback hands back the concrete
                # list / dict, which is an instance of the abstract class
                ok, why = True, "abstract target: the concrete container is an instance of it"
            run.check("R01e", f, f"`{norm_stmt(n.ast)[:60]}` is built by the requested class `{T}`", ok,
                      construct=f"{f.name} returns a value not built by the requested class: {norm_stmt(n.ast)[:60]}",
                      message=f"converter {f.qualname} is registered for {classes} with subclasses admitted, but "
                              f"`{norm_stmt(n.ast)[:70]}` does not build its result with the requested class `{T}` ({why})",
                      necessity="for a declared subclass of the registered class (class Late(time), class Score(int)) the "
                                "parse hands back an instance of the base class: not an instance of the declared type",
                      node=n.ast)
    run.floor("R01e", "returns of subclass-admitting converters", total, 45)


def _declared_type_names(fa: FuncAnalysis) -> set:
    """locals handed to a conversion as its target type (the role `value_type` plays, whatever it is called)"""
    cached = getattr(fa, "_c01_type_names", None)
    if cached is None:
        cached = set()
        for n, c in fa.all_calls():
            if is_convert_call(fa, n, c):
                t = convert_type_arg(c)
                if isinstance(t, ast.Name):
                    cached.add(t.id)
        fa._c01_type_names = cached
    return cached


def waiver_at(fa: FuncAnalysis, n: Node) -> Optional[str]:
    tnames = _declared_type_names(fa)
    for a, p in fa.facts.atoms_at(n):
        t = unparse(a)
        if isinstance(a, ast.Compare) and len(a.ops) == 1 and opt_attr(a.left) in ("invalid_items", "invalid_keys", "invalid_values") \
                and unparse(a.comparators[0]).endswith("PRESERVE") \
                and ((p and isinstance(a.ops[0], ast.Eq)) or (not p and isinstance(a.ops[0], ast.NotEq))):
            # `policy == PRESERVE` taken, or `policy != PRESERVE` not taken
            return f"{t}={bool(p)} (documented unsafe policy)"
        if isinstance(a, ast.Call) and call_attr(a) == "isinstance" and len(a.args) == 2 and not p \
                and opt_attr(a.args[0]) == "addition" and unparse(a.args[1]) == "type":
            return "options.addition is truthy but not a type (surplus items are kept as they are)"
        if not p and isinstance(a, ast.Name) and a.id in tnames:
            return "no declared value type"
        if p and isinstance(a, ast.UnaryOp) and isinstance(a.op, ast.Not) and isinstance(a.operand, ast.Name) \
                and a.operand.id in tnames:
            return "no declared value type"
    return None


def stored_ok(fa: FuncAnalysis, n: Node, e, converts: List[ast.Call], depth=0) -> Tuple[bool, str]:
    """the stored expression is a conversion result, or every raw definition of it carries a waiver fact"""
    if isinstance(e, ast.Call) and any(e is c for c in converts):
        return True, "conversion result"
    w0 = waiver_at(fa, n)
    if w0:
        return True, w0
    if isinstance(e, ast.Name):
        defs = fa.rd.defs_of(n, e.id)
        if not defs:
            return False, "no definition"
        notes = []
        for d in defs:
            if d is fa.cfg.entry:
                return False, f"`{e.id}` may be unbound / a parameter"
            if d.kind == "stmt" and isinstance(d.ast, ast.Assign) and isinstance(d.ast.value, ast.Call) and any(
                    d.ast.value is c for c in converts):
                continue
            w = waiver_at(fa, d)
            if w:
                notes.append(w)
                continue
            return False, f"`{e.id}` defined by `{norm_stmt(d.ast) if d.ast is not None else d.kind}` without waiver"
        return True, "; ".join(sorted(set(notes)))
    w = waiver_at(fa, n)
    if w:
        return True, w
    return False, f"`{unparse(e)[:40]}` is not a conversion result"


def r01b(run):
    table = c04.dispatch_types(run)
    total = 0
    from . import args_table
    args_table.emit(run, "R01b", only_raw=True)      # the sequence / mapping element parsers: decided on their tables
    for pname in sorted(table):
        if pname == "_parse_type_arg" or pname in args_table.TABLE_FUNCS:
            continue
        f = run.repo.func("utype.parser.rule", f"Rule.{pname}")
        fa = analysis(f)
        converts = [c for n, c in fa.all_calls() if is_convert_call(fa, n, c)]
        run.floor("R01b", f"conversions in {pname}", len(converts), 1)
        result_vars = set()
        for n in fa.cfg.nodes:
            if n.kind == "stmt" and isinstance(n.ast, ast.Return) and fa.cfg.is_live(n):
                v = n.ast.value
                inner = v.args[0] if isinstance(v, ast.Call) and len(v.args) == 1 else v
                if isinstance(inner, ast.Name):
                    result_vars.add(inner.id)
        value_param = f.params[1]
        for n in fa.cfg.nodes:
            if n.kind != "stmt" or not fa.cfg.is_live(n):
                continue
            stores = []
            for c in fa.calls_at(n):
                if isinstance(c.func, ast.Attribute) and isinstance(c.func.value, ast.Name) \
                        and c.func.value.id in result_vars and c.func.attr in ("append", "extend", "add", "insert"):
                    stores.append((c.args[-1], f"{c.func.value.id}.{c.func.attr}"))
            if isinstance(n.ast, ast.Assign):
                for tg in n.ast.targets:
                    if isinstance(tg, ast.Subscript) and isinstance(tg.value, ast.Name) and tg.value.id in result_vars:
                        stores.append((tg.slice, f"key of {tg.value.id}[...]"))
                        stores.append((n.ast.value, f"value of {tg.value.id}[...]"))
            for e, what in stores:
                total += 1
                ok, why = stored_ok(fa, n, e, converts)
                run.check("R01b", f, f"{what} `{unparse(e)[:40]}` is a conversion result" + (f" ({why})" if ok and why else ""),
                          ok, construct=f"raw element stored: {what} {unparse(e)[:50]}",
                          message=f"{pname}: `{norm_stmt(n.ast)[:80]}` stores `{unparse(e)[:50]}` into the result "
                                  f"container, which is not a conversion result on every path ({why})",
                          necessity="the element / key / value is handed back unconverted: List[int](['1']) would "
                                    "contain '1' at that position", node=n.ast)
        # the returned container is the freshly built one (or the input only when there is nothing to convert)
        for n in fa.cfg.nodes:
            if n.kind == "stmt" and isinstance(n.ast, ast.Return) and fa.cfg.is_live(n):
                v = n.ast.value
                if isinstance(v, ast.Name) and v.id == value_param:
                    facts = {(unparse(a), p) for a, p in fa.facts.atoms_at(n)}
                    ok = ("not cls.__args__", True) in facts or ("cls.__args__", False) in facts
                    run.check("R01b", f, "the input container is returned only when no element type is declared", ok,
                              construct=f"{pname} returns its input", message=f"{pname}: `{norm_stmt(n.ast)}` returns "
                              f"the unparsed input container", necessity="no element is converted at all", node=n.ast)
    run.floor("R01b", "stores into result containers (outside the element-parser tables)", total, 4)


def r01c(run):
    f = run.repo.func("utype.parser.rule", "Rule.parse")
    fa = analysis(f)
    subj = f.params[1]
    rets = [n for n in fa.cfg.nodes if n.kind == "stmt" and isinstance(n.ast, ast.Return) and fa.cfg.is_live(n)]
    # final return = the one not guarded by an early-exit fact
    origin_t = [n for n, c in fa.all_calls() if is_convert_call(fa, n, c) and "__origin__" in unparse(c)]
    argp = [n for n, c in fa.all_calls() if isinstance(c.func, ast.Attribute) and c.func.attr == "__args_parser__"]
    vloop = [n for n in fa.cfg.nodes if n.kind == "iter" and "__validators__" in unparse(n.ast)]
    vcall = [n for n, c in fa.all_calls() if isinstance(c.func, ast.Name)
             and any(o.kind in ("iter", "iter-unpack") and "__validators__" in o.text
                     for o in prov(fa).of_name(n, c.func.id))]
    run.check("R01c", f, "Rule.parse has the origin transform, the args parser call and the validators loop",
              len(origin_t) == 1 and len(argp) == 1 and len(vloop) == 1 and len(vcall) == 1,
              construct="parse chain incomplete",
              message=f"Rule.parse: origin transform x{len(origin_t)}, args parser x{len(argp)}, validators loop "
                      f"x{len(vloop)}, validator call x{len(vcall)} (each expected once)",
              necessity="a stage of the documented chain (convert, parse elements, validate) is missing")
    if not (len(origin_t) == 1 and len(argp) == 1 and len(vloop) == 1 and len(vcall) == 1):
        return
    T, A, L, V = origin_t[0], argp[0], vloop[0], vcall[0]
    final = [r for r in rets if fa.cfg.can_reach(L, r) or fa.cfg.dominates(L, r)]
    early = [r for r in rets if r not in final]
    run.check("R01c", f, "there is a final return after the validators", len(final) >= 1, construct="no final return",
              message="Rule.parse has no return reachable after the validators loop")
    for r in early:
        facts = {(unparse(a), p) for a, p in fa.facts.atoms_at(r)}
        applied = ("cls.__applied__", True) in facts and (f"isinstance({subj}, cls.__origin__)", True) in facts
        none_exit = (f"{subj} is None", True) in facts and fa.cfg.dominates(T, r)
        run.check("R01c", f, f"early exit `{norm_stmt(r.ast)[:50]}` is one of the accepted shortcuts "
                             f"({'applied-type instance' if applied else 'None after the origin transform' if none_exit else '?'})",
                  applied or none_exit, construct=f"early return in Rule.parse: {norm_stmt(r.ast)[:60]}",
                  message=f"Rule.parse: `{norm_stmt(r.ast)}` leaves before the element parser / validators without "
                          f"being the applied-type shortcut or the None-after-transform exit (facts: {sorted(facts)[:4]})",
                  necessity="values skip element conversion and constraint validation", node=r.ast)
    def branch(text, pol):
        if text == "not options.ignore_constraints":
            # the options object is recognised under any local name
            return [n for n in fa.cfg.nodes if n.kind == "branch" and not n.is_for
                    and len(decompose(n.test, n.polarity)) == 1
                    and any(opt_attr(a_) == "ignore_constraints" and bool(p_) != pol
                            for a_, p_ in decompose(n.test, n.polarity))]
        # the guard alone: a conjunct added to the test (`if cls.__args_parser__ and value:`) is an additional guard
        return [n for n in fa.cfg.nodes if n.kind == "branch" and not n.is_for and branch_atoms(n) == [(text, pol)]]
    for (bt, pol, stage, node_) in (("cls.__origin__", True, "origin transform", T),
                                    ("cls.__args_parser__", True, "element parser", A),
                                    ("not options.ignore_constraints", True, "validators loop", L)):
        bs = branch(bt, pol)
        run.check("R01c", f, f"the {stage} is guarded by `{bt}` only", len(bs) == 1 and fa.cfg.dominates(bs[0], node_),
                  construct=f"{stage} guard", message=f"Rule.parse: the {stage} is not (only) guarded by `{bt}`")
        if len(bs) != 1:
            continue
        for r in final:
            reach = fa.cfg.reach_from_succ(bs[0], kinds=(N,), avoid=[node_] + early)
            run.check("R01c", f, f"when `{bt}` holds every path to the final return passes the {stage}", r not in reach,
                      construct=f"{stage} can be skipped",
                      message=f"Rule.parse: with `{bt}` true there is a path to `{norm_stmt(r.ast)[:50]}` that skips the {stage}",
                      necessity="a non-conforming value (unconverted, unparsed elements, or violating constraints) is returned",
                      node=r.ast)
        extra = []
        for b in fa.facts.branch_facts(node_):
            if b is bs[0] or b.is_for or fa.cfg.dominates(b, bs[0]):
                continue
            # the negative side of an accepted early exit is not a guard of the stage
            testnode = b.pred[0][0]
            sib = [s_ for s_, k_ in testnode.succ if s_.kind == "branch" and s_.polarity != b.polarity]
            if sib and not any(r in fa.cfg.reach_from_succ(sib[0], kinds=(N,)) for r in final):
                continue
            extra.append(b)
        run.check("R01c", f, f"the {stage} has no additional guard", not extra,
                  construct=f"{stage} additionally guarded by " + ", ".join(f"{unparse(b.test)}={b.polarity}" for b in extra),
                  message=f"Rule.parse: the {stage} additionally requires "
                          + ", ".join(f"`{unparse(b.test)}`={b.polarity}" for b in extra),
                  necessity="for declarations where the extra condition is false the stage is silently skipped")
    # order
    run.check("R01c", f, "order: origin transform, then element parser, then validators",
              not fa.cfg.can_reach(A, T) and not fa.cfg.can_reach(L, A) and not fa.cfg.can_reach(L, T),
              construct="parse chain order", message="Rule.parse runs its stages in a different order",
              necessity="constraints must be validated on the converted value with converted elements")
    # results assigned back to the returned variable
    for n_, what in ((T, "origin transform"), (A, "element parser"), (V, "validator")):
        ok = isinstance(n_.ast, ast.Assign) and len(n_.ast.targets) == 1 and isinstance(n_.ast.targets[0], ast.Name) \
            and n_.ast.targets[0].id == subj
        run.check("R01c", f, f"the {what} result is assigned back to `{subj}`", ok,
                  construct=f"{what} result dropped", message=f"Rule.parse: `{norm_stmt(n_.ast)[:70]}` does not assign "
                  f"its result to `{subj}`", necessity="the conversion / lax transformation is lost: the raw value is returned",
                  node=n_.ast)
    for r in final:
        uses = isinstance(r.ast.value, ast.Name) and r.ast.value.id == subj or (
            isinstance(r.ast.value, ast.Call) and r.ast.value.args and unparse(r.ast.value.args[0]) == subj)
        run.check("R01c", f, f"the final return hands back `{subj}`", uses, construct="final return value",
                  message=f"Rule.parse: `{norm_stmt(r.ast)}` does not return the validated `{subj}`", node=r.ast)
    # contains
    cc = [n for n, c in fa.all_calls() if call_attr(c) == "_parse_contains"]
    ok = bool(cc) and all(any(unparse(a) == "cls.contains" and p for a, p in fa.facts.atoms_at(n)) for n in cc)
    run.check("R01c", f, "the contains check runs whenever cls.contains is declared (inside the constraints block)", ok,
              construct="contains check", message="Rule.parse does not call _parse_contains under `cls.contains`")


PARSED_ORIGINS = {"parse_value", "parse_addition", "parse_pos_type", "get_default", "parse_data"}


def r01d(run):
    total = 0
    pd, A, B = __import__("utverif.rules.c06", fromlist=["siblings"]).siblings(run)
    pp = run.repo.func("utype.parser.func", "FunctionParser.parse_params")
    for f in (A, B, pp):
        fa = analysis(f)
        containers = set()
        for n in fa.cfg.nodes:
            if n.kind == "stmt" and isinstance(n.ast, ast.Return) and fa.cfg.is_live(n):
                for x in ast.walk(n.ast.value):
                    if isinstance(x, ast.Name):
                        containers.add(x.id)
        # a local merged wholesale into a returned container is itself a result container (the role `addition` plays)
        grown = True
        while grown:
            grown = False
            for n_, c in fa.all_calls():
                if isinstance(c.func, ast.Attribute) and isinstance(c.func.value, ast.Name) and c.func.value.id in containers \
                        and c.func.attr in ("update", "extend") and len(c.args) == 1 and isinstance(c.args[0], ast.Name) \
                        and c.args[0].id in fa.rd.locals and c.args[0].id not in containers:
                    containers.add(c.args[0].id)
                    grown = True
        for n in fa.cfg.nodes:
            if n.kind != "stmt" or not fa.cfg.is_live(n):
                continue
            stores = []
            for c in fa.calls_at(n):
                if isinstance(c.func, ast.Attribute) and isinstance(c.func.value, ast.Name) \
                        and c.func.value.id in containers and c.func.attr in ("append", "update", "extend", "setdefault"):
                    if c.args:
                        stores.append(c.args[-1])
            if isinstance(n.ast, ast.Assign):
                for tg in n.ast.targets:
                    if isinstance(tg, ast.Subscript) and isinstance(tg.value, ast.Name) and tg.value.id in containers:
                        stores.append(n.ast.value)
            for e in stores:
                total += 1
                ok = True
                why = ""
                if isinstance(e, ast.Name) and e.id in containers:
                    continue    # merging two parsed containers
                for o in prov(fa).of_expr(n, e):
                    if o.kind == "call" and o.text.split(".")[-1] in PARSED_ORIGINS:
                        continue
                    # raw definition: it may reach the store only through the documented passthrough branch
                    waivers = [b for b in fa.cfg.nodes if b.kind == "branch" and not b.is_for
                               and any(t_.endswith("in self.exclude_indexes") and p_ for t_, p_ in branch_atoms(b))]
                    if isinstance(e, ast.Name) and o.at is not None and waivers:
                        kills = [m for m in fa.cfg.nodes if m is not o.at and e.id in fa.rd.gen.get(m, [])]
                        reach = fa.cfg.reach_from_succ(o.at, kinds=(N,), avoid=kills + waivers)
                        if n not in reach:
                            why = "underscore-prefixed positional passthrough (documented)"
                            continue
                    ok = False
                    why = f"origin {o.kind}:{o.text}"
                run.check("R01d", f, f"`{norm_stmt(n.ast)[:60]}` stores a parsed value" + (f" ({why})" if ok and why else ""), ok,
                          construct=f"raw binding store {unparse(e)[:40]}",
                          message=f"{f.qualname}: `{norm_stmt(n.ast)[:80]}` stores `{unparse(e)[:40]}` which is not "
                                  f"(only) the result of a field / addition / positional parse ({why})",
                          necessity="the field or argument reaches the instance / the function body unconverted", node=n.ast)
    run.floor("R01d", "stores into binding results", total, 6)


def check(run):
    run.rules_run += ["R01a", "R01b", "R01c", "R01d", "R01e"]
    run.explain("C01: (R01a) in every registered converter and in the dispatchers apply/__call__/handle_unresolved a "
                "return of the (alias of the) input is dominated by a positive type guard against the target type; all "
                "other returns are constructions, delegated conversions or literals; (R01b) every element / key / value "
                "stored by the element parsers is a conversion result unless its definition carries a documented waiver "
                "(PRESERVE policy, addition, no declared value type); (R01c) in Rule.parse every path to the final "
                "return passes the origin transform, the element parser and the validators loop under their guards, in "
                "order, with results assigned back; early exits are the two accepted shortcuts; (R01d) stores into the "
                "binding results of the lookup strategies and parse_params are parse results.")
    run.rule(r01a, run)
    run.rule(r01b, run)
    run.rule(r01c, run)
    run.rule(r01d, run)
    run.rule(r01e, run)
    # shared with C10 / C11: the options in effect are the ones that were written - a merge can only switch an unsafe
    # option back off if explicitly passed options are recorded whatever their value
    from . import c10
    run.rules_run.append("R10h")
    run.rule(c10.r10h, run)
    # shared with C02 / C05: every class validates with the constraints of its whole MRO; unknown keys of a typed addition
    # policy are converted
    from . import c02, c05
    run.rules_run += ["R02f", "R05i"]
    run.rule(c02.r02f, run)
    run.rule(c05.r05i, run)
    # a recorded error must reach the context its owner flushes, otherwise the raw value is returned (shared with C10)
    from . import c10
    run.rules_run.append("R10e")
    run.rule(c10.r10e, run, c04.in_scope_functions(run), rule="R10e")
    run.rule(c10.r10b, run, c04.in_scope_functions(run) + list(run.repo.module("utype.parser.options").functions.values()))
    # a declaration resolved late must keep its constraints (shared with C17)
    from . import c17
    run.rules_run.append("R17c")
    run.rule(c17.r17c, run)
    # the ~ / ^ branches rely on the error being recorded before it is raised (shared with C10); inherited field
    # declarations must be the nearest ones (shared with C05)
    from . import c05
    run.rules_run += ["R10c", "R05h"]
    run.rule(c10.r10c, run)
    run.rule(c05.r05h, run)
    from . import c10 as _c10
    run.rules_run.append("R01f")
    run.rule(_c10.option_defaults, run, "R01f", {'ignore_constraints': 'False', 'unresolved_types': "'throw'"}, "the default options do not waive the guarantee")
    # round 8: shared helpers decided as tables (helper_table.py)
    from . import helper_table as _ht
    run.rules_run.append("R01g")
    run.rule(_ht.r_apply, run)
