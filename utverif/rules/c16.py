"""C16 - converter resolution is a pure function of the registrations made so far.

R16a invalidation pairing   R16b order invariant   R16c criteria reach the detector   R16d resolve order / memo keys
"""
import ast

from ..cfg import analysis, N, E
from ..lib import prov
from ..model import AnalysisError, call_attr, kwarg, unparse, walk_shallow, norm_stmt, names_in

REG_MUTATORS = {"insert", "append", "sort", "extend", "remove", "pop", "clear", "reverse"}


def registration_writer(run):
    """the function that enters a registration into the registry list, found by role (it inserts / appends into
    `self._registry`): the decorator closure of `register`, or whatever method that code was moved to"""
    C = run.repo.cls("utype.utils.base", "TypeRegistry")
    cands = []
    for f in run.repo.module("utype.utils.base").functions.values():
        if f.cls is not C and not (f.qualname.startswith("TypeRegistry.")):
            continue
        if f.name in ("__init__", "__new__"):
            continue
        for c in walk_shallow(f.node):
            writes = isinstance(c, ast.Call) and isinstance(c.func, ast.Attribute) and c.func.attr in (
                "insert", "append", "extend") and unparse(c.func.value).endswith("._registry")
            if isinstance(c, (ast.Assign, ast.AugAssign)):
                tgts = c.targets if isinstance(c, ast.Assign) else [c.target]
                for t in tgts:
                    base = t.value if isinstance(t, ast.Subscript) else t
                    if isinstance(base, ast.Attribute) and base.attr == "_registry":
                        writes = True
            if writes:
                cands.append(f)
                break
    if not cands:
        raise AnalysisError("anchor: no function of TypeRegistry writes the registration list")
    # prefer the innermost (a closure of register) when several qualify
    cands.sort(key=lambda f: -f.qualname.count("."))
    return cands[0]


def registry_class(run):
    return run.repo.cls("utype.utils.base", "TypeRegistry")


def _reg_writes(fa, attr="_registry"):
    out = []
    for n in fa.cfg.nodes:
        if n.kind != "stmt":
            continue
        for c in fa.calls_at(n):
            if isinstance(c.func, ast.Attribute) and c.func.attr in REG_MUTATORS \
                    and unparse(c.func.value) == f"self.{attr}":
                out.append((n, c, c.func.attr))
        a = n.ast
        if isinstance(a, (ast.Assign, ast.AugAssign)):
            tg = a.targets if isinstance(a, ast.Assign) else [a.target]
            for t in tg:
                if unparse(t) == f"self.{attr}" or (isinstance(t, ast.Subscript) and unparse(t.value) == f"self.{attr}"):
                    out.append((n, a, "assign"))
    return out


def _cache_resets(fa):
    out = []
    for n in fa.cfg.nodes:
        if n.kind != "stmt":
            continue
        for c in fa.calls_at(n):
            if isinstance(c.func, ast.Attribute) and c.func.attr == "clear" and unparse(c.func.value) == "self._cache":
                out.append(n)
        a = n.ast
        if isinstance(a, ast.Assign) and any(unparse(t) == "self._cache" for t in a.targets):
            if isinstance(a.value, ast.Dict) and not a.value.keys or (
                    isinstance(a.value, ast.Call) and call_attr(a.value) == "dict" and not a.value.args):
                out.append(n)
    return out


def r16a(run, C):
    total = 0
    for f in [g for g in C.module.functions.values() if g.qualname.startswith(C.qualname + ".")]:
        if f.name == "__init__":
            continue
        fa = analysis(f)
        writes = _reg_writes(fa)
        resets = _cache_resets(fa)
        for n, c, kind in writes:
            total += 1
            reach = fa.cfg.reach_from_succ(n, kinds=(N,), avoid=resets)
            ok = fa.cfg.exit not in reach or n in resets
            # a reset *before* the write is not enough: a lookup between the two refills the memo from the old list
            run.check("R16a", f, f"registry write `{norm_stmt(n.ast)[:60]}` is paired with a reset of the resolve memo", ok,
                      construct=f"registry write without cache reset: {kind}",
                      message=f"`{norm_stmt(n.ast)}` changes the registration list but the paths from it to the function "
                              f"exit do not all reset self._cache afterwards",
                      necessity="a type resolved before the registration keeps its memoised converter: the new "
                                "registration is ignored for that type and everything already cached", node=n.ast)
    run.floor("R16a", "writes to the registration list", total, 1)


def r16b(run, C):
    f = registration_writer(run)
    fa = analysis(f)
    writes = _reg_writes(fa)
    ins = [(n, c) for n, c, k in writes if k == "insert"]
    sorts = [(n, c) for n, c, k in writes if k == "sort"]
    apps = [(n, c) for n, c, k in writes if k in ("append", "extend")]
    if ins and all(isinstance(c.args[0], ast.Constant) and c.args[0].value == 0 for n, c in ins) and not apps:
        # idiom A: insert at the front + unconditional stable sort by priority descending
        run.ob("R16b", f, "new registrations are inserted at the front (newest first)", True)
        ok_sort = False
        why = "no sort after the insert"
        for n, c in sorts:
            uncond = all(fa.cfg.dominates(i, n) for i, _ in ins) and not [
                b for b in fa.facts.branch_facts(n) if not any(fa.cfg.dominates(b, i) for i, _ in ins)]
            # every path from the insert to the exit passes the sort
            for i, _ in ins:
                if fa.cfg.exit in fa.cfg.reach_from_succ(i, kinds=(N,), avoid=[n]):
                    uncond = False
            key = kwarg(c, "key")
            rev = kwarg(c, "reverse")
            desc = False
            if isinstance(key, ast.Lambda):
                body = key.body
                if isinstance(body, ast.UnaryOp) and isinstance(body.op, ast.USub) and rev is None:
                    desc = True
                elif rev is not None and isinstance(rev, ast.Constant) and rev.value is True \
                        and not isinstance(body, ast.UnaryOp):
                    desc = True
                # the key must be the priority component: the same index as in the inserted tuple
                idx = None
                for sub in ast.walk(body):
                    if isinstance(sub, ast.Subscript) and isinstance(sub.slice, ast.Constant):
                        idx = sub.slice.value
                tup = ins[0][1].args[1] if len(ins[0][1].args) > 1 else None
                if isinstance(tup, ast.Tuple) and idx is not None and 0 <= idx < len(tup.elts):
                    if unparse(tup.elts[idx]) != "priority":
                        desc = False
                        why = "the sort key is not the priority component"
                else:
                    desc = False
            if not uncond:
                why = "the sort runs only under a condition (" + ", ".join(
                    f"{unparse(b.test)}={b.polarity}" for b in fa.facts.branch_facts(n)
                    if not any(fa.cfg.dominates(b, i) for i, _ in ins)) + ")"
            elif not desc:
                why = why if "component" in why else "the sort is not by priority descending"
            if uncond and desc:
                ok_sort = True
        run.check("R16b", f, "after every insertion the list is stably sorted by priority descending", ok_sort,
                  construct="priority order not re-established on every registration",
                  message=f"register(): {why}",
                  necessity="a later registration with priority 0 is inserted at the front and stays ahead of an "
                            "earlier registration with a higher priority: the lower priority converter wins", node=f.node)
    else:
        # any other way of placing the entry (a scan, bisect, a helper ...): the order is decided by the registration-effect
        # table R16h (helper_table.r_register), which interprets register() on registries of every priority mix - no shape
        # is required here (round 8: the scan-insert shape rule alarmed on a bisect-based placement that keeps the order)
        run.ob("R16b", f, "placement idiom other than insert-at-front + sort: the order is decided by the R16h table", True)


def r16c(run, C):
    """the detector that register() builds, as a decision table: register is interpreted (absint.py) for every combination
    of criteria - no class / one / two classes, allow_subclasses on / off, a metaclass or none, an attribute or none - and the
    resulting detector is applied to the exact class, a subclass, an unrelated class, each with / without the attribute and
    of / not of the metaclass.  It must accept exactly when every given criterion holds."""
    import itertools
    from ..absint import Interp, Obj, Raised
    reg = run.repo.func("utype.utils.base", "TypeRegistry.register")
    f = reg
    methods = {m.name: m.node for m in C.methods.values()}
    for crit in ("classes", "allow_subclasses", "metaclass", "attr"):
        ok = crit in reg.params
        run.check("R16c", reg, f"register() takes the criterion `{crit}`", ok, construct=f"criterion {crit} missing",
                  message=f"TypeRegistry.register has no `{crit}` parameter")
    A = Obj("class A", _is_class=True)
    B = Obj("class B", _is_class=True)
    M = Obj("metaclass M", _is_class=True)
    wrong = {}
    total = 0
    for classes in ((), (A,), (A, B)):
        for allow_sub in (True, False):
            for meta in (None, M):
                for attr in (None, "marker"):
                    self_ = Obj("TypeRegistry", validator=lambda fn: True, _registry=[], _cache={"stale": 1}, _lock=Obj("lock"),
                                cache=True, name="registry")
                    from .helper_table import stdlib_globals, inspect_model
                    ip = Interp(globals_=dict(stdlib_globals(reg.module), inspect=inspect_model()), methods=methods,
                                module=reg.module)
                    kw = dict(attr=attr, metaclass=meta, allow_subclasses=allow_sub)
                    try:
                        deco = ip.call_function(reg.node, (self_,) + classes, kw)
                        deco("the-function")
                    except Raised as r:
                        if not classes and not attr and not meta:
                            continue         # no criterion at all: refused, as documented
                        wrong.setdefault("a registration with criteria is accepted", (f"classes={len(classes)}, {kw}", r.cls, "registered"))
                        continue
                    if not classes and not attr and not meta:
                        wrong.setdefault("a registration without any criterion is refused", ("no criterion", "registered", "ValueError"))
                        continue
                    if len(self_._registry) != 1:
                        wrong.setdefault("one registration adds one entry", (str(kw), len(self_._registry), 1))
                        continue
                    det = self_._registry[0][0]
                    for kind in ("exact", "subclass", "other"):
                        for has_attr in (True, False):
                            for of_meta in (True, False):
                                c = A if kind == "exact" else Obj(f"class {kind}", _is_class=True,
                                                                   _mro=(A,) if kind == "subclass" else ())
                                c = Obj(c._cls, _is_class=True, _mro=c.__dict__.get("_mro", ()), _type=M if of_meta else None)
                                if kind == "exact":
                                    # the exact class itself: a fresh object would not be `in classes`; use A with the features
                                    c = A
                                    A.__dict__["_type"] = M if of_meta else None
                                    A.__dict__.pop("marker", None)
                                if has_attr:
                                    c.__dict__["marker"] = "v"
                                total += 1
                                try:
                                    got = bool(det(c))
                                except Raised as r:
                                    got = f"raises {r.cls}"
                                want = True
                                if classes:
                                    want = want and (kind == "exact" or (kind == "subclass" and allow_sub))
                                if meta:
                                    want = want and of_meta
                                if attr:
                                    want = want and has_attr
                                if got != want:
                                    which = ("class criterion (subclasses admitted)" if classes and allow_sub else
                                             "class criterion (exact classes only)" if classes else "no class criterion")
                                    wrong.setdefault(which + (", metaclass" if meta else "") + (", attribute" if attr else ""),
                                                     (f"{len(classes)} class(es), allow_subclasses={allow_sub}, metaclass="
                                                      f"{'M' if meta else None}, attr={attr!r}; candidate: {kind} class, "
                                                      f"{'has' if has_attr else 'lacks'} the attribute, "
                                                      f"{'instance' if of_meta else 'not an instance'} of M", got, want))
    run.check("R16c", f, "the generated detector accepts exactly the types that meet every given criterion", not wrong,
              construct="detector criteria",
              message="the detector built by TypeRegistry.register disagrees with the registration's own criteria: " + "; ".join(
                  f"[{k}] for {v[0]} it answers {v[1]!r}, expected {v[2]!r}" for k, v in sorted(wrong.items())[:3]),
              necessity="matching does not follow the registration's own criteria (exact class, subclass, metaclass, "
                        "attribute): a converter is used for types it was not registered for, or skipped for ones it was")
    run.floor("R16c", "detector evaluations", total, 200)
    # (the shape of the stored entry - (detector, function, priority) - is decided by the R16h table)


def r16d(run, C):
    """TypeRegistry.resolve as a decision table.  The function (with helpers that are new with respect to the baseline
    analysed in place) is interpreted by the checker's own interpreter (absint.py) over every combination of: a registry of
    0..3 entries whose detectors accept / reject / raise TypeError, caching on / off, the type memoised or not, no shortcut
    attribute / a valid one / an invalid one / shortcut configured but absent on the type, a base registry or none.  The
    answer and the memo afterwards are compared with the documented resolution order: shortcut, memo (when caching), the
    first accepting entry in list order (raising detectors are skipped; the match is memoised when caching), the base
    registry, the default - and nothing but a positive match of this registry's own scan is ever memoised."""
    import itertools
    from ..absint import Interp, Obj, Raised
    f = run.repo.func("utype.utils.base", "TypeRegistry.resolve")
    methods = {m.name: m.node for m in C.methods.values()}
    total = 0
    wrong = {}

    def detector(outcome):
        def d(_t):
            if outcome == "X":
                raise Raised("TypeError", ("not a class",))
            return outcome == "A"
        return d
    depth = (1, 2, 3, 4) if run.thorough else (1, 2, 3)       # thorough: registries of up to four entries
    registries = [()] + [c for n_ in depth for c in itertools.product("ARX", repeat=n_)]
    for reg in registries:
        for cache in (True, False):
            for memoised in (False, True):
                for shortcut in ("none", "valid", "invalid", "absent"):
                    for has_base in (False, True):
                        t = Obj("T", _is_class=True)
                        if shortcut in ("valid", "invalid"):
                            setattr(t, "__short__", "short-" + shortcut)
                        memo = {t: "memoised"} if memoised else {}
                        base = Obj("TypeRegistry", resolve=lambda _t: "from-base") if has_base else None
                        self_ = Obj("TypeRegistry", shortcut=None if shortcut == "none" else "__short__",
                                    validator=lambda v: v == "short-valid", cache=cache, _cache=memo, _lock=Obj("lock"),
                                    _registry=[(detector(o), f"fn{i}", 0) for i, o in enumerate(reg)], base=base,
                                    default="the-default", name="registry")
                        ip = Interp(methods=methods, module=f.module)
                        try:
                            got = ip.call_function(f.node, (self_, t), {})
                        except Raised as r:
                            got = ("raised", r.cls)
                        total += 1
                        first = next((f"fn{i}" for i, o in enumerate(reg) if o == "A"), None)
                        want_memo = {t: "memoised"} if memoised else {}
                        if shortcut == "valid":
                            want, clause = "short-valid", "a valid shortcut attribute of the type wins"
                        elif cache and memoised:
                            want, clause = "memoised", "with caching the memoised answer is served"
                        elif first is not None:
                            want, clause = first, "the first accepting entry in list order wins (raising detectors are skipped)"
                            if cache:
                                want_memo = dict(want_memo)
                                want_memo[t] = first
                        elif has_base:
                            want, clause = "from-base", "without a match the base registry answers"
                        else:
                            want, clause = "the-default", "without a match and without a base the default answers"
                        label = (f"registry detectors {''.join(reg) or '-'}, cache={cache}, memoised={memoised}, "
                                 f"shortcut {shortcut}, base={has_base}")
                        if got != want:
                            wrong.setdefault(clause, (label, got, want))
                        elif self_._cache != want_memo:
                            k = "the memo holds only positive matches of this registry's own scan, keyed by the type, " \
                                "and only when caching is enabled"
                            wrong.setdefault(k, (label, f"memo {[v for v in self_._cache.values()]}",
                                                 f"memo {[v for v in want_memo.values()]}"))
    clauses = ["a valid shortcut attribute of the type wins", "with caching the memoised answer is served",
               "the first accepting entry in list order wins (raising detectors are skipped)",
               "without a match the base registry answers", "without a match and without a base the default answers",
               "the memo holds only positive matches of this registry's own scan, keyed by the type, and only when caching "
               "is enabled"]
    for clause in clauses:
        w = wrong.get(clause)
        run.check("R16d", f, f"resolve: {clause}", w is None, construct=f"resolve: {clause[:60]}",
                  message=f"TypeRegistry.resolve: {clause} - but for [{w[0] if w else ''}] it gives "
                          f"{w[1] if w else ''!r} instead of {w[2] if w else ''!r}",
                  necessity="the converter used is not the matching registration with the highest priority (or an answer "
                            "that a later registration cannot invalidate is served from the memo)")
    run.floor("R16d", "abstract input classes of resolve evaluated", total, 1000)
    # the two registries are created with the documented settings
    for mod, owner in (("utype.utils.transform", "TypeTransformer"), ("utype.utils.encode", None)):
        m = run.repo.module(mod)
        found = False
        for sub in ast.walk(m.tree):
            if isinstance(sub, ast.Call) and call_attr(sub) == "TypeRegistry":
                found = True
        run.check("R16d", f"{mod}", "a TypeRegistry instance is created here", found, construct="registry instance",
                  message=f"{mod} no longer creates a TypeRegistry")


def r16e(run):
    """the converter that runs is the one the registry resolved"""
    T = run.repo.cls("utype.utils.transform", "TypeTransformer")
    f = T.methods["__call__"]
    fa = analysis(f)
    res = [(n, c) for n, c in fa.all_calls() if call_attr(c) in ("resolver_transformer", "resolve")]
    run.check("R16e", f, "the dispatcher asks the registry for the converter", len(res) == 1,
              construct="dispatcher resolution", message="TypeTransformer.__call__ does not resolve through the registry exactly once")
    if len(res) != 1:
        return
    rn = res[0][0]
    var = rn.ast.targets[0].id if isinstance(rn.ast, ast.Assign) and isinstance(rn.ast.targets[0], ast.Name) else None
    disp = [(n, c) for n, c in fa.all_calls() if isinstance(c.func, ast.Name) and c.func.id == var]
    ok = bool(var) and bool(disp) and all(set(fa.rd.defs_of(n, var)) == {rn} for n, c in disp)
    run.check("R16e", f, "the function applied is exactly the resolution result", ok,
              construct="dispatcher applies another function",
              message=f"TypeTransformer.__call__: the callee `{var}` of the final dispatch has definitions other than "
                      f"the registry's answer (it is re-bound between resolution and application)",
              necessity="the converter used is no longer 'the matching registration with the highest priority': a user "
                        "registration is silently replaced", node=disp[0][1] if disp else None)
    g = T.methods["resolver_transformer"]
    ok = any(isinstance(c, ast.Call) and call_attr(c) == "resolve" and "registry" in unparse(c.func)
             for c in walk_shallow(g.node))
    run.check("R16e", g, "resolver_transformer delegates to the registry", ok, construct="resolver_transformer",
              message="TypeTransformer.resolver_transformer does not return registry.resolve(t)")
    a = T.methods["apply"]
    aa = analysis(a)
    calls = [(n, c) for n, c in aa.all_calls() if isinstance(c.func, ast.Name) and c.func.id == "func"]
    ok = bool(calls) and all(aa.rd.is_param_only(n, "func") for n, c in calls)
    run.check("R16e", a, "apply() runs the converter it was given", ok, construct="apply rebinds func",
              message="TypeTransformer.apply re-binds `func` before calling it")


def r16f(run):
    """the converter is looked up when the value is converted: a conversion that is handed a converter resolved when the
    class / field was *declared* (an attribute filled from resolver_transformer at set-up time) keeps using the
    registration that matched then"""
    from . import c04
    # attributes that hold declaration-time resolutions: `<x>.<attr> = ...resolver_transformer(...)` / a tuple built from it
    held = {}
    for f in run.repo.all_functions():
        if not f.module.name.startswith("utype.parser") and f.module.name != "utype.schema":
            continue
        fa = analysis(f)
        resolved_locals = set()
        for n in fa.cfg.nodes:
            if n.kind == "stmt" and isinstance(n.ast, ast.Assign) and any(
                    isinstance(c, ast.Call) and call_attr(c) in ("resolver_transformer", "resolve") for c in ast.walk(n.ast.value)):
                for t in n.ast.targets:
                    if isinstance(t, ast.Name):
                        resolved_locals.add(t.id)
                    elif isinstance(t, ast.Attribute):
                        held.setdefault(t.attr, []).append(f)
        # containers of resolved locals: lst.append(<resolved local>) ... <x>.<attr> = tuple(lst)
        grown = set(resolved_locals)
        changed = True
        while changed:
            changed = False
            for n, c in fa.all_calls():
                if call_attr(c) in ("append", "extend", "add") and isinstance(c.func.value, ast.Name) and c.args \
                        and names_in(c.args[0]) & grown and c.func.value.id not in grown:
                    grown.add(c.func.value.id)
                    changed = True
            for n in fa.cfg.nodes:
                if n.kind == "stmt" and isinstance(n.ast, ast.Assign) and names_in(n.ast.value) & grown:
                    for t in n.ast.targets:
                        if isinstance(t, ast.Name) and t.id not in grown:
                            grown.add(t.id)
                            changed = True
                        elif isinstance(t, ast.Attribute) and f not in held.get(t.attr, []):
                            held.setdefault(t.attr, []).append(f)
    run.notes.append(f"R16f: attributes filled with declaration-time resolutions: {sorted(held)}")
    sites = 0
    for f in c04.in_scope_functions(run):
        fa = analysis(f)
        for n, c in fa.all_calls():
            fk = kwarg(c, "func")
            if call_attr(c) != "apply" or fk is None or (isinstance(fk, ast.Constant) and fk.value is None):
                continue
            sites += 1
            # where does the handed converter come from
            srcs = set()

            def attrs_of(e, node, depth=0):
                for x in ast.walk(e):
                    if isinstance(x, ast.Attribute) and x.attr in held:
                        srcs.add(x.attr)
                if depth < 4:
                    for x in ast.walk(e):
                        if isinstance(x, ast.Name) and x.id in fa.rd.locals:
                            for o in prov(fa).of_name(node, x.id):
                                if o.node is not None and o.at is not None:
                                    attrs_of(o.node, o.at, depth + 1)
                                if o.kind in ("iter", "iter-unpack") and any(h in o.text for h in held):
                                    srcs.update(h for h in held if h in o.text)
            attrs_of(fk, n)
            run.check("R16f", f, f"`{unparse(c)[:60]}` looks the converter up at conversion time", not srcs,
                      construct=f"declaration-time converter {'/'.join(sorted(srcs))} used by {f.name}",
                      message=f"{f.qualname}: `{unparse(c)[:80]}` is handed `{unparse(fk)}`, which comes from "
                              f"{sorted(srcs)}: resolved once when the type was declared "
                              f"({', '.join(sorted({g.qualname for a in srcs for g in held[a]}))})",
                      necessity="a registration made after the declaration is ignored for these conversions: "
                                "List[Money] keeps converting its elements with the converter that matched when the field "
                                "was declared", node=c)
    run.floor("R16f", "conversions handed a converter", sites, 3)


def r16g(run):
    """the memo is a dict keyed by the type object: two distinct types must never be equal keys.  Classes compare by
    identity unless a metaclass overrides __eq__ / __hash__ - the library's metaclasses must not"""
    metas = []
    for m in run.repo.modules.values():
        for C in m.classes.values():
            bases = {b.split(".")[-1] for b in C.base_names}
            if "type" in bases or bases & {"LogicalType", "ABCMeta", "LogicalMeta"} or C.name.endswith("Meta"):
                metas.append(C)
    run.floor("R16g", "metaclasses of the library", len(metas), 2)
    for C in metas:
        over = sorted(n for n in ("__eq__", "__hash__") if n in C.methods or n in C.assigns)
        run.check("R16g", C.ref, f"types created by {C.name} compare by identity", not over,
                  construct=f"metaclass {C.name} overrides {'/'.join(over)}",
                  message=f"metaclass {C.name} defines {over}: two distinct types it creates can be equal dictionary keys, so "
                          f"they share one entry of the registry's memo (a dict keyed by the type)",
                  necessity="the second of two equal-but-distinct types gets the converter memoised for the first without "
                            "its own detectors (attribute, detector function) being consulted")


def check(run):
    run.rules_run += ["R16a", "R16b", "R16c", "R16d", "R16e", "R16f", "R16g"]
    run.explain("C16: (R16a) every write to the registration list is followed on all paths by a reset of the resolve "
                "memo; (R16b) after each insertion at the front the list is unconditionally stably sorted by the "
                "priority component, descending; (R16c) every registration criterion reaches the generated detector "
                "with the documented polarity; (R16d) resolve consults shortcut, memo (keyed by the type), the list "
                "in order, base, default.")
    C = registry_class(run)
    run.rule(r16a, run, C)
    run.rule(r16b, run, C)
    run.rule(r16c, run, C)
    run.rule(r16d, run, C)
    run.rule(r16e, run)
    run.rule(r16f, run)
    run.rule(r16g, run)
    # round 8: the effect of one registration on the registry, as a table (helper_table.py)
    from . import helper_table as _ht
    run.rules_run.append("R16h")
    run.rule(_ht.r_register, run, C)
